"""C09 -- minimize never makes things worse, terminates (structural clauses L1..L6 on the solver loop)."""
import re

import astlib as A
import fe
from report import Finding


def writes_to(node, name):
    """AST nodes that assign / increment the variable `name` inside node"""
    out = []
    for x in A.walk(node):
        k = x.get("kind")
        if k in ("BinaryOperator", "CompoundAssignOperator", "CXXOperatorCallExpr"):
            e = A.to_expr(x)
            if e[0] == "op" and (e[1] == "=" or e[1].endswith("=") and e[1] not in ("==", "<=", ">=", "!=")) and e[2][0] == "ref" and e[2][1] == name:
                out.append(x)
        elif k == "UnaryOperator" and x.get("opcode") in ("++", "--"):
            e = A.to_expr(x)
            if e[2][0] == "ref" and e[2][1] == name:
                out.append(x)
    return out


def is_cb_call(e):
    return e[0] == "call" and str(e[1]).split("::")[-1] == "apply" and len(e[2]) == 2 and e[2][0][0] == "ref" and e[2][0][1] == "cb" \
        and e[2][1][0] == "ref" and e[2][1][1] == "x"


def is_cb_any(e):
    return e[0] == "call" and str(e[1]).split("::")[-1] == "apply" and len(e[2]) == 2 and e[2][0][0] == "ref" and e[2][0][1] == "cb"


def disjuncts(e):
    if e[0] == "op" and e[1] == "||":
        return disjuncts(e[2]) + disjuncts(e[3])
    return [e]


def decl_inits(body):
    """name -> init expr for VarDecls and bindings of decomposition declarations"""
    out = {}
    for x in A.walk(body):
        if x.get("kind") == "VarDecl" and A.kids(x):
            out[x.get("name")] = A.to_expr(A.kids(x)[-1])
        elif x.get("kind") == "DecompositionDecl":
            init = [k for k in A.kids(x) if k.get("kind") != "BindingDecl"]
            names = [k.get("name") for k in A.kids(x) if k.get("kind") == "BindingDecl"]
            if init:
                e = A.to_expr(init[0])
                for i, n in enumerate(names):
                    out[n] = ("binding", i, e)
    return out


def check(rep, tier, replay=None):
    rep.explanations.append(
        "C09: rules on the single solver loop of minimize<D>(f, x, cb, opts): iteration bound, status discipline, callback "
        "discipline, guarded step, gain-ratio data flow, and the sign rule of every TrustRegionStrategy::step_and_update override.")
    rep.trusted.add("clang++-16 front end (JSON AST of the function template pattern)")
    rep.assumptions.append("monotone cost additionally needs pred_red >= 0, i.e. the step solver property C10, which is not decided statically")
    d = fe.ast_dumps(["minimize", "Strategy"])
    rep.unit("umbrella TU filtered minimize / Strategy")
    idx = A.index(d["minimize"])
    cands = [x for x in idx if x.kind in A.FUNCS and x.pattern and x.qname.split("::")[-1] == "minimize" and x.file and x.file.startswith(fe.INCLUDE)
             and A.body(x.node) is not None]
    mains = [x for x in cands if any(s.get("kind") == "ForStmt" for s in A.kids(A.body(x.node)))]
    if len(mains) != 1:
        rep.broke("expected exactly one minimize overload containing the solver loop, found %d" % len(mains))
        return
    fn = mains[0]
    qn = "minimize<D>(f, x, cb, opts)"
    b = A.body(fn.node)
    stmts = A.kids(b)
    loops = [s for s in stmts if s.get("kind") == "ForStmt"]
    all_loops = [x for x in A.walk(b) if x.get("kind") in ("ForStmt", "WhileStmt", "DoStmt", "CXXForRangeStmt")]
    inits = decl_inits(b)
    f0, l0 = fn.file, fn.line

    # ---- L1 bound -----------------------------------------------------------------------
    rep.rule("L1", "at most max_iter iterations; result.iter counts them")
    loop = loops[0]
    ks = A.kids(loop)
    cond = A.to_expr(ks[2])
    inc = A.to_expr(ks[3])
    body = ks[4]
    conj = []

    def conjuncts(e):
        if e[0] == "op" and e[1] == "&&":
            return conjuncts(e[2]) + conjuncts(e[3])
        return [e]
    conj = conjuncts(cond)
    bound_ok = any(c[0] == "op" and c[1] == "<" and c[2][0] == "ref" and c[2][1] == "iter" and A.show(c[3]) == "opts.max_iter" for c in conj)
    init_ok = "iter" in inits and inits["iter"] == ("num", 0)
    inc_ok = inc[0] == "un" and inc[1].startswith("++") and inc[2][0] == "ref" and inc[2][1] == "iter"
    other_writes = [w for w in writes_to(body, "iter")] + [w for s in stmts if s is not loop for w in writes_to(s, "iter")]
    single_loop = len(all_loops) == 1
    ok = bound_ok and init_ok and inc_ok and not other_writes and single_loop
    f, l = A.loc(loop)
    rep.instance("L1", qn, "loop", ok=ok, sample={"file": fe.rel(f), "line": l, "condition": A.show(cond), "increment": A.show(inc)})
    if not ok:
        why = []
        if not bound_ok:
            why.append("loop condition `%s` lacks the conjunct iter < opts.max_iter" % A.show(cond))
        if not init_ok:
            why.append("iter does not start at 0")
        if not inc_ok:
            why.append("increment is `%s`, not ++iter" % A.show(inc))
        if other_writes:
            why.append("iter is written elsewhere (%s)" % A.text(other_writes[0])[:40])
        if not single_loop:
            why.append("%d loops in the solver (one confirmed)" % len(all_loops))
        rep.violation(Finding("L1", qn, "loop", "iteration bound not enforced: " + "; ".join(why), f, l))

    # ---- L2 status -----------------------------------------------------------------------
    rep.rule("L2", "status assigned only inside the loop to Ftol/Ptol; MaxIters reported exactly via value_or")
    sw = writes_to(b, "status")
    in_loop = set(id(x) for x in A.walk(body))
    vals = []
    bad = []
    for w in sw:
        e = A.to_expr(w)
        v = A.show(e[3]).split("::")[-1]
        vals.append(v)
        if id(w) not in in_loop or v not in ("Ftol", "Ptol"):
            bad.append(w)
    stop_ok = any(A.show(c) == "!(status.has_value())" for c in conj)
    rets = [s for s in stmts if s.get("kind") == "ReturnStmt"]
    ret_ok = False
    if len(rets) == 1:
        e = A.to_expr(A.kids(rets[0])[0])
        if e[0] in ("init", "ctor"):
            items = e[1] if e[0] == "init" else e[2]
            if len(items) >= 2:
                ret_ok = (re.sub(r"\s", "", A.show(items[0])) in ("status.value_or(MaxIters)", "status.value_or(SolveResult::Status::MaxIters)", "status.value_or(Status::MaxIters)")
                          and items[1][0] == "ref" and items[1][1] == "iter")
    init_ok2 = "status" in inits and A.show(inits["status"]) in ("{}", "std::optional<SolveResult::Status>()", "nullopt") or inits.get("status", ("x",))[0] in ("init", "ctor")
    ok = not bad and stop_ok and ret_ok and len(sw) >= 2 and init_ok2
    rep.instance("L2", qn, "status", ok=ok, sample={"assigned": vals, "return": A.show(A.to_expr(A.kids(rets[0])[0]))[:120] if rets else None})
    if not ok:
        why = []
        if bad:
            why.append("status assigned outside the loop or to something other than Ftol/Ptol: %s" % A.text(bad[0])[:60])
        if not stop_ok:
            why.append("loop does not stop when a status is set")
        if not ret_ok:
            why.append("result is not {status.value_or(MaxIters), iter, ...}")
        if len(sw) < 2:
            why.append("fewer than two convergence assignments")
        f, l = A.loc(rets[0]) if rets else (f0, l0)
        rep.violation(Finding("L2", qn, "status", "; ".join(why) or "status initialisation changed", f, l))

    # ---- L3 callback discipline -----------------------------------------------------------
    rep.rule("L3", "callback sees the initial point once, then exactly once after every accepted step")
    pre = stmts[:stmts.index(loop)]
    pre_calls = [s for s in pre if s.get("kind") == "CallExpr" and is_cb_call(A.to_expr(s))]
    post_calls = [x for s in stmts[stmts.index(loop) + 1:] for x in A.walk(s) if x.get("kind") == "CallExpr" and is_cb_call(A.to_expr(x))]
    nested_pre = [x for s in pre for x in A.walk(s) if x.get("kind") == "CallExpr" and is_cb_call(A.to_expr(x))]
    ok_pre = len(pre_calls) == 1 and len(nested_pre) == 1 and not post_calls
    # in-loop: within each compound statement, an assignment to x must be followed (same block, before another write to x) by the callback
    problems = []
    n_pairs = 0

    def scan_block(block):
        nonlocal n_pairs
        items = A.kids(block)
        pending = None
        for s in items:
            if s.get("kind") in ("BinaryOperator", "CXXOperatorCallExpr") and writes_to(s, "x") and s in writes_to(s, "x"):
                if pending is not None:
                    problems.append((pending, "x is overwritten before the callback saw the previous iterate"))
                pending = s
                continue
            e = A.to_expr(s) if s.get("kind") == "CallExpr" else None
            if e is not None and is_cb_call(e):
                if pending is None:
                    problems.append((s, "callback invoked without a preceding accepted step in the same block"))
                else:
                    n_pairs += 1
                pending = None
                continue
            # nested statements
            nested_w = writes_to(s, "x")
            nested_c = [x for x in A.walk(s) if x.get("kind") == "CallExpr" and is_cb_call(A.to_expr(x))]
            if s.get("kind") in ("IfStmt", "CompoundStmt", "ForStmt", "WhileStmt"):
                for c in A.kids(s):
                    if c.get("kind") == "CompoundStmt":
                        scan_block(c)
                    elif c.get("kind") == "IfStmt":
                        scan_block({"kind": "CompoundStmt", "inner": [c]})
            elif nested_w or nested_c:
                problems.append((s, "x written / callback invoked inside an expression the rule does not recognise"))
        if pending is not None:
            problems.append((pending, "accepted step is not followed by the callback before the end of the block"))
    scan_block(body)
    for x in A.walk(b):
        if x.get("kind") == "CallExpr":
            e = A.to_expr(x)
            if is_cb_any(e) and not is_cb_call(e):
                problems.append((x, "callback is invoked on `%s`, not on the iterate x the arguments hold" % A.show(e[2][1])))
    ok = ok_pre and not problems and n_pairs >= 1
    rep.instance("L3", qn, "callback", ok=ok, sample={"initial_calls": len(pre_calls), "step_callback_pairs": n_pairs})
    if not ok_pre:
        rep.violation(Finding("L3", qn, "initial", "callback must be applied exactly once to the initial point before the loop and never after it "
                              "(before: %d, after: %d)" % (len(nested_pre), len(post_calls)), f0, l0))
    for node, msg in problems:
        f, l = A.loc(node)
        rep.violation(Finding("L3", qn, "step", msg + ": " + A.text(node)[:60], f, l))
    if n_pairs < 1 and not problems:
        rep.violation(Finding("L3", qn, "step", "no accepted-step/callback pair found in the loop", f0, l0))

    # ---- helpers: inline local definitions -----------------------------------------------------
    def inline(e, depth=0):
        if depth > 25 or not isinstance(e, tuple):
            return e
        if e[0] == "ref" and e[1] in inits and inits[e[1]][0] != "binding":
            return inline(inits[e[1]], depth + 1)
        if e[0] == "lambda":
            return e
        return tuple(inline(x, depth) if isinstance(x, tuple) else ([inline(y, depth) for y in x] if isinstance(x, list) else x) for x in e)

    def strip_ids(e):
        if isinstance(e, tuple):
            if e and e[0] == "ref":
                return ("ref", e[1])
            return tuple(strip_ids(x) for x in e)
        if isinstance(e, list):
            return [strip_ids(x) for x in e]
        return e

    def is_norm_of(e):
        """X if e == X.stableNorm() / X.norm()"""
        if e[0] == "mcall" and e[2] in ("stableNorm", "norm") and not e[4]:
            return e[1]
        return None

    def one_minus_sq_ratio(e):
        """(numerator expr, denominator expr) if e == 1 - fpow<2>(num/den), else None"""
        if e[0] == "op" and e[1] == "-" and e[2] == ("num", 1) and e[3][0] == "call" and str(e[3][1]).split("::")[-1].startswith("fpow") and len(e[3][2]) == 1:
            q = e[3][2][0]
            if q[0] == "op" and q[1] == "/":
                return q[2], q[3]
        return None

    binding_src = {n: v for n, v in inits.items() if v[0] == "binding"}
    rname = next((n for n, v in binding_src.items() if v[1] == 0 and re.sub(r"\s", "", A.show(v[2])).endswith("dr(f,x)")), None)
    jname = next((n for n, v in binding_src.items() if v[1] == 1 and re.sub(r"\s", "", A.show(v[2])).endswith("dr(f,x)")), None)
    dxname = next((n for n, v in binding_src.items() if v[1] == 0 and "solve_trust_region" in A.show(v[2])), None)
    if not (rname and jname and dxname):
        rep.broke("minimize: residual/Jacobian (diff::dr<1,D>(f, x)) or step (solve_trust_region) bindings not found")
        return
    fp = [x for x in A.walk(b) if x.get("kind") == "CallExpr" and "fpow" in (A.callee_name(A.kids(x)[0]) or "")]
    fp_sq = all(A.ntext(A.kids(x)[0]).endswith("fpow<2>") for x in fp)

    # the gain ratio handed to the strategy
    verdict_calls = [x for x in A.walk(b) if x.get("kind") in ("CallExpr", "CXXMemberCallExpr") and A.to_expr(x)[0] == "mcall" and A.to_expr(x)[2] == "step_and_update"]
    if len(verdict_calls) != 1:
        rep.broke("minimize: expected exactly one call of strat->step_and_update, found %d" % len(verdict_calls))
        return
    vcall = strip_ids(inline(A.to_expr(verdict_calls[0])))
    rho_inl = strip_ids(inline(A.to_expr(verdict_calls[0])[4][0]))

    # ---- L6 gain ratio data flow -----------------------------------------------------------------
    rep.rule("L6", "rho = actual/predicted reduction, actual cost evaluated at the candidate x(+)dx, both normalised by |r(x)|")
    shape = None
    if rho_inl[0] == "op" and rho_inl[1] == "/":
        a, pr = one_minus_sq_ratio(rho_inl[2]), one_minus_sq_ratio(rho_inl[3])
        if a and pr:
            shape = (a, pr)
    if shape is None or not fp_sq:
        rep.broke("L6: gain ratio `%s` is no longer of the form (1 - (|.|/|.|)^2) / (1 - (|.|/|.|)^2); re-derive the rule" % A.show(rho_inl)[:120])
    else:
        (an, ad), (pn, pd) = shape
        errs = []
        r_ref = ("ref", rname)
        want_den = None
        if is_norm_of(ad) != r_ref:
            errs.append("actual reduction is normalised by `%s`, not by the norm of the current residual %s" % (A.show(ad), rname))
        if is_norm_of(pd) != r_ref:
            errs.append("predicted reduction is normalised by `%s`, not by the norm of the current residual %s" % (A.show(pd), rname))
        cand = is_norm_of(an)
        okc = (cand is not None and cand[0] == "call" and str(cand[1]).split("::")[-1] == "apply" and len(cand[2]) == 2 and cand[2][0] == ("ref", "f")
               and cand[2][1][0] == "call" and str(cand[2][1][1]).split("::")[-1] == "wrt_rplus" and cand[2][1][2] == [("ref", "x"), ("ref", dxname)])
        if not okc:
            errs.append("actual cost is `%s`; it must be |f(x (+) dx)| at the candidate point" % A.show(an)[:80])
        lin = is_norm_of(pn)
        okl = False
        if lin is not None and lin[0] == "op" and lin[1] == "+":
            terms = [lin[2], lin[3]]
            jd = ("op", "*", ("ref", jname), ("ref", dxname))
            okl = r_ref in terms and jd in terms
        if not okl:
            errs.append("predicted cost is `%s`; it must be |r + J*dx| of the linearised model" % A.show(pn)[:80])
        rep.instance("L6", qn, "gain-ratio", ok=not errs, sample={"rho": A.show(rho_inl)[:200]})
        fv, lv = A.loc(verdict_calls[0])
        for msg in errs:
            rep.violation(Finding("L6", qn, "gain-ratio", msg, fv, lv))

    # ---- L4 guarded step ----------------------------------------------------------------------
    rep.rule("L4", "x changes only under (degenerate guards || strategy verdict), and only to wrt_rplus(x, dx)")
    xw = writes_to(b, "x")
    parents = {}
    for p in A.walk(b):
        for c in A.kids(p):
            parents[id(c)] = p
    n4 = 0
    for w in xw:
        f, l = A.loc(w)
        e = A.to_expr(w)
        rhs = strip_ids(inline(e[3]))
        src_ok = rhs[0] == "call" and str(rhs[1]).split("::")[-1] == "wrt_rplus" and rhs[2] == [("ref", "x"), ("ref", dxname)]
        cur = w
        guard = None
        while id(cur) in parents:
            p = parents[id(cur)]
            if p.get("kind") == "IfStmt":
                pk = A.kids(p)
                if pk[1] is cur:
                    guard = A.to_expr(pk[0])
                elif cur is not pk[0]:
                    guard = ("else",)
                break
            if p.get("kind") in ("ForStmt", "WhileStmt"):
                break
            cur = p
        ok_g = False
        if guard and guard[0] != "else":
            dj = [strip_ids(inline(c)) for c in disjuncts(guard)]
            has_verdict = False
            allowed = 0
            for c in dj:
                if c == vcall:
                    has_verdict = True
                    allowed += 1
                elif c[0] == "op" and c[1] == "==" and c[3] == ("num", 0) and is_norm_of(c[2]) == ("ref", rname):
                    allowed += 1      # zero residual: nothing to lose
                elif c[0] == "op" and c[1] in ("<=", "<") and c[3] == ("num", 0) and rho_inl[0] == "op" and c[2] == rho_inl[3]:
                    allowed += 1      # non-positive predicted reduction
            ok_g = has_verdict and allowed == len(dj)
        n4 += 1
        rep.instance("L4", qn, "x=%s" % A.show(e[3]), ok=src_ok and ok_g, sample={"file": fe.rel(f), "line": l, "guard": A.show(guard) if guard else None})
        if not src_ok:
            rep.violation(Finding("L4", qn, "source", "x is assigned `%s`; the only sanctioned update is wrt_rplus(x, dx) with the trust-region step dx" % A.show(rhs)[:80], f, l))
        if not ok_g:
            rep.violation(Finding("L4", qn, "guard", "the step is taken under `%s`; it must be guarded by the strategy verdict "
                                  "(opts.strat->step_and_update(rho)) possibly or-ed with the degenerate guards |r| == 0 / predicted reduction <= 0 only"
                                  % (A.show(guard) if guard else "no condition"), f, l))
    if n4 == 0:
        rep.broke("L4: no assignment to x found in minimize")

    # ---- L5 strategies -------------------------------------------------------------------------------
    rep.rule("L5", "every step_and_update override accepts only for rho > c with constant c >= 0", minimum=2)
    sidx = A.index(d["Strategy"])
    over = [x for x in sidx if x.kind in A.FUNCS and x.pattern and x.qname.endswith("::step_and_update") and A.body(x.node) is not None
            and x.file and x.file.startswith(fe.INCLUDE)]
    for s in over:
        sb = A.body(s.node)
        par = {}
        for p in A.walk(sb):
            for c in A.kids(p):
                par[id(c)] = p
        pname = (A.params(s.node) or [{}])[0].get("name", "rho")
        for x in A.walk(sb):
            if x.get("kind") == "ReturnStmt":
                e = A.to_expr(A.kids(x)[0])
                f, l = A.loc(x)
                if e == ("bool", False):
                    continue
                ok = False
                guard_txt = None
                if e == ("bool", True):
                    cur = x
                    while id(cur) in par:
                        p = par[id(cur)]
                        if p.get("kind") == "IfStmt":
                            pk = A.kids(p)
                            g = A.to_expr(pk[0])
                            in_then = pk[1] is cur
                            guard_txt = A.show(g) + ("" if in_then else " [else branch]")
                            if in_then and g[0] == "op" and g[1] in (">", ">=") and g[2][0] == "ref" and g[2][1] == pname and g[3][0] == "num" and g[3][1] >= 0:
                                ok = True
                            elif in_then and g[0] == "op" and g[1] in ("<", "<=") and g[3][0] == "ref" and g[3][1] == pname and g[2][0] == "num" and g[2][1] >= 0:
                                ok = True
                            break
                        cur = p
                rep.instance("L5", s.qname, "return %s" % A.show(e), ok=ok, sample={"file": fe.rel(f), "line": l, "guard": guard_txt})
                if not ok:
                    rep.violation(Finding("L5", s.qname, "accept",
                                          "step accepted (`return %s`) under `%s`; acceptance must be dominated by %s > c with a constant c >= 0 "
                                          "(a NaN or negative gain ratio must reject)" % (A.show(e), guard_txt, pname), f, l))

    # minimize scales the trust region with colwise_norm(J) (dense and sparse Jacobians): shared rule N5 of C10
    import c10
    rep.rule("N5", "colwise_norm: sparse branch visits every outer vector, indexes by the iterator's column, squares, takes the root; dense branch is colwise().norm()", minimum=3)
    c10.check_n5(rep, fe.ast_dumps(["colwise_norm"]))

    # with numerical differentiation the Jacobian handed to the solver comes from dr_numerical: a collapsing finite-difference step gives a zero
    # column and a false Ftol/Ptol far from the minimiser (rule L7; the executor lives in props/c08.py)
    import c08
    c08.check_p4(rep, A.index(fe.ast_dump("dr_numerical")), rule_id="L7", first_order_only=True)
