#!/usr/bin/env python3
"""run_benign.py [-j N] [id-substring ...]
False-alarm regression corpus (NOT a registered check): every directory benign/<id>/ holds a behaviour-preserving refactor of /repo
(patch.diff, written by a sub-agent that saw only the property text; notes.md argues why behaviour is unchanged).  Each patch is applied
to a scratch copy of /repo's include tree under /tmp (removed afterwards) and the checks named in meta.json must exit 0 without a
VIOLATION line.  Entries whose patch no longer applies to the current tree are reported as STALE."""
import json
import os
import shutil
import subprocess
import sys
import tempfile
from concurrent.futures import ThreadPoolExecutor

VERIF = os.path.dirname(os.path.dirname(os.path.abspath(__file__)))
REPO = "/repo"


def run_one(bid):
    bdir = os.path.join(VERIF, "benign", bid)
    meta = json.load(open(os.path.join(bdir, "meta.json")))
    d = tempfile.mkdtemp(prefix="smooth-bn-")
    out = []
    try:
        for sub in ("include", "config"):
            shutil.copytree(os.path.join(REPO, sub), os.path.join(d, sub))
        shutil.copy(os.path.join(REPO, "CMakeLists.txt"), d)
        r = subprocess.run(["patch", "-p1", "-s", "-f", "-i", os.path.join(bdir, "patch.diff")], cwd=d, capture_output=True, text=True)
        if r.returncode != 0:
            return bid, "STALE", r.stdout[-300:]
        status = "OK"
        for prop in meta["checks"]:
            env = dict(os.environ, VERIF_REPO=d, VERIF_EVIDENCE_DIR=os.path.join(d, "evidence"), VERIF_TIER="quick")
            r = subprocess.run([os.path.join(VERIF, "check"), prop, "--tier", "quick"], capture_output=True, text=True, env=env, timeout=3600)
            o = r.stdout + r.stderr
            if r.returncode == 2 and "VIOLATION" not in o and prop in meta.get("analysis_broken_expected", {}):
                out.append("%s exit 2 (documented: %s)" % (prop, meta["analysis_broken_expected"][prop]))
                if status == "OK":
                    status = "EXIT2-DOCUMENTED"
                continue
            if r.returncode != 0 or "VIOLATION" in o:
                status = "FAIL"
                out.append("%s exit %d" % (prop, r.returncode))
                out += [l[:300] for l in o.splitlines() if l.startswith(("  [", "ANALYSIS-BROKEN"))][:6]
        return bid, status, "\n".join(out)
    finally:
        shutil.rmtree(d, ignore_errors=True)


def main():
    args = sys.argv[1:]
    j = 4
    sel = []
    i = 0
    while i < len(args):
        if args[i] == "-j":
            j = int(args[i + 1]); i += 2
        else:
            sel.append(args[i]); i += 1
    ids = sorted(x for x in os.listdir(os.path.join(VERIF, "benign")) if os.path.isdir(os.path.join(VERIF, "benign", x)))
    if sel:
        ids = [x for x in ids if any(s in x for s in sel)]
    bad = 0
    with ThreadPoolExecutor(max_workers=j) as ex:
        for bid, st, detail in ex.map(run_one, ids):
            print("%-50s %s" % (bid, st))
            if st == "EXIT2-DOCUMENTED":
                doc = doc + 1 if "doc" in dir() else 1
                for l in detail.splitlines():
                    print("    " + l)
                continue
            if st != "OK":
                bad += 1
                for l in detail.splitlines():
                    print("    " + l)
    ndoc = doc if "doc" in dir() else 0
    print("%d/%d silent, %d analysis-broken as documented (exit 2, no VIOLATION), %d failing" % (len(ids) - bad - ndoc, len(ids), ndoc, bad))
    sys.exit(1 if bad else 0)


if __name__ == "__main__":
    main()
