"""G1 on the optimized IR -- SO2 angle functions decided by an exhaustive case split over the unit circle.

The unit circle is partitioned into the 8 points where sine or cosine is a (signed) zero -- both signs of zero where IEEE distinguishes them -- and the 4 open
quadrants.  On each part the optimized IR of angle() / angle_cw() / angle_ccw() (element storage read through smooth::Map, so the function sees exactly the
two stored coefficients) is interpreted in the domain

    Sg(role, negated)        the stored sine / cosine or its negation: only its sign class is known
    Af(s, k)                 the angle  s*theta + k*pi  (s in {-1, 0, 1}, k rational), theta the principal angle of the part (a point or an open interval)

with atan2's IEEE-754 / C Annex F quadrant table as the transfer function of atan2, fneg / fabs / fadd / fsub acting on affine forms and comparisons decided on
the sign class or on the range of the affine form.  A comparison or an fabs whose outcome changes inside an open quadrant splits the quadrant at the root (the
two open pieces and the point between them are analysed separately), so the analysis is exact for any piecewise-affine combination -- however the source
spells it (locals, early returns, ternaries, branch-free selects).  No value is sampled: each part is decided for all its elements at once."""
import math
from fractions import Fraction

import groups
import ir
import irw
import poly
from report import Finding

NEG, NZ, PZ, POS = "neg", "-0", "+0", "pos"
SIGN = {NEG: -1, NZ: 0, PZ: 0, POS: 1}
FLIP = {NEG: POS, POS: NEG, NZ: PZ, PZ: NZ}


class Split(Exception):
    def __init__(self, at):
        self.at = at


class Sg:
    def __init__(self, role, neg=False):
        self.role, self.neg = role, neg

    def __neg__(self):
        return Sg(self.role, not self.neg)

    def _no(self, *a):
        raise poly.Unsupported("arithmetic on a stored coefficient other than negation (outside the sign-case domain)")
    __add__ = __radd__ = __sub__ = __rsub__ = __mul__ = __rmul__ = __truediv__ = _no


class Af:
    """s*theta + k (units of pi)"""

    def __init__(self, s, k):
        self.s, self.k = s, Fraction(k)

    def __neg__(self):
        return Af(-self.s, -self.k)

    def __add__(self, o):
        o = as_af(o)
        if abs(self.s + o.s) > 1:
            raise poly.Unsupported("angle multiplied by 2 (outside the sign-case domain)")
        return Af(self.s + o.s, self.k + o.k)

    def __sub__(self, o):
        return self + (-as_af(o))

    def __mul__(self, o):
        if isinstance(o, Raw) and o.v in (1.0, -1.0):
            return Af(self.s * int(o.v), self.k * int(o.v))
        raise poly.Unsupported("angle scaled by other than +-1 (outside the sign-case domain)")

    def _no(self, *a):
        raise poly.Unsupported("division of an angle (outside the sign-case domain)")
    __truediv__ = _no


class Raw:
    """a constant that is not a simple multiple of pi: usable only where it is never combined with an angle"""

    def __init__(self, v):
        self.v = v

    def _no(self, *a):
        raise poly.Unsupported("constant %r is not a multiple of pi" % self.v)
    __add__ = __sub__ = __truediv__ = _no

    def __neg__(self):
        return Raw(-self.v)

    def __mul__(self, o):
        if isinstance(o, Af):
            return o * self
        self._no()


def as_af(x):
    if isinstance(x, Af):
        return x
    if isinstance(x, Raw):
        x._no()
    raise poly.Unsupported("a stored coefficient is used as an angle")


class Part:
    """a point (lo == hi) or an open interval (lo, hi) of principal angles, in units of pi, with the sign classes of (sin, cos) on it"""

    def __init__(self, lo, hi, sin, cos):
        self.lo, self.hi, self.sin, self.cos = Fraction(lo), Fraction(hi), sin, cos

    @property
    def point(self):
        return self.lo == self.hi

    def rng(self, a):
        x, y = a.s * self.lo + a.k, a.s * self.hi + a.k
        return (min(x, y), max(x, y))

    def show(self):
        return ("theta = %s*pi" % self.lo if self.point else "theta in (%s, %s)*pi" % (self.lo, self.hi)) + " (sin %s, cos %s)" % (self.sin, self.cos)


def parts():
    out = [Part(0, 0, PZ, POS), Part(0, 0, NZ, POS), Part(Fraction(1, 2), Fraction(1, 2), POS, PZ), Part(Fraction(1, 2), Fraction(1, 2), POS, NZ),
           Part(1, 1, PZ, NEG), Part(-1, -1, NZ, NEG), Part(Fraction(-1, 2), Fraction(-1, 2), NEG, PZ), Part(Fraction(-1, 2), Fraction(-1, 2), NEG, NZ),
           Part(0, Fraction(1, 2), POS, POS), Part(Fraction(1, 2), 1, POS, NEG), Part(-1, Fraction(-1, 2), NEG, NEG), Part(Fraction(-1, 2), 0, NEG, POS)]
    return out


def atan2_table(ys, xs):
    """exact value of atan2 in units of pi when one argument is a signed zero (C Annex F.10.1.4)"""
    if ys in (PZ, NZ):
        v = Fraction(0) if xs in (POS, PZ) else Fraction(1)
        return v if ys == PZ else -v
    if xs in (PZ, NZ):
        return Fraction(1, 2) if ys == POS else Fraction(-1, 2)
    return None


class AngEval(poly.PathEval):
    PURE_CALLS = ("atan2", "llvm.fabs", "fabs", "atan2f")

    def __init__(self, ff, part):
        super().__init__(ff, lambda p, off, ty: ("sin" if off == 0 else "cos") if p == 0 else None, None, 16)
        self.part = part

    def dom_const(self, c):
        f = float(c)
        if f == 0:
            return Af(0, 0)
        r = f / math.pi
        for q in (Fraction(1), Fraction(2), Fraction(1, 2), Fraction(3, 2)):
            for sg in (1, -1):
                if abs(r - float(sg * q)) < 1e-15:
                    return Af(0, sg * q)
        return Raw(f)

    def dom_input(self, vn):
        return Sg(vn)

    def dom_check(self, r):
        pass

    def dom_key(self, x, y):
        return None

    def dom_indeterminate(self, why):
        raise poly.Unsupported("indeterminate value (%s)" % why)

    def cls(self, g):
        c = self.part.sin if g.role == "sin" else self.part.cos
        return FLIP[c] if g.neg else c

    def dom_call(self, name, args):
        base = name.split(".f64")[0]
        base = base[5:] if base.startswith("llvm.") else base
        if base in ("atan2", "atan2f"):
            y, x = args
            if not (isinstance(y, Sg) and isinstance(x, Sg) and y.role == "sin" and x.role == "cos"):
                raise poly.Unsupported("atan2 whose arguments are not (+-sine, +-cosine) of the element")
            ys, xs = self.cls(y), self.cls(x)
            t = atan2_table(ys, xs)
            if t is not None:
                return Af(0, t)
            # both non-zero: the part lies strictly inside a quadrant; atan2(+-sin, +-cos) as an affine form in the principal angle theta
            pos = self.part.lo >= 0 and self.part.hi >= 0 and self.part.sin == POS
            if not y.neg and not x.neg:
                return Af(1, 0)
            if y.neg and not x.neg:
                return Af(-1, 0)
            if not y.neg and x.neg:
                return Af(-1, 1) if pos else Af(-1, -1)
            return Af(1, -1) if pos else Af(1, 1)
        if base == "fabs":
            a = as_af(args[0])
            lo, hi = self.part.rng(a)
            if lo >= 0:
                return a
            if hi <= 0:
                return -a
            raise Split(-a.k / a.s)
        raise poly.Unsupported("call of %s (outside the sign-case domain)" % name)

    def dom_cmp(self, pred, a, b):
        if pred == "rd":
            return True
        if pred == "no":
            return False
        table = {"eq": lambda v: v == 0, "ne": lambda v: v != 0, "lt": lambda v: v < 0, "le": lambda v: v <= 0, "gt": lambda v: v > 0, "ge": lambda v: v >= 0}
        if isinstance(a, Sg) or isinstance(b, Sg):
            if isinstance(a, Sg) and isinstance(b, Af) and b.s == 0 and b.k == 0:
                return table[pred](SIGN[self.cls(a)])
            if isinstance(b, Sg) and isinstance(a, Af) and a.s == 0 and a.k == 0:
                return table[pred](-SIGN[self.cls(b)])
            raise poly.Unsupported("a stored coefficient is compared with something other than zero")
        d = as_af(a) - as_af(b)
        lo, hi = self.part.rng(d)
        if self.part.point or d.s == 0:
            return table[pred](lo)
        # open interval: the range is the open interval (lo, hi)
        if lo >= 0:
            return table[pred](1)
        if hi <= 0:
            return table[pred](-1)
        raise Split(-d.k / d.s)


def evaluate(ff, part, depth=0):
    """list of (part, Af result) -- the part is subdivided where a comparison / fabs changes its outcome inside it"""
    if depth > 6:
        raise poly.Unsupported("case split does not terminate")
    ev = AngEval(ff, part)
    orig = ev._run_path

    def run_path(dec):
        ev._dec_proxy = dec
        return orig(dec)
    ev._run_path = run_path
    try:
        paths = ev.run()
    except Split as sp:
        at = sp.at
        if not (part.lo < at < part.hi):
            raise poly.Unsupported("split point outside the part")
        out = []
        for p in (Part(part.lo, at, part.sin, part.cos), Part(at, at, part.sin, part.cos), Part(at, part.hi, part.sin, part.cos)):
            out += evaluate(ff, p, depth + 1)
        return out
    if len(paths) != 1:
        raise poly.Unsupported("%d paths on one part" % len(paths))
    r = paths[0]["stores"].get((1, 0))
    if r is None:
        raise poly.Unsupported("result not written")
    return [(part, as_af(r))]


TARGETS = [("angle", Fraction(-1), Fraction(1)), ("angle_cw", Fraction(-2), Fraction(0)), ("angle_ccw", Fraction(0), Fraction(2))]


def check(rep, rule="G1"):
    rep.rule(rule, "SO2 angle functions: documented range and congruence mod 2pi on every part of the unit circle (8 signed-zero points, 4 open quadrants; optimized IR, sign-case / affine-angle domain)",
             minimum=36)
    W = irw.IRW("angles", groups.PRELUDE, chunk=4)
    for nm, lo, hi in TARGETS:
        W.add("ang_" + nm, "const double* p0, double* o1", "  smooth::Map<const smooth::SO2d> g(p0);\n  o1[0] = g.%s();" % nm, name=nm, lo=lo, hi=hi)
    facts = W.build()
    rep.unit("%d angle witnesses" % len(W.wits))
    for fname, (ff, meta, mod) in sorted(facts.items()):
        nm, rlo, rhi = meta["name"], meta["lo"], meta["hi"]
        bad = []
        for part in parts():
            try:
                res = evaluate(ff, part)
            except (poly.Unsupported, ir.Unresolved) as ex:
                rep.broke("%s: SO2::%s on %s: %s" % (rule, nm, part.show(), ex))
                continue
            for p, a in res:
                lo, hi = p.rng(a)
                in_range = rlo <= lo and hi <= rhi
                # congruent to the principal angle: s = 1 and k even; at a point only the value matters
                congruent = ((a.s * p.lo + a.k - p.lo) % 2 == 0) if p.point else (a.s == 1 and a.k % 2 == 0)
                ok = in_range and congruent
                rep.instance(rule, "SO2Base::" + nm, p.show(), ok=ok, sample={"witness": fname, "value": "%d*theta + %s*pi" % (a.s, a.k), "range_over_pi": [str(lo), str(hi)]})
                if not ok:
                    bad.append((p, a, lo, hi, in_range, congruent))
        for p, a, lo, hi, in_range, congruent in bad[:4]:
            rep.violation(Finding(rule, "SO2Base::" + nm, p.show(),
                                  "for every element with %s, %s() returns %d*theta + %s*pi, i.e. %s%s%s"
                                  % (p.show(), nm, a.s, a.k, ("%s*pi" % lo) if lo == hi else "values in (%s, %s)*pi" % (lo, hi),
                                     "" if in_range else ", outside the documented range [%s*pi, %s*pi]" % (rlo, rhi),
                                     "" if congruent else ", not congruent to the element's angle modulo 2*pi"), None, None, detail={"witness": fname}))
