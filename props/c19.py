"""C19 -- sparse Lie-group derivative routines equal the dense ones (structural clauses).

O1 (A) block-offset discipline: every coeffRef(r,c) in the *_sparse writers has r = i0 + X, c = i0 + Y
       (Hessian: c = sp.rows()*(i0 + B) + (i0 + Y)) and every recursive call passes i0 + PartStart.
O2 (A+I) published patterns contain every structurally non-zero entry: the hand-written patterns of lie_sparse<SE2>,
       lie_sparse<SE3> are partially evaluated from the AST (constant loops, affine insert indices) and compared with
       the cells of the dense dr_exp / dr_expinv / d2r_exp / d2r_expinv that are ever stored something other than the
       constant 0 in the -ffast-math IR (x*0 -> 0 folding is exactly "zero for every finite a").  Commutative groups:
       the generic pattern is the diagonal and the dense Jacobians store constants.
O3 (A) lie_sparse<Bundle> pattern formulas place part blocks at (Dof0+r, Dof0+c) resp. (Dof0+r, Dof*(Dof0+c/Dp)+Dof0+c%Dp).
O4 (A) the *_sparse writers never call structure-changing members (insert, resize, prune, setZero() on the matrix, ...).
O5 (I) Impl::ad is homogeneous-linear with one term per cell (cell = 0 or +-a[k]*c), hence sum_k a_k ad(e_k) = ad(a), which
       is what ad_sparse computes from generators_sparse = ad(e_k).sparseView(); (A) generators_sparse is built that way.
"""
import re

import astlib as A
import fe
import groups
import ir
import irw
from report import Finding

STRUCT_CHANGING = {"insert", "resize", "prune", "makeCompressed", "reserve", "setFromTriplets", "conservativeResize",
                   "setIdentity", "uncompress", "swap", "insertBack", "startVec", "finalize", "data", "resizeNonZeros"}


RAW_ACCESS = {"valuePtr", "innerIndexPtr", "outerIndexPtr", "innerNonZeroPtr", "coeffs", "data", "innerVector", "col", "row", "block"}
READ_ONLY = {"isCompressed", "rows", "cols", "nonZeros", "outerSize", "innerSize", "coeff", "size"}


class PEError(Exception):
    pass


def pe_int(e, env):
    t = e[0]
    if t == "num":
        return int(e[1])
    if t == "bool":
        return int(e[1])
    if t == "ref":
        if e[1] in env:
            return env[e[1]]
        raise PEError("unknown name %s" % e[1])
    if t == "op":
        op = e[1]
        if op == "&&":
            return int(bool(pe_int(e[2], env)) and bool(pe_int(e[3], env)))
        if op == "||":
            return int(bool(pe_int(e[2], env)) or bool(pe_int(e[3], env)))
        a, b = pe_int(e[2], env), pe_int(e[3], env)
        return {"+": lambda: a + b, "-": lambda: a - b, "*": lambda: a * b, "/": lambda: a // b, "%": lambda: a % b,
                "<": lambda: int(a < b), "<=": lambda: int(a <= b), ">": lambda: int(a > b), ">=": lambda: int(a >= b),
                "==": lambda: int(a == b), "!=": lambda: int(a != b)}[op]()
    if t == "cond":
        return pe_int(e[2], env) if pe_int(e[1], env) else pe_int(e[3], env)
    if t == "un" and e[1] == "!":
        return int(not pe_int(e[2], env))
    if t == "neg":
        return -pe_int(e[1], env)
    raise PEError("cannot evaluate %s" % A.show(e)[:60])


def pe_stmt(n, env, out):
    k = n.get("kind")
    ks = [c for c in A.kids(n)]
    if k == "CompoundStmt":
        for c in ks:
            pe_stmt(c, env, out)
    elif k == "DeclStmt":
        for v in ks:
            if v.get("kind") == "VarDecl":
                init = A.kids(v)
                if v.get("name") == "ret":
                    dims = [A.to_expr(x) for x in A.kids(A.strip(init[-1]))] if init else []
                    if init and init[-1].get("kind") == "ParenListExpr":
                        dims = [A.to_expr(x) for x in A.kids(init[-1])]
                    out["dims"] = tuple(pe_int(d, env) for d in dims[:2])
                elif init:
                    env[v.get("name")] = pe_int(A.to_expr(init[-1]), env)
    elif k == "ForStmt":
        init, _cv, cond, inc, body = (ks + [None] * 5)[:5]
        pe_stmt(init, env, out)
        guard = 0
        while pe_int(A.to_expr(cond), env):
            pe_stmt(body, env, out)
            ie = A.to_expr(inc)
            if ie[0] == "un" and ie[1].startswith("++") and ie[2][0] == "ref":
                env[ie[2][1]] += 1
            else:
                raise PEError("unsupported loop increment")
            guard += 1
            if guard > 100000:
                raise PEError("loop does not terminate")
    elif k == "IfStmt":
        c = pe_int(A.to_expr(ks[0]), env)
        if c:
            pe_stmt(ks[1], env, out)
        elif len(ks) > 2:
            pe_stmt(ks[2], env, out)
    elif k in ("BinaryOperator", "CXXOperatorCallExpr"):
        e = A.to_expr(n)
        if e[0] == "op" and e[1] == "=" and e[2][0] == "mcall" and e[2][2] == "insert":
            r, c = (pe_int(a, env) for a in e[2][4])
            if (r, c) in out["cells"]:
                out["dups"].append((r, c))
            out["cells"].add((r, c))
        else:
            raise PEError("unsupported statement %s" % A.show(e)[:60])
    elif k in ("CallExpr", "CXXMemberCallExpr"):
        e = A.to_expr(n)
        if e[0] == "mcall" and e[2] in ("makeCompressed",):
            return
        raise PEError("unsupported call %s" % A.show(e)[:60])
    elif k == "ReturnStmt" or k is None:
        return
    else:
        raise PEError("unsupported statement kind %s" % k)


def eval_pattern(var_decl):
    lam = None
    for x in A.walk(var_decl):
        if x.get("kind") == "LambdaExpr":
            lam = x
            break
    if lam is None:
        raise PEError("pattern initialiser is not a lambda")
    out = {"dims": None, "cells": set(), "dups": []}
    pe_stmt(A.lambda_body(lam), {}, out)
    return out


def spec_classes(objs):
    specs = {}
    for o in objs:
        if o.get("kind") == "ClassTemplatePartialSpecializationDecl" and o.get("name") == "lie_sparse":
            head = A.text(o)[:400]
            for tag in ("SE2Base", "SE3Base", "BundleBase"):
                if re.search(r"is_base_of_v<\s*" + tag, head):
                    specs[tag] = o
    return specs


DENSE = {"SE2Base": ("smooth::SE2<double>", 3), "SE3Base": ("smooth::SE3<double>", 6)}


def dense_nonzeros(tier):
    """cells (r,c) of the dense derivative functions that are ever stored something else than the constant 0."""
    W = irw.IRW("c19", groups.PRELUDE, fastmath=True, chunk=2)
    targets = [("SE2Base", "smooth::SE2<double>", 3), ("SE3Base", "smooth::SE3<double>", 6),
               ("SO2", "smooth::SO2<double>", 1), ("C1", "smooth::C1<double>", 2)]
    for tag, ct, D in targets:
        for fn, cols in (("dr_exp", D), ("dr_expinv", D), ("d2r_exp", D * D), ("d2r_expinv", D * D)):
            W.add("d_%s_%s" % (tag, fn), "const double* a, double* out",
                  "  using GT = %s;\n  Eigen::Map<const Eigen::Matrix<double, %d, 1>> x(a); Eigen::Map<Eigen::Matrix<double, %d, %d>> o(out);\n"
                  "  o = GT::%s(x);\n" % (ct, D, D, cols, fn), tag=tag, fn=fn, rows=D, cols=cols)
    return W.build()


def check_o2(rep, objs, tier):
    rep.rule("O2", "published sparsity pattern contains every structurally non-zero entry of the dense result", minimum=12)
    specs = spec_classes(objs)
    for tag in ("SE2Base", "SE3Base", "BundleBase"):
        if tag not in specs:
            rep.broke("lie_sparse specialisation for %s not found" % tag)
    patterns = {}
    for tag in ("SE2Base", "SE3Base"):
        if tag not in specs:
            continue
        for v in A.kids(specs[tag]):
            if v.get("kind") == "VarDecl" and v.get("name") in ("d_exp_sparse_pattern", "d2_exp_sparse_pattern"):
                try:
                    p = eval_pattern(v)
                except PEError as e:
                    f, l = A.loc(v)
                    rep.broke("cannot partially evaluate %s of lie_sparse<%s> (%s:%s): %s" % (v.get("name"), tag, fe.rel(f), l, e))
                    continue
                patterns[(tag, v.get("name"))] = (p, v)
                if p["dups"]:
                    f, l = A.loc(v)
                    rep.violation(Finding("O2", "lie_sparse<%s>::%s" % (tag, v.get("name")), "duplicate-insert",
                                          "pattern inserts cell(s) %s twice (Eigen::SparseMatrix::insert requires a new entry)" % p["dups"][:3], f, l))
    facts = dense_nonzeros(tier)
    rep.unit("%d dense derivative witnesses (-ffast-math zero-structure build)" % len(facts))
    for fname, (ff, meta, mod) in sorted(facts.items()):
        tag, fn, rows, cols = meta["tag"], meta["fn"], meta["rows"], meta["cols"]
        cells, problems = irw.cell_writes(ff, 1, 8)
        if problems or irw.foreign_writes(ff, {1}):
            rep.broke("%s: %s" % (fname, (problems or ["foreign write"])[0]))
            continue
        if sorted(cells) != list(range(rows * cols)):
            rep.broke("%s: not all %d cells written" % (fname, rows * cols))
            continue
        nz = set()
        for k, ws in cells.items():
            if any(w["const"] != 0 for w in ws):
                nz.add((k % rows, k // rows))
        which = "d_exp_sparse_pattern" if fn in ("dr_exp", "dr_expinv") else "d2_exp_sparse_pattern"
        if tag in ("SO2", "C1"):
            # commutative: generic pattern = diagonal (Jacobian) / empty (Hessian)
            pat = {(i, i) for i in range(rows)} if which == "d_exp_sparse_pattern" else set()
            src = "generic commutative pattern"
            node = None
        else:
            if (tag, which) not in patterns:
                continue
            p, node = patterns[(tag, which)]
            pat = p["cells"]
            src = "lie_sparse<%s>::%s" % (tag, which)
            if p["dims"] != (rows, cols):
                f, l = A.loc(node)
                rep.violation(Finding("O2", src, "dims", "pattern has dimensions %s, dense result is %dx%d" % (p["dims"], rows, cols), f, l))
                continue
        missing = sorted(nz - pat)
        rep.instance("O2", src, fn, ok=not missing,
                     sample={"witness": fname, "pattern_cells": len(pat), "structural_nonzeros": len(nz), "unused_pattern_cells": len(pat - nz)})
        if missing:
            f, l = A.loc(node) if node else (None, None)
            rep.violation(Finding("O2", src, fn,
                                  "dense %s stores a value that is not identically zero in cell(s) %s which the published "
                                  "sparsity pattern does not contain (%d missing)" % (fn, missing[:6], len(missing)), f, l,
                                  detail={"witness": fname}))


# ----------------------------------------------------------------------------------------------

def subst_locals(e, locs, depth=0):
    if depth > 20 or not isinstance(e, tuple):
        return e
    if e[0] == "ref" and e[1] in locs:
        return subst_locals(locs[e[1]], locs, depth + 1)
    if e[0] == "lambda":
        return e
    return tuple(subst_locals(x, locs, depth) if isinstance(x, tuple) else
                 ([subst_locals(y, locs, depth) for y in x] if isinstance(x, list) else x) for x in e)


def is_i0_plus(e):
    """e == i0 + X with X free of i0"""
    return e[0] == "op" and e[1] == "+" and e[2][0] == "ref" and e[2][1] == "i0" and "i0" not in A.refs(e[3])


def writer_functions(idx):
    out = []
    for d in idx:
        if d.kind in A.FUNCS and d.pattern and d.file and d.file.endswith("lie_group_sparse_impl.hpp") and A.body(d.node) is not None:
            nm = d.qname.split("::")[-1]
            if nm.endswith("_sparse"):
                out.append(d)
    return out


def check_o1_o4(rep, idx):
    rep.rule("O1", "every coeffRef / recursive call in the *_sparse writers is offset by i0", minimum=14)
    rep.rule("O4", "*_sparse writers call no structure-changing member on the host matrix", minimum=8)
    rep.rule("O6", "writers neither sweep whole host columns nor skip pattern entries on a value-dependent branch", minimum=0)
    ws = writer_functions(idx)
    if len(ws) < 9:
        rep.broke("only %d *_sparse writer functions found in lie_group_sparse_impl.hpp (9 confirmed by hand)" % len(ws))
    for d in ws:
        b = A.body(d.node)
        locs = {}
        for x in A.walk(b):
            if x.get("kind") == "VarDecl" and A.kids(x) and x.get("name") not in ("sp",):
                ty = x.get("type", {}).get("qualType", "")
                if x.get("name") in ("block", "row", "col", "Dof0"):
                    locs[x.get("name")] = A.to_expr(A.kids(x)[-1])
        has_i0 = any(p.get("name") == "i0" for p in A.params(d.node))
        n_bad_struct = 0
        parents = {}
        for p_ in A.walk(b):
            for c_ in A.kids(p_):
                parents[id(c_)] = p_
        # whole-matrix assignment replaces the structure
        for x in A.walk(b):
            if x.get("kind") in ("BinaryOperator", "CXXOperatorCallExpr"):
                e = A.to_expr(x)
                if e[0] == "op" and e[1] == "=" and e[2][0] == "ref" and e[2][1] == "sp":
                    f, l = A.loc(x)
                    n_bad_struct += 1
                    rep.violation(Finding("O4", d.qname, "assign", "sparse writer assigns the whole host matrix (`%s`): its sparsity structure is replaced by that "
                                          "of the right-hand side (entries that happen to be zero for this tangent vector disappear, other stored entries are lost)"
                                          % A.show(e)[:70], f, l))
        for x in A.walk(b):
            if x.get("kind") not in ("CallExpr", "CXXMemberCallExpr"):
                continue
            e = A.to_expr(x)
            f, l = A.loc(x)
            if e[0] == "mcall" and e[1][0] == "ref" and e[1][1] == "sp":
                m = e[2]
                if m == "coeffRef":
                    r, c = (subst_locals(a, locs) for a in e[4])
                    ok = is_i0_plus(r)
                    okc = is_i0_plus(c)
                    if not okc:
                        # Hessian form: sp.rows() * (i0 + B) + (i0 + Y)
                        okc = (c[0] == "op" and c[1] == "+" and is_i0_plus(c[3]) and c[2][0] == "op" and c[2][1] == "*"
                               and ((A.show(c[2][2]) == "sp.rows()" and is_i0_plus(c[2][3])) or (A.show(c[2][3]) == "sp.rows()" and is_i0_plus(c[2][2]))))
                    rep.instance("O1", d.qname, "coeffRef@%s" % A.show(e[4][0])[:30], ok=ok and okc,
                                 sample={"file": fe.rel(f), "line": l, "row": A.show(r), "col": A.show(c)})
                    if not (ok and okc):
                        rep.violation(Finding("O1", d.qname, "coeffRef",
                                              "sparse writer addresses coeffRef(%s, %s): %s is not offset by the block offset i0 "
                                              "(entries outside the designated block would be touched for i0 != 0)"
                                              % (A.show(r), A.show(c), "row" if not ok else "column"), f, l))
                elif m in STRUCT_CHANGING or (m == "setZero"):
                    n_bad_struct += 1
                    rep.violation(Finding("O4", d.qname, m, "sparse writer calls sp.%s(), which changes the sparsity structure / compression of the host matrix" % m, f, l))
                elif m in RAW_ACCESS:
                    # raw storage access: only `sp.coeffs().setZero()` of ad_sparse (zeroing the values, structure kept) is sanctioned
                    par = parents.get(id(x))
                    sanctioned = (m == "coeffs" and par is not None and (par.get("member") or par.get("name")) == "setZero"
                                  and d.qname.split("::")[-1] == "ad_sparse")
                    if not sanctioned:
                        n_bad_struct += 1
                        rep.violation(Finding("O1", d.qname, "raw:" + m,
                                              "sparse writer reaches the host's storage through sp.%s() instead of coeffRef(row, col): entries are no longer "
                                              "addressed by (block offset + row, block offset + column), so values can land in other stored entries of the "
                                              "host's columns" % m, f, l))
                elif m not in READ_ONLY:
                    rep.broke("O4: unclassified member sp.%s() used in %s (%s:%s)" % (m, d.qname, fe.rel(f), l))
            elif e[0] == "call" and isinstance(e[1], str) and re.search(r"(^|::)(d2?r_exp(inv)?_sparse)\b", e[1] or ""):
                args = e[2]
                if len(args) >= 3:
                    a = subst_locals(args[2], locs)
                    ok = is_i0_plus(a) or (a[0] == "ref" and a[1] == "i0")
                    rep.instance("O1", d.qname, "call:%s" % e[1][-30:], ok=ok, sample={"file": fe.rel(f), "line": l, "offset_arg": A.show(a)})
                    if not ok:
                        rep.violation(Finding("O1", d.qname, "call", "recursive sparse call passes offset `%s`, expected i0 or i0 + <part start>" % A.show(a), f, l))
                elif has_i0 and d.qname.split("::")[-1] not in ("dr_expinv_sparse", "d2r_expinv_sparse"):
                    rep.violation(Finding("O1", d.qname, "call", "recursive sparse call drops the block offset argument", f, l))
        # O6a: iterating the *host* matrix column by column reaches every stored row of that column, not only the rows of the block
        for x in A.walk(b):
            if x.get("kind") == "VarDecl" and "InnerIterator" in x.get("type", {}).get("qualType", "") and A.kids(x):
                init = A.to_expr(A.kids(x)[-1])
                args = init[2] if init[0] in ("ctor", "call") else (init[1] if init[0] == "init" else [])
                if args and args[0][0] == "ref" and args[0][1] == "sp":
                    itn = x.get("name")
                    loop = parents.get(id(parents.get(id(x)))) if parents.get(id(x)) is not None else None
                    scope = loop if loop is not None else b
                    txt = A.ntext(scope)
                    writes = (itn + ".valueRef()") in txt
                    guarded = (itn + ".row()") in txt and "i0" in txt[txt.find(itn + ".row()"):txt.find(itn + ".row()") + 80]
                    f, l = A.loc(x)
                    rep.instance("O6", d.qname, "host iteration @%s" % l, ok=not writes or guarded, sample={"file": fe.rel(f), "line": l})
                    if writes and not guarded:
                        rep.violation(Finding("O6", d.qname, "host iteration",
                                              "the writer iterates the stored entries of the host's column (`InnerIterator %s(sp, ...)`) and writes through "
                                              "%s.valueRef() without restricting %s.row() to [i0, i0 + Dof): stored entries of other variables in the same "
                                              "columns are overwritten" % (itn, itn, itn), f, l))
        # O6b: a run-time branch on the tangent must still write the whole pattern
        for x in A.walk_nolambda(b):
            if x.get("kind") == "IfStmt" and not x.get("isConstexpr"):
                ks_ = A.kids(x)
                if not ks_:
                    continue
                cnd = A.to_expr(ks_[0])
                if "a" not in A.refs(cnd):
                    continue
                f, l = A.loc(x)
                then_txt = A.ntext(ks_[1]) if len(ks_) > 1 else ""
                covers = "_sparse_pattern<" in then_txt or "_sparse(" in then_txt
                rep.instance("O6", d.qname, "value-dependent branch @%s" % l, ok=covers, sample={"file": fe.rel(f), "line": l, "condition": A.show(cnd)[:60]})
                if not covers:
                    rep.violation(Finding("O6", d.qname, "value-dependent branch",
                                          "for tangents with `%s` the writer takes a run-time branch that does not go over the published pattern: pattern entries it "
                                          "does not write keep whatever the host held before (the block no longer equals the dense result)" % A.show(cnd)[:60], f, l))
        rep.instance("O4", d.qname, "structure", ok=n_bad_struct == 0, sample={"file": fe.rel(d.file), "line": d.line})


def check_o3(rep, objs):
    rep.rule("O3", "lie_sparse<Bundle> pattern formulas follow the documented block placement", minimum=2)
    specs = spec_classes(objs)
    o = specs.get("BundleBase")
    if o is None:
        return
    for v in A.kids(o):
        if v.get("kind") != "VarDecl" or v.get("name") not in ("d_exp_sparse_pattern", "d2_exp_sparse_pattern"):
            continue
        locs = {}
        inserts = []
        for x in A.walk(v):
            if x.get("kind") == "VarDecl" and A.kids(x) and x.get("name") in ("block", "row", "col"):
                locs[x.get("name")] = A.to_expr(A.kids(x)[-1])
            if x.get("kind") in ("CallExpr", "CXXMemberCallExpr"):
                e = A.to_expr(x)
                if e[0] == "mcall" and e[2] == "insert":
                    inserts.append((e, x))
        f, l = A.loc(v)
        if len(inserts) != 1:
            rep.broke("lie_sparse<Bundle>::%s: %d insert sites (1 confirmed by hand)" % (v.get("name"), len(inserts)))
            continue
        e, x = inserts[0]
        r, c = (re.sub(r"\s", "", A.show(subst_locals(a, locs))) for a in e[4])
        if v.get("name") == "d_exp_sparse_pattern":
            ok = r == "(Dof0+it.row())" and c == "(Dof0+it.col())"
            want = "(Dof0 + it.row(), Dof0 + it.col())"
        else:
            ok = (r == "(Dof0+it.row())" and
                  re.match(r"^\(\(Dof(<G>)?\*\(Dof0\+\(it\.col\(\)/G::templatePartDof<I>\)\)\)\+\(Dof0\+\(it\.col\(\)%G::templatePartDof<I>\)\)\)$", c) is not None)
            want = "(Dof0 + it.row(), Dof<G>*(Dof0 + it.col()/PartDof<I>) + Dof0 + it.col()%PartDof<I>)"
        rep.instance("O3", "lie_sparse<Bundle>::" + v.get("name"), "insert", ok=ok, sample={"file": fe.rel(f), "line": l, "row": r, "col": c})
        if not ok:
            fx, lx = A.loc(x)
            rep.violation(Finding("O3", "lie_sparse<Bundle>::" + v.get("name"), "insert",
                                  "Bundle pattern inserts at (%s, %s); documented block placement is %s" % (r, c, want), fx, lx))


def check_o5(rep, tier):
    rep.rule("O5", "Impl::ad cells are 0 or a single linear term in one tangent coordinate", minimum=5)
    gs = [g for g in groups.catalogue(tier) if not g.comm]
    W = irw.IRW("c19ad", groups.PRELUDE, fastmath=True, chunk=4)
    for g in gs:
        W.add("ad_%s" % g.key, "const %s* a, %s* out" % (g.scalar, g.scalar),
              "  using GT = %s;\n  Eigen::Map<const Eigen::Matrix<%s, %d, 1>> x(a); Eigen::Map<Eigen::Matrix<%s, %d, %d>> o(out);\n  o = GT::ad(x);\n"
              % (g.ctype, g.scalar, g.dof, g.scalar, g.dof, g.dof), g=g)
    facts = W.build()
    for fname, (ff, meta, mod) in sorted(facts.items()):
        g = meta["g"]
        cells, problems = irw.cell_writes(ff, 1, g.ssize)
        if problems or irw.foreign_writes(ff, {1}):
            rep.broke("%s: %s" % (fname, (problems or ["foreign write"])[0]))
            continue
        bad = None
        nlin = 0
        for k, ws in sorted(cells.items()):
            for w in ws:
                if w["const"] is not None:
                    if w["const"] != 0:
                        bad = (k, "stored the non-zero constant %s (ad(0) must be 0)" % w["const"])
                    continue
                m = re.match(r"^store \S+ (\S+), ptr", w["text"])
                v = m.group(1)
                if not _single_linear(ff, v):
                    bad = (k, "value `%s` is not a single term c*a[j]" % (ff.f.defs[v].text[:60] if v in ff.f.defs else v))
                else:
                    nlin += 1
            if bad:
                break
        rep.instance("O5", g.ctype, "ad", ok=bad is None, sample={"witness": fname, "linear_cells": nlin, "cells": len(cells)})
        if bad:
            rep.violation(Finding("O5", g.ctype, "ad", "ad(a) cell %d: %s -- ad_sparse = sum_k a_k*ad(e_k) would differ from the dense ad"
                                  % bad, None, None, detail={"witness": fname}))


def _single_linear(ff, v, depth=0):
    ins = ff.f.defs.get(v)
    if ins is None or depth > 4:
        return False
    if ins.op == "load":
        m = re.match(r"^load (?:volatile )?(.*?), ptr (\S+?)(?:,|$| )", ins.text)
        p = ff.prov(m.group(2))
        return p.root == ("param", 0) and p.off is not None
    if ins.op == "fneg":
        names = re.findall(ir.NAME, ins.text)
        return len(names) == 1 and _single_linear(ff, names[0], depth + 1)
    if ins.op in ("fmul",):
        body = re.sub(r"^fmul (?:\w+ )*(?:double|float) ", "", ins.text)
        a, b = [x.strip() for x in body.split(",")[:2]]
        if ir.parse_const(a) is not None and b.startswith("%"):
            return _single_linear(ff, b, depth + 1)
        if ir.parse_const(b) is not None and a.startswith("%"):
            return _single_linear(ff, a, depth + 1)
    return False


def check_generators(rep, idx_all):
    rep.rule("O5g", "generators_sparse[i] = ad<G>(Unit(i)).sparseView(); ad_sparse sums a(k)*generators[k]", minimum=2)
    for d in idx_all:
        if d.kind in ("VarDecl", "VarTemplateDecl") and d.qname.split("::")[-1] == "generators_sparse" and d.pattern:
            t = re.sub(r"\s", "", A.text(d.node))
            ok = "ret[i]=ad<G>(Tangent<G>::Unit(i)).sparseView();" in t
            rep.instance("O5g", "generators_sparse", "init", ok=ok, sample={"file": fe.rel(d.file), "line": d.line})
            if not ok:
                rep.violation(Finding("O5g", "generators_sparse", "init", "generators are not built as ad<G>(Unit(i)).sparseView()", d.file, d.line))
        if d.kind in A.FUNCS and d.qname.split("::")[-1] == "ad_sparse" and d.pattern and A.body(d.node) is not None:
            b = A.body(d.node)
            zeroed = False
            summed = False
            for x in A.walk(b):
                if x.get("kind") in ("CallExpr", "CXXMemberCallExpr"):
                    e = A.to_expr(x)
                    if e[0] == "mcall" and e[2] == "setZero" and e[1][0] == "mcall" and e[1][2] == "coeffs" and e[1][1][0] == "ref" and e[1][1][1] == "sp":
                        zeroed = True
                if x.get("kind") == "ForStmt":
                    ks = A.kids(x)
                    cond = A.to_expr(ks[2])
                    var = next((v.get("name") for v in A.kids(ks[0]) if v.get("kind") == "VarDecl"), None) if ks[0].get("kind") == "DeclStmt" else None
                    full = cond[0] == "op" and cond[1] == "<" and cond[2][0] == "ref" and cond[2][1] == var and re.sub(r"\s", "", A.show(cond[3])) in ("Dof", "Dof<G>")
                    for y in A.walk(ks[4]):
                        if y.get("kind") in ("CompoundAssignOperator", "CXXOperatorCallExpr", "BinaryOperator"):
                            e = A.to_expr(y)
                            if e[0] == "op" and e[1] == "+=" and e[2][0] == "ref" and e[2][1] == "sp" and e[3][0] == "op" and e[3][1] == "*":
                                fs = [e[3][2], e[3][3]]
                                coef = [f_ for f_ in fs if f_[0] in ("call", "sub") and (f_[1] == "a" or (isinstance(f_[1], tuple) and f_[1][0] == "ref" and f_[1][1] == "a"))]
                                gen = [f_ for f_ in fs if f_[0] == "sub" and "generators_sparse" in A.show(f_[1])]
                                idx_ok = all(A.show(f_[2][0]) == var for f_ in coef + gen) if (coef and gen) else False
                                if coef and gen and idx_ok and full:
                                    summed = True
            ok = zeroed and summed
            rep.instance("O5g", "ad_sparse", "sum", ok=ok, sample={"file": fe.rel(d.file), "line": d.line, "zeroes_values": zeroed, "sums_generators": summed})
            if not ok:
                rep.violation(Finding("O5g", "ad_sparse", "sum", "ad_sparse does not zero the stored values and then add a(k)*generators_sparse<G>[k] for every k < Dof "
                                      "(zeroed=%s, generator sum=%s)" % (zeroed, summed), d.file, d.line))


def check(rep, tier, replay=None):
    rep.explanations.append(
        "C19: offset discipline and structure preservation of the sparse writers (AST), published patterns partially evaluated "
        "from the AST and compared with the zero structure LLVM's simplifier derives for the dense functions (IR), ad linearity (IR).")
    rep.trusted.update(["clang++-16 front end; -O2 -ffast-math pipeline as zero-structure abstract interpreter", "lib/ir.py"])
    rep.assumptions.append("values inside the block are copied from the dense result by construction in the fallback path; equality of values is not claimed")
    objs = fe.ast_dump("lie_sparse")
    rest = fe.ast_dump("_sparse")
    rep.unit("umbrella TU filtered lie_sparse / _sparse")
    idx = A.index(rest)
    check_o1_o4(rep, idx)
    check_o3(rep, objs)
    check_generators(rep, idx)
    check_o2(rep, objs, tier)
    check_o5(rep, tier)
