"""Layer rules shared by C04 (first order) and C05 (second order).

LR  every left-derivative entry point is its right counterpart reflected: dl_exp(a) = dr_exp(-a), dl_expinv(a) = dr_expinv(-a),
    d2l_exp(a) = -d2r_exp(-a), d2l_expinv(a) = -d2r_expinv(-a)  (from dl_exp(a) = Ad(exp a) dr_exp(a) = dr_exp(-a); the Hessian
    picks up the inner derivative -1).  The return expression is normalised to  s * F(s' * a)  and (s, F, s') compared.
FW  every forwarding layer (free function -> traits::lie<G> -> G:: -> Impl::) reaches the function of the *same* name with the
    argument unchanged, and the commutative short-cut is Identity for Jacobians and Zero for Hessians.
"""
import astlib as A
import fe
from report import Finding

FIRST = {"dl_exp": ("dr_exp", 1), "dl_expinv": ("dr_expinv", 1)}
SECOND = {"d2l_exp": ("d2r_exp", -1), "d2l_expinv": ("d2r_expinv", -1)}
RIGHT1 = ("dr_exp", "dr_expinv")
RIGHT2 = ("d2r_exp", "d2r_expinv")


class Unnormal(Exception):
    pass


def _soft(rep, msg):
    """LR / FW / RM read the source shape of the forwarding layers.  Where a layer is spelled in a way they do not recognise they stand down with a note: the same
    identities are decided at API level, independently of the spelling, by rule T.L (run_ir below: library function against library function as power series
    along rays on the optimized IR), which carries the instance minimum."""
    rep.note("LR/FW/RM (source-level layer rules) not applied: %s -- covered by T.L on the optimized IR" % msg)


def _pending(rep, finding):
    """a report of a supplementary source-level rule: it becomes a violation only if the IR-level rule T.L, which decides the same identities independently of the spelling,
    fails as well (flush); otherwise it is a note -- the source-level normal forms do not follow re-assignments, helper functions, ..."""
    if not hasattr(rep, "_layer_pending"):
        rep._layer_pending = []
    rep._layer_pending.append(finding)


def flush(rep):
    pend = getattr(rep, "_layer_pending", [])
    rep._layer_pending = []
    tl = [f for f in rep.violations if str(getattr(f, "rule", "")).startswith("T.")]
    for f in pend:
        if tl:
            rep.violation(f)
        else:
            rep.note("%s (source-level layer rule) reports `%s` but T.L finds the layer identities intact on the optimized IR: not a finding (the source normal form does not "
                     "follow this spelling)" % (getattr(f, "rule", "?"), getattr(f, "message", "")[:160]))


def run_ir(rep, tier, order):
    """T.L: smooth::dX<G>(a) (free function through traits::lie<G>) == G::dX(a); dl_X(a) == +-dr_X(-a) at both layers; dr_rminus == dr_expinv and
    dr_rminus_squarednorm(e) == e^T dr_expinv(e) -- identical power series along rational rays (engine R), for every group of the catalogue"""
    import raychk
    if order == 1:
        raychk.run(rep, tier, "C04", ["fw_drexp", "fw_drinv", "lr_drexp", "lr_drinv", "rm_dr", "rm_sq"], 1e-7, rule="T.L", minimum=60,
                   what="layer identities (free function == class function; dl_X(a) == dr_X(-a); dr_rminus == dr_expinv; dr_rminus_squarednorm == e^T dr_expinv) as power series")
    else:
        raychk.run(rep, tier, "C05", ["fw_d2rexp", "fw_d2rinv", "lr_d2rexp", "lr_d2rinv"], 1e-5, rule="T.L", minimum=36,
                   what="layer identities (free function == class function; d2l_X(a) == -d2r_X(-a)) as power series")


def last(name):
    n = str(name).split("::")[-1]
    return n.split("<")[0]


def inline_locals(fn):
    """name -> initialiser expr for single-assignment locals"""
    env = {}
    for x in A.walk_nolambda(A.body(fn)):
        if x.get("kind") == "VarDecl" and A.kids(x):
            env[x.get("name")] = A.to_expr(A.kids(x)[-1])
    return env


def arg_form(e, param, env):
    """coefficient c with e == c * param"""
    t = e[0]
    if t == "ref":
        if e[1] == param:
            return 1
        if e[1] in env:
            return arg_form(env[e[1]], param, env)
        raise Unnormal("argument refers to %s" % e[1])
    if t == "neg":
        return -arg_form(e[1], param, env)
    if t == "call" and last(e[1]) in ("forward", "move", "eval") and len(e[2]) == 1:
        return arg_form(e[2][0], param, env)
    if t == "mcall" and e[2] in ("eval", "derived") and not e[4]:
        return arg_form(e[1], param, env)
    if t == "op" and e[1] == "*":
        for x, y in ((e[2], e[3]), (e[3], e[2])):
            if x[0] == "num":
                return int(x[1]) * arg_form(y, param, env) if x[1].denominator == 1 else _bad("scale %s" % x[1])
            if x[0] == "neg" and x[1][0] == "num" and x[1][1].denominator == 1:
                return -int(x[1][1]) * arg_form(y, param, env)
    raise Unnormal("argument %s" % A.show(e)[:60])


def _bad(msg):
    raise Unnormal(msg)


def result_form(e, param, env):
    """(s, F, s') with e == s * F(s' * param)"""
    t = e[0]
    if t == "neg":
        s, f, sa = result_form(e[1], param, env)
        return (-s, f, sa)
    if t == "call" and len(e[2]) == 1 and last(e[1]) not in ("forward", "move"):
        return (1, last(e[1]), arg_form(e[2][0], param, env))
    if t == "ref" and e[1] in env:
        return result_form(env[e[1]], param, env)
    if t == "mcall" and e[2] == "eval" and not e[4]:
        return result_form(e[1], param, env)
    if t == "op" and e[1] == "*":
        for x, y in ((e[2], e[3]), (e[3], e[2])):
            if x[0] == "neg" and x[1][0] == "num" and x[1][1] == 1:
                s, f, sa = result_form(y, param, env)
                return (-s, f, sa)
    raise Unnormal("result %s" % A.show(e)[:80])


def returns(fn):
    return [A.to_expr(A.kids(x)[0]) for x in A.walk_nolambda(A.body(fn)) if x.get("kind") == "ReturnStmt" and A.kids(x)]


def run(rep, order):
    try:
        _run(rep, order)
    except Exception as ex:       # supplementary rules (see _soft)
        _soft(rep, "%s: %s" % (type(ex).__name__, str(ex)[:200]))


def _run(rep, order):
    """order 1: Jacobian layer (C04); order 2: Hessian layer (C05)"""
    left = FIRST if order == 1 else SECOND
    right = RIGHT1 if order == 1 else RIGHT2
    d = fe.ast_dumps(["l_exp", "r_exp"])
    rep.unit("umbrella TU filtered *l_exp / *r_exp")
    rep.rule("LR", "left derivative entry points are the reflected right ones: %s" % ", ".join(
        "%s(a) = %s%s(-a)" % (k, "-" if v[1] < 0 else "", v[0]) for k, v in left.items()), minimum=0)
    rep.rule("FW", "forwarding layers reach the same-named function with the argument unchanged; commutative short-cut is %s" %
             ("Identity" if order == 1 else "Zero"), minimum=0)
    lidx = [x for x in A.index(d["l_exp"]) if x.kind in A.FUNCS and x.pattern and A.body(x.node) is not None and "include/smooth" in x.file]
    ridx = [x for x in A.index(d["r_exp"]) if x.kind in A.FUNCS and x.pattern and A.body(x.node) is not None and "include/smooth" in x.file]
    for x in lidx:
        nm = x.qname.split("::")[-1]
        if nm not in left:
            continue
        where = "%s %s" % (fe.rel(x.file).split("/")[-1], nm)
        ps = [p.get("name") for p in A.params(x.node)]
        rets = returns(x.node)
        if len(ps) != 1 or len(rets) != 1:
            _soft(rep, "LR: %s has %d parameters / %d returns" % (where, len(ps), len(rets)))
            continue
        try:
            got = result_form(rets[0], ps[0], inline_locals(x.node))
        except Unnormal as ex:
            _soft(rep, "LR: %s is not of the form s*F(s'*a): %s" % (where, ex))
            continue
        want = (left[nm][1], left[nm][0], -1)
        ok = got == want
        rep.instance("LR", where, "reflection", ok=ok, sample={"file": fe.rel(x.file), "line": x.line, "normal_form": "%+d * %s(%+d * a)" % got})
        if not ok:
            _pending(rep, Finding("LR", where, "reflection", "%s(a) evaluates %+d * %s(%+d * a); the left %s of exp at a is %+d * %s(-a)"
                                  % (nm, got[0], got[1], got[2], "Jacobian" if order == 1 else "Hessian", want[0], want[1]), x.file, x.line))
    for x in ridx:
        nm = x.qname.split("::")[-1]
        base = fe.rel(x.file)
        if nm not in right or not (base.endswith("concepts/lie_group.hpp") or base.endswith("lie_groups/native.hpp") or base.endswith("smooth/lie_group_base.hpp")):
            continue
        where = "%s %s" % (base.split("/")[-1], nm)
        ps = [p.get("name") for p in A.params(x.node)]
        if len(ps) != 1:
            _soft(rep, "FW: %s has %d parameters" % (where, len(ps)))
            continue
        if base.endswith("lie_group_base.hpp"):
            # dispatch: commutative short-cut + Impl call writing the returned local
            ifs = [s for s in A.kids(A.body(x.node)) if s.get("kind") == "IfStmt"]
            if len(ifs) != 1 or len(A.kids(ifs[0])) != 3 or "IsCommutative" not in A.ntext(A.kids(ifs[0])[0]):
                _soft(rep, "FW: %s is no longer `if constexpr (IsCommutative) ... else Impl::...`" % where)
                continue
            negated = A.ntext(A.kids(ifs[0])[0]).startswith("!")
            comm, gen = A.kids(ifs[0])[1], A.kids(ifs[0])[2]
            if negated:
                comm, gen = gen, comm
            crets = [A.to_expr(A.kids(r)[0]) for r in A.walk_nolambda(comm) if r.get("kind") == "ReturnStmt"]
            wantc = "Identity" if order == 1 else "Zero"
            okc = len(crets) == 1 and crets[0][0] == "call" and last(crets[0][1]) == wantc
            rep.instance("FW", where, "commutative short-cut", ok=okc, sample={"file": base, "line": x.line})
            if not okc:
                _pending(rep, Finding("FW", where, "commutative short-cut", "for a commutative group %s returns %s instead of %s()"
                                      % (nm, A.show(crets[0])[:60] if crets else "nothing", wantc), x.file, x.line))
            calls = [A.to_expr(c) for c in A.walk_nolambda(gen) if c.get("kind") == "CallExpr"]
            calls = [c for c in calls if c[0] == "call" and str(c[1]).startswith("Impl::")]
            grets = [A.to_expr(A.kids(r)[0]) for r in A.walk_nolambda(gen) if r.get("kind") == "ReturnStmt"]
            okg = False
            why = "no single Impl:: call"
            if len(calls) == 1 and len(grets) == 1 and len(calls[0][2]) == 2:
                c = calls[0]
                try:
                    ac = arg_form(c[2][0], ps[0], {})
                except Unnormal as ex:
                    ac = None
                    why = str(ex)
                outref = c[2][1]
                okg = last(c[1]) == nm and ac == 1 and outref[0] == "ref" and grets[0][0] == "ref" and grets[0][1] == outref[1]
                why = "calls %s(%s * a, %s) and returns %s" % (c[1], ac, A.show(outref), A.show(grets[0]))
            rep.instance("FW", where, "Impl dispatch", ok=okg, sample={"file": base, "line": x.line})
            if not okg:
                _pending(rep, Finding("FW", where, "Impl dispatch", "%s %s; expected Impl::%s(a, ret); return ret" % (nm, why, nm), x.file, x.line))
            continue
        rets = returns(x.node)
        if len(rets) != 1:
            _soft(rep, "FW: %s has %d returns" % (where, len(rets)))
            continue
        try:
            got = result_form(rets[0], ps[0], inline_locals(x.node))
        except Unnormal as ex:
            _soft(rep, "FW: %s is not a forwarding call: %s" % (where, ex))
            continue
        ok = got == (1, nm, 1)
        rep.instance("FW", where, "forward", ok=ok, sample={"file": base, "line": x.line, "normal_form": "%+d * %s(%+d * a)" % got})
        if not ok:
            _pending(rep, Finding("FW", where, "forward", "%s(a) forwards to %+d * %s(%+d * a) instead of %s(a)" % (nm, got[0], got[1], got[2], nm), x.file, x.line))


def run_rminus(rep):
    try:
        _run_rminus(rep)
    except Exception as ex:       # supplementary rule (see _soft)
        _soft(rep, "%s: %s" % (type(ex).__name__, str(ex)[:200]))


def _run_rminus(rep):
    """RM  dr_rminus(e) = dr_expinv(e) and dr_rminus_squarednorm(e) = e^T dr_expinv(e): with e = g (-) h,
    (g exp(d)) (-) h = log(h^-1 g exp(d)) = e + dr_expinv(e) d + o(d), and d/dd (1/2)|e + J d|^2 = e^T J."""
    rep.rule("RM", "dr_rminus(e) = dr_expinv(e); dr_rminus_squarednorm(e) = e^T dr_expinv(e)", minimum=0)
    idx = [x for x in A.index(fe.ast_dump("r_rminus")) if x.kind in A.FUNCS and x.pattern and A.body(x.node) is not None and "include/smooth" in x.file]
    for x in idx:
        nm = x.qname.split("::")[-1]
        if nm not in ("dr_rminus", "dr_rminus_squarednorm"):
            continue
        ps = [p.get("name") for p in A.params(x.node)]
        rets = returns(x.node)
        if len(ps) != 1 or len(rets) != 1:
            _soft(rep, "RM: %s has %d parameters / %d returns" % (nm, len(ps), len(rets)))
            continue
        env = inline_locals(x.node)
        e = rets[0]
        try:
            if nm == "dr_rminus":
                got = result_form(e, ps[0], env)
                shown = "%+d * %s(%+d * e)" % got
                ok = got == (1, "dr_expinv", 1)
            else:
                while e[0] == "ref" and e[1] in env:
                    e = env[e[1]]
                if not (e[0] == "op" and e[1] == "*"):
                    raise Unnormal("not a product: %s" % A.show(e)[:60])
                lhs, rhs = e[2], e[3]
                while lhs[0] == "ref" and lhs[1] in env:
                    lhs = env[lhs[1]]
                if not (lhs[0] == "mcall" and lhs[2] in ("transpose", "adjoint") and not lhs[4]):
                    raise Unnormal("left factor %s is not a transposed vector" % A.show(lhs)[:40])
                lc = arg_form(lhs[1], ps[0], env)
                got = result_form(rhs, ps[0], env)
                if got[1] == "dr_rminus":
                    got = (got[0], "dr_expinv", got[2])      # dr_rminus is checked to be dr_expinv above
                shown = "(%+d * e)^T * %+d * %s(%+d * e)" % ((lc,) + got)
                ok = got[1] == "dr_expinv" and got[2] == 1 and lc * got[0] == 1
        except Unnormal as ex:
            _soft(rep, "RM: %s is not in the expected product form: %s" % (nm, ex))
            continue
        rep.instance("RM", nm, "definition", ok=ok, sample={"file": fe.rel(x.file), "line": x.line, "normal_form": shown})
        if not ok:
            _pending(rep, Finding("RM", nm, "definition", "%s(e) evaluates %s; the Jacobian of %s is %s" % (
                nm, shown, "rminus in its first argument" if nm == "dr_rminus" else "half the squared norm of rminus",
                "dr_expinv(e)" if nm == "dr_rminus" else "e^T dr_expinv(e)"), x.file, x.line))
