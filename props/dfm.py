"""DF on engine M -- the generic second-order helpers d_matrix_product and d2_fog, abstractly executed on symbolic matrices.

Every argument is a grid of distinct symbols with a *type shape* (compile-time rows / columns, -1 for Eigen::Dynamic) and a run-time shape; the function body from the AST is
executed on them (block / middleCols views with template and run-time extents, products, transposes, in-place sums, inner iterators over a dense or a sparse outer Jacobian), and
the result is compared cell by cell, as polynomials in the symbols, with the index-level definition

    d_matrix_product   block i (columns nvar i ..) = B' dA_i + sum_j A(i, j) dB_j
    d2_fog             block i (columns nx i ..)   = Jg' Hf_i Jg + sum_k Jf(i, k) Hg_k

for fixed-size, fully dynamic and mixed instantiations.  What a C++ compiler or Eigen would reject is a violation too: a fixed-size block<R, C>(i, j) whose extent is
Eigen::Dynamic (does not compile), a view that leaves its matrix (assertion / out-of-bounds read)."""
import re
from fractions import Fraction

import astlib as A
import fe
import mach
from bundlem import _split
from mach import AbstractViolation, Cell, Machine, PyFunc, Unab, show_val, simp
from report import Finding

sym = mach.sym


def rf(x):
    return mach.to_rf(x)


class Mat:
    """a matrix object: cells[(r, c)], run-time shape, compile-time shape of its C++ type (-1 = Eigen::Dynamic)"""

    def __init__(self, name, rows, cols, srows=None, scols=None, fill=None, sparse=None):
        self.name, self.rows, self.cols = name, int(rows), int(cols)
        self.srows = self.rows if srows is None else srows
        self.scols = self.cols if scols is None else scols
        self.sparse = sparse            # set of structurally non-zero cells for a sparse matrix, None for dense
        self.c = {(r, c): (fill(r, c) if fill else mach.UNSET) for r in range(self.rows) for c in range(self.cols)}

    def show(self):
        return "%s(%dx%d)" % (self.name, self.rows, self.cols)

    def __deepcopy__(self, memo):
        m = Mat(self.name, self.rows, self.cols, self.srows, self.scols, sparse=self.sparse)
        m.c = dict(self.c)
        return m

    def whole(self):
        return MView(self, 0, 0, self.rows, self.cols)

    def assign_from(self, M, v):
        """assignment to the matrix object itself: a dynamic-size Eigen matrix takes the size of the expression (a fixed extent must agree)"""
        x = as_val(M.rv(v))
        if x is not None and (x.rows, x.cols) != (self.rows, self.cols) and -1 in (self.srows, self.scols):
            if (self.srows not in (-1, x.rows)) or (self.scols not in (-1, x.cols)):
                raise AbstractViolation("a %d x %d expression is assigned to a matrix of compile-time size %s x %s" % (x.rows, x.cols, self.srows, self.scols))
            self.rows, self.cols = x.rows, x.cols
            self.c = {k: mach.UNSET for k in x.c}
        self.whole().store(x if x is not None else M.rv(v))

    def m_noalias(self, M, a, t):
        return self

    def m_resize(self, M, a, t):
        r, c = int(simp(a[0])), int(simp(a[1])) if len(a) > 1 else 1
        if (self.srows not in (-1, r)) or (self.scols not in (-1, c)):
            raise AbstractViolation("resize(%d, %d) of a matrix of compile-time size %s x %s" % (r, c, self.srows, self.scols))
        self.rows, self.cols = r, c
        self.c = {(i, j): mach.UNSET for i in range(r) for j in range(c)}
        return None

    def __getattr__(self, attr):
        if attr.startswith(("m_", "op_", "iop_")) or attr in ("index",):
            return getattr(self.whole(), attr)
        raise AttributeError(attr)

    def m_outerSize(self, M, a, t):
        return Fraction(self.cols)


class Val:
    """an rvalue matrix expression"""

    def __init__(self, rows, cols, c):
        self.rows, self.cols, self.c = rows, cols, c
        self._mat = None

    def show(self):
        return "expr(%dx%d)" % (self.rows, self.cols)

    def mat(self):
        """a variable initialised from an expression is a matrix object: materialised on the first view / in-place update"""
        if self._mat is None:
            self._mat = Mat("local", self.rows, self.cols)
            self._mat.c = dict(self.c)
        return self._mat

    def __getattr__(self, attr):
        if attr.startswith(("m_", "iop_")) or attr in ("index", "assign_from"):
            return getattr(self.mat().whole(), attr)
        raise AttributeError(attr)

    def m_transpose(self, M, a, t):
        return Val(self.cols, self.rows, {(c, r): v for (r, c), v in self.c.items()})

    m_adjoint = m_transpose

    def m_eval(self, M, a, t):
        return self

    def m_rows(self, M, a, t):
        return Fraction(self.rows)

    def m_cols(self, M, a, t):
        return Fraction(self.cols)

    def op_mul(self, M, a, b):
        return mul(a, b)

    def op_add(self, M, a, b):
        return add(a, b, 1)

    def op_sub(self, M, a, b):
        return add(a, b, -1)


def as_val(x):
    if isinstance(x, Mat):
        x = x.whole()
    if isinstance(x, MView):
        return Val(x.nr, x.nc, {(r, c): x.mat.c[(x.r0 + r, x.c0 + c)] for r in range(x.nr) for c in range(x.nc)})
    if isinstance(x, Val):
        return as_val(x._mat) if x._mat is not None else x
    return None


def mul(a, b):
    va, vb = as_val(a), as_val(b)
    if va is None and vb is not None and mach.is_num(a):
        return Val(vb.rows, vb.cols, {k: simp(rf(a) * rf(v)) for k, v in vb.c.items()})
    if vb is None and va is not None and mach.is_num(b):
        return Val(va.rows, va.cols, {k: simp(rf(v) * rf(b)) for k, v in va.c.items()})
    if va is None or vb is None:
        raise Unab("product of %s and %s" % (show_val(a), show_val(b)))
    if va.cols != vb.rows:
        raise AbstractViolation("product of a %d x %d and a %d x %d matrix" % (va.rows, va.cols, vb.rows, vb.cols))
    out = {}
    for r in range(va.rows):
        for c in range(vb.cols):
            acc = rf(Fraction(0))
            for k in range(va.cols):
                x, y = va.c[(r, k)], vb.c[(k, c)]
                if x is mach.UNSET or y is mach.UNSET:
                    raise AbstractViolation("a matrix entry is read before it is written")
                acc = acc + rf(x) * rf(y)
            out[(r, c)] = simp(acc)
    return Val(va.rows, vb.cols, out)


def add(a, b, sign):
    va, vb = as_val(a), as_val(b)
    if va is None and vb is not None and mach.is_num(a) and simp(a) == 0:
        return Val(vb.rows, vb.cols, {k: simp(rf(Fraction(sign)) * rf(v)) for k, v in vb.c.items()})
    if vb is None and va is not None and mach.is_num(b) and simp(b) == 0:
        return va
    if va is None or vb is None:
        raise Unab("sum of %s and %s" % (show_val(a), show_val(b)))
    if (va.rows, va.cols) != (vb.rows, vb.cols):
        raise AbstractViolation("sum of a %d x %d and a %d x %d matrix" % (va.rows, va.cols, vb.rows, vb.cols))
    return Val(va.rows, va.cols, {k: simp(rf(va.c[k]) + rf(vb.c[k]) * rf(Fraction(sign))) for k in va.c})


class MView:
    def __init__(self, mat, r0, c0, nr, nc):
        self.mat, self.r0, self.c0, self.nr, self.nc = mat, r0, c0, nr, nc

    def show(self):
        return "%s[%d:%d, %d:%d]" % (self.mat.name, self.r0, self.r0 + self.nr, self.c0, self.c0 + self.nc)

    def __deepcopy__(self, memo):
        return self

    def ints(self, M, a, t):
        ta = [int(simp(M.eval_targ(x))) for x in _split(t)] if t else []
        ra = [int(simp(x)) for x in a]
        return ta, ra

    def sub(self, r0, c0, nr, nc, what):
        if nr < 0 or nc < 0:
            raise AbstractViolation("%s of %s has the extent %d x %d" % (what, self.show(), nr, nc))
        if r0 < 0 or c0 < 0 or r0 + nr > self.nr or c0 + nc > self.nc:
            raise AbstractViolation("%s (%d x %d at (%d, %d)) leaves the %d x %d matrix %s" % (what, nr, nc, r0, c0, self.nr, self.nc, self.show()))
        return MView(self.mat, self.r0 + r0, self.c0 + c0, nr, nc)

    @staticmethod
    def extent(ta_k, ra_k, what):
        """extent of a view from its template argument and optional run-time argument: Eigen uses the run-time value when given, the template value otherwise; a
        template value of Eigen::Dynamic without a run-time value does not compile"""
        if ra_k is not None:
            if ta_k is not None and ta_k != -1 and ta_k != ra_k:
                raise AbstractViolation("%s: compile-time extent %d but run-time extent %d (Eigen asserts)" % (what, ta_k, ra_k))
            return ra_k
        if ta_k is None or ta_k == -1:
            raise AbstractViolation("%s: the fixed-size overload is used with the extent Eigen::Dynamic and no run-time size (does not compile for dynamic-size arguments)" % what)
        return ta_k

    def m_block(self, M, a, t):
        ta, ra = self.ints(M, a, t)
        nr = self.extent(ta[0] if ta else None, ra[2] if len(ra) > 2 else None, "block<>")
        nc = self.extent(ta[1] if len(ta) > 1 else None, ra[3] if len(ra) > 3 else None, "block<>")
        return self.sub(ra[0], ra[1], nr, nc, "block")

    def m_middleCols(self, M, a, t):
        ta, ra = self.ints(M, a, t)
        n = self.extent(ta[0] if ta else None, ra[1] if len(ra) > 1 else None, "middleCols<>")
        return self.sub(0, ra[0], self.nr, n, "middleCols")

    def m_middleRows(self, M, a, t):
        ta, ra = self.ints(M, a, t)
        n = self.extent(ta[0] if ta else None, ra[1] if len(ra) > 1 else None, "middleRows<>")
        return self.sub(ra[0], 0, n, self.nc, "middleRows")

    def m_leftCols(self, M, a, t):
        ta, ra = self.ints(M, a, t)
        return self.sub(0, 0, self.nr, self.extent(ta[0] if ta else None, ra[0] if ra else None, "leftCols<>"), "leftCols")

    def m_col(self, M, a, t):
        return self.sub(0, int(simp(a[0])), self.nr, 1, "col")

    def m_row(self, M, a, t):
        return self.sub(int(simp(a[0])), 0, 1, self.nc, "row")

    def m_noalias(self, M, a, t):
        return self

    m_derived = m_noalias

    def m_eval(self, M, a, t):
        return as_val(self)

    def m_transpose(self, M, a, t):
        return as_val(self).m_transpose(M, a, t)

    m_adjoint = m_transpose

    def m_rows(self, M, a, t):
        return Fraction(self.nr)

    def m_cols(self, M, a, t):
        return Fraction(self.nc)

    def m_size(self, M, a, t):
        return Fraction(self.nr * self.nc)

    def m_outerSize(self, M, a, t):
        return Fraction(self.nc)

    def m_setZero(self, M, a, t):
        for r in range(self.nr):
            for c in range(self.nc):
                self.mat.c[(self.r0 + r, self.c0 + c)] = Fraction(0)
        return self

    def index(self, M, idx):
        if len(idx) == 1:
            k = int(simp(idx[0]))
            r, c = (k, 0) if self.nc == 1 else (0, k)
        else:
            r, c = int(simp(idx[0])), int(simp(idx[1]))
        if not (0 <= r < self.nr and 0 <= c < self.nc):
            raise AbstractViolation("element (%d, %d) outside %s" % (r, c, self.show()))
        return mach.ItemRef(self.mat.c, (self.r0 + r, self.c0 + c))

    def store(self, v, sign=None):
        v = as_val(v)
        if v is None:
            raise Unab("assignment of a non-matrix to %s" % self.show())
        if (v.rows, v.cols) != (self.nr, self.nc):
            raise AbstractViolation("a %d x %d expression is assigned to the %d x %d block %s" % (v.rows, v.cols, self.nr, self.nc, self.show()))
        for r in range(self.nr):
            for c in range(self.nc):
                k = (self.r0 + r, self.c0 + c)
                if sign is None:
                    self.mat.c[k] = v.c[(r, c)]
                else:
                    old = self.mat.c[k]
                    if old is mach.UNSET:
                        raise AbstractViolation("entry (%d, %d) of %s is accumulated into before it is initialised" % (k[0], k[1], self.mat.name))
                    self.mat.c[k] = simp(rf(old) + rf(v.c[(r, c)]) * rf(Fraction(sign)))

    def assign_from(self, M, v):
        self.store(M.rv(v))

    def iop_add(self, M, v, sign=1):
        self.store(M.rv(v), sign)
        return self

    def iop_sub(self, M, v):
        return self.iop_add(M, v, -1)

    def op_mul(self, M, a, b):
        return mul(a, b)

    def op_add(self, M, a, b):
        return add(a, b, 1)

    def op_sub(self, M, a, b):
        return add(a, b, -1)


class InnerIt:
    """Eigen::InnerIterator over column `outer` of a column-major matrix: every row for a dense matrix, the structural non-zeros for a sparse one"""

    def __init__(self, mat, outer):
        if isinstance(mat, MView):
            mat = mat.mat
        self.mat, self.outer = mat, outer
        rows = range(mat.rows)
        self.items = [r for r in rows if mat.sparse is None or (r, outer) in mat.sparse]
        self.k = 0

    def show(self):
        return "InnerIterator(%s, %d)@%d" % (self.mat.name, self.outer, self.k)

    def __deepcopy__(self, memo):
        return self

    def truth(self):
        return self.k < len(self.items)

    def inc(self):
        self.k += 1
        return self

    def cur(self):
        if not self.truth():
            raise AbstractViolation("an exhausted InnerIterator is dereferenced")
        return self.items[self.k]

    def m_row(self, M, a, t):
        return Fraction(self.cur())

    def m_col(self, M, a, t):
        self.cur()
        return Fraction(self.outer)

    m_outer = m_col

    def m_index(self, M, a, t):
        return Fraction(self.cur())

    def m_value(self, M, a, t):
        return self.mat.c[(self.cur(), self.outer)]


class DfMachine(Machine):
    def __init__(self, decls, types, **kw):
        """types: template parameter name -> Mat (for <T>::RowsAtCompileTime etc.)"""
        super().__init__(decls=decls, type_factory=self.types, **kw)
        self.ty = types
        self.global_env = mach.Env()
        f = self.funcs
        f["name:*"] = PyFunc(self.other_name, lazy=True)
        f["__assert_fail"] = PyFunc(self.assert_fail, lazy=True)
        f["assert"] = f["__assert_fail"]

    @staticmethod
    def assert_fail(M, args, env, name):
        what = " `%s`" % args[0][1] if args and args[0][0] == "str" else ""
        raise AbstractViolation("the function's own assertion%s fails" % what)

    def other_name(self, M, n, env, _):
        t = (n or "").replace(" ", "").replace("typename", "")
        m = re.match(r"^(\w+)::(RowsAtCompileTime|ColsAtCompileTime|SizeAtCompileTime)$", t)
        if m and m.group(1) in self.ty:
            mt = self.ty[m.group(1)]
            if m.group(2) == "RowsAtCompileTime":
                return Fraction(mt.srows)
            if m.group(2) == "ColsAtCompileTime":
                return Fraction(mt.scols)
            return Fraction(-1 if -1 in (mt.srows, mt.scols) else mt.srows * mt.scols)
        if t in ("Eigen::Dynamic", "Dynamic"):
            return Fraction(-1)
        return NotImplemented

    def eval_targ(self, t, env=None):
        env = env or getattr(self, "call_env", None) or self.global_env
        t = (t or "").strip()
        try:
            v = simp(self.rv(self.ev(self.parse_targ(t), env)))
        except Unab:
            raise
        if not isinstance(v, Fraction) or v.denominator != 1:
            raise Unab("template argument %s" % t)
        return v

    def parse_targ(self, t):
        """template arguments of the views are small integer expressions over names: evaluate them with python's own parser on the machine's names"""
        import ast

        def conv(n):
            if isinstance(n, ast.Constant):
                return ("num", Fraction(n.value))
            if isinstance(n, ast.Name):
                return ("ref", n.id, None)
            if isinstance(n, ast.UnaryOp) and isinstance(n.op, ast.USub):
                return ("neg", conv(n.operand))
            if isinstance(n, ast.BinOp) and type(n.op) in (ast.Add, ast.Sub, ast.Mult):
                return ("op", {ast.Add: "+", ast.Sub: "-", ast.Mult: "*"}[type(n.op)], conv(n.left), conv(n.right))
            raise Unab("template argument expression %s" % t)
        try:
            return conv(ast.parse(t.replace("::", "__"), mode="eval").body)
        except SyntaxError:
            raise Unab("template argument expression %s" % t)

    def types(self, M, tyn, args, env):
        m = re.match(r"^(?:const)?Eigen::Matrix<\w+,(.*)>$", tyn)
        if m:
            parts = _split(m.group(1))
            sr, sc = int(simp(self.rv(self.ev(self.parse_cond(parts[0]), env)))), int(simp(self.rv(self.ev(self.parse_cond(parts[1]), env))))
            if args is None or len(args) == 0:
                if -1 in (sr, sc):
                    return Mat("local", 0, 0, sr, sc)
                return Mat("local", sr, sc, sr, sc)
            vals = [self.rv(self.ev(a, env)) for a in args]
            if len(vals) == 2 and all(mach.is_num(v) for v in vals):
                r, c = int(simp(vals[0])), int(simp(vals[1]))
                if (sr != -1 and sr != r) or (sc != -1 and sc != c):
                    raise AbstractViolation("Eigen::Matrix<%d, %d> constructed with the run-time size %d x %d" % (sr, sc, r, c))
                return Mat("local", r, c, sr, sc)
            if len(vals) == 1:
                v = as_val(vals[0])
                if v is None:
                    raise Unab("matrix initialised from %s" % show_val(vals[0]))
                if (sr != -1 and sr != v.rows) or (sc != -1 and sc != v.cols):
                    raise AbstractViolation("Eigen::Matrix<%d, %d> initialised from a %d x %d expression" % (sr, sc, v.rows, v.cols))
                out = Mat("local", v.rows, v.cols, sr, sc)
                out.c = dict(v.c)
                return out
        if tyn.replace("const", "") in ("Eigen::InnerIterator", "Eigen::InnerIterator<JfT>") or tyn.startswith("Eigen::InnerIterator"):
            if args is not None and len(args) == 2:
                m_ = self.rv(self.ev(args[0], env))
                k = int(simp(self.rv(self.ev(args[1], env))))
                if isinstance(m_, MView):
                    m_ = m_.mat
                if not isinstance(m_, Mat) or not (0 <= k < m_.cols):
                    raise AbstractViolation("InnerIterator over outer index %d of %s" % (k, show_val(m_)))
                return InnerIt(m_, k)
        return NotImplemented

    def parse_cond(self, t):
        """`(No == -1 || Nx == -1) ? -1 : No * Nx` and plain integer expressions in Eigen::Matrix<...> extents"""
        t = t.strip()
        if t.startswith("(") and t.endswith(")") and t.count("(") == 1:
            t = t[1:-1]
        m = re.match(r"^(\w+)>(-?\d+)\?(.*):(.*)$", t)
        if m:
            test = ("op", ">", ("ref", m.group(1), None), ("num", Fraction(int(m.group(2)))))
            return ("cond", test, self.parse_targ(m.group(3)), self.parse_targ(m.group(4)))
        m = re.match(r"^\((.*)\)\?(.*):(.*)$", t)
        if m:
            conds = [c.strip() for c in m.group(1).split("||")]
            test = None
            for c in conds:
                mm = re.match(r"^(\w+)==(-?\d+)$", c) or re.match(r"^(\w+)>(-?\d+)$", c)
                if not mm:
                    raise Unab("extent expression %s" % t)
                op = "==" if "==" in c else ">"
                e = ("op", op, ("ref", mm.group(1), None), ("num", Fraction(int(mm.group(2)))))
                test = e if test is None else ("op", "||", test, e)
            return ("cond", test, self.parse_targ(m.group(2)), self.parse_targ(m.group(3)))
        m = re.match(r"^\((\w+)>0&&(\w+)>0\)\?(.*):(.*)$", t)
        if m:
            test = ("op", "&&", ("op", ">", ("ref", m.group(1), None), ("num", Fraction(0))), ("op", ">", ("ref", m.group(2), None), ("num", Fraction(0))))
            return ("cond", test, self.parse_targ(m.group(3)), self.parse_targ(m.group(4)))
        return self.parse_targ(t)


def grid(name, rows, cols, srows, scols, sparse=None):
    m = Mat(name, rows, cols, srows, scols, fill=lambda r, c: sym("%s_%d_%d" % (name, r, c)), sparse=sparse)
    if sparse is not None:
        for k in m.c:
            if k not in sparse:
                m.c[k] = Fraction(0)
    return m


def dyn(flag, n):
    return -1 if flag else n


def check(rep, tier="quick"):
    rep.rule("DF.exec", "d_matrix_product and d2_fog, abstractly executed on symbolic matrices for fixed-size, dynamic and mixed instantiations (dense and sparse outer Jacobian): "
             "every block equals the product / chain rule in the horizontally stacked layout; no view leaves its matrix; every view compiles", minimum=16)
    decls = {}
    for x in A.index(fe.ast_dump("d_matrix_product")) + A.index(fe.ast_dump("d2_fog")):
        if x.pattern and x.kind in A.FUNCS and A.body(x.node) is not None and x.file and x.file.startswith(fe.INCLUDE):
            decls.setdefault(x.qname.split("::")[-1], [])
            if all((y.file, y.line) != (x.file, x.line) for y in decls[x.qname.split("::")[-1]]):
                decls[x.qname.split("::")[-1]].append(x)
    # ---- d_matrix_product: square factors of size n, nvar variables --------------------------------------------------------------
    fns = decls.get("d_matrix_product", [])
    if len(fns) != 1:
        rep.broke("DF.exec: d_matrix_product not found (%d)" % len(fns))
    else:
        d = fns[0]
        for n, nvar in ((2, 3), (3, 2), (1, 4)):
            for kind, (da, dd) in (("fixed-size", (False, False)), ("dynamic", (True, True)), ("dynamic derivative arguments", (False, True))):
                inst = "d_matrix_product n=%d nvar=%d %s" % (n, nvar, kind)
                Am = grid("A", n, n, dyn(da, n), dyn(da, n))
                dA = grid("dA", n, n * nvar, dyn(dd, n), dyn(dd, n * nvar))
                Bm = grid("B", n, n, dyn(da, n), dyn(da, n))
                dB = grid("dB", n, n * nvar, dyn(dd, n), dyn(dd, n * nvar))
                M = DfMachine(decls, {"At": Am, "dAt": dA, "Bt": Bm, "dBt": dB})
                bad = None
                try:
                    r = M.run_function(d, [Cell(Am), Cell(dA), Cell(Bm), Cell(dB)])
                    rv = as_val(M.rv(r))
                    if rv is None or (rv.rows, rv.cols) != (n, n * nvar):
                        bad = "returns %s; expected a %d x %d matrix" % (show_val(M.rv(r)), n, n * nvar)
                    else:
                        for i in range(n):
                            for rr in range(n):
                                for v in range(nvar):
                                    want = rf(Fraction(0))
                                    for k in range(n):
                                        want = want + rf(Bm.c[(k, rr)]) * rf(dA.c[(k, nvar * i + v)])
                                    for j in range(n):
                                        want = want + rf(Am.c[(i, j)]) * rf(dB.c[(rr, nvar * j + v)])
                                    got = rv.c[(rr, nvar * i + v)]
                                    if got is mach.UNSET or not mach.num_equal(got, simp(want)):
                                        bad = "entry (%d, %d) is %s; the product rule gives %s" % (rr, nvar * i + v, show_val(got), show_val(simp(want)))
                                        break
                                if bad:
                                    break
                            if bad:
                                break
                except AbstractViolation as ex:
                    bad = str(ex)
                except Unab as ex:
                    rep.broke("DF.exec: %s is outside the abstract machine: %s" % (inst, ex))
                    continue
                rep.instance("DF.exec", "d_matrix_product", inst, ok=bad is None, sample={})
                if bad:
                    rep.violation(Finding("DF.exec", "d_matrix_product", "%s" % kind, "%s: %s" % (inst, bad), *A.loc(d.node)))
    # ---- d2_fog ------------------------------------------------------------------------------------------------------------------
    fns = decls.get("d2_fog", [])
    if len(fns) != 1:
        rep.broke("DF.exec: d2_fog not found (%d)" % len(fns))
        return
    d = fns[0]
    shapes = [(2, 3, 2), (1, 2, 3), (3, 2, 2)] if tier == "quick" else [(2, 3, 2), (1, 2, 3), (3, 2, 2), (2, 2, 2), (3, 1, 2)]
    for no, ny, nx in shapes:
        for kind, (dno, dny, dnx) in (("fixed-size", (False, False, False)), ("dynamic", (True, True, True)), ("dynamic inputs Nx", (False, False, True)), ("dynamic outputs No", (True, False, False))):
            for sparse in (False, True):
                inst = "d2_fog No=%d Ny=%d Nx=%d %s%s" % (no, ny, nx, kind, ", sparse Jf" if sparse else "")
                pat = {(r, c) for r in range(no) for c in range(ny) if (r + 2 * c) % 3 != 1} if sparse else None
                Jf = grid("Jf", no, ny, dyn(dno or sparse, no), dyn(dny or sparse, ny), sparse=pat)
                Hf = grid("Hf", ny, no * ny, dyn(dny, ny), dyn(dno or dny, no * ny))
                Jg = grid("Jg", ny, nx, dyn(dny, ny), dyn(dnx, nx))
                Hg = grid("Hg", nx, ny * nx, dyn(dnx, nx), dyn(dny or dnx, ny * nx))
                M = DfMachine(decls, {"JfT": Jf, "HfT": Hf, "JgT": Jg, "HgT": Hg})
                bad = None
                try:
                    r = M.run_function(d, [Cell(Jf), Cell(Hf), Cell(Jg), Cell(Hg)])
                    rv = as_val(M.rv(r))
                    if rv is None or (rv.rows, rv.cols) != (nx, no * nx):
                        bad = "returns %s; expected a %d x %d matrix" % (show_val(M.rv(r)), nx, no * nx)
                    else:
                        for i in range(no):
                            for rr in range(nx):
                                for c in range(nx):
                                    want = rf(Fraction(0))
                                    for a in range(ny):
                                        for b in range(ny):
                                            want = want + rf(Jg.c[(a, rr)]) * rf(Hf.c[(a, ny * i + b)]) * rf(Jg.c[(b, c)])
                                    for k in range(ny):
                                        want = want + rf(Jf.c[(i, k)]) * rf(Hg.c[(rr, nx * k + c)])
                                    got = rv.c[(rr, nx * i + c)]
                                    if got is mach.UNSET or not mach.num_equal(got, simp(want)):
                                        bad = "entry (%d, %d) (block %d) differs from Jg' Hf_i Jg + sum_k Jf(i, k) Hg_k: %s" % (rr, nx * i + c, i, show_val(got)[:120])
                                        break
                                if bad:
                                    break
                            if bad:
                                break
                except AbstractViolation as ex:
                    bad = str(ex)
                except Unab as ex:
                    rep.broke("DF.exec: %s is outside the abstract machine: %s" % (inst, ex))
                    continue
                rep.instance("DF.exec", "d2_fog", inst, ok=bad is None, sample={})
                if bad:
                    rep.violation(Finding("DF.exec", "d2_fog", "%s%s" % (kind, ", sparse Jf" if sparse else ""), "%s: %s" % (inst, bad), *A.loc(d.node)))


# ---- T1.dyn: Eigen vectors as translation groups, fixed and dynamic size --------------------------------------------------------

class RnMachine(DfMachine):
    def __init__(self, decls, g, dofc):
        super().__init__(decls, {"G": g})
        self.global_env.bind("Dof", Cell(Fraction(dofc), True))
        f = self.funcs
        for nm, fn in (("Zero", lambda r, c: Fraction(0)), ("Identity", lambda r, c: Fraction(1 if r == c else 0))):
            f[nm] = PyFunc(lambda M, args, env, name, fn=fn: self.const(args, env, name, fn), lazy=True)

    aliases = {}

    def const(self, args, env, name, fn):
        t = (name or "").replace(" ", "")
        # member type aliases of the traits class (using TMap = Eigen::Matrix<Scalar, Dof, Dof>;)
        for _ in range(4):
            m0 = re.match(r"^(\w+)::(\w+)$", t)
            if m0 and m0.group(1) in self.aliases:
                t = self.aliases[m0.group(1)].replace(" ", "").replace("typename", "") + "::" + m0.group(2)
            else:
                break
        m = re.match(r"^(?:Eigen::)?Matrix<\w+,(.*)>::(\w+)$", t)
        vals = [int(simp(self.rv(self.ev(a, env)))) for a in args]
        if m:
            parts = _split(m.group(1))
            sr, sc = (int(simp(self.rv(self.ev(self.parse_cond(p), env)))) for p in parts[:2])
        elif re.match(r"^(?:Eigen::)?Vector<\w+,(\w+)>::\w+$", t) or re.match(r"^(G|PlainObject)::\w+$", t):
            sr, sc = int(simp(self.rv(self.ev(("ref", "Dof", None), env)))), 1
            vals = vals + [1] if len(vals) == 1 else vals
        else:
            raise Unab("constant matrix %s" % name)
        if len(vals) == 0:
            if -1 in (sr, sc):
                raise AbstractViolation("%s without run-time sizes for a dynamic-size type" % name)
            r, c = sr, sc
        elif len(vals) == 2:
            r, c = vals
            if (sr != -1 and sr != r) or (sc != -1 and sc != c):
                raise AbstractViolation("%s: run-time size %d x %d for the compile-time size %s x %s (Eigen asserts; ignored with NDEBUG)" % (name, r, c, sr, sc))
        else:
            raise Unab("constant matrix %s with %d arguments" % (name, len(vals)))
        return Val(r, c, {(i, j): fn(i, j) for i in range(r) for j in range(c)})


def _neg(M, v):
    x = as_val(v)
    if x is None:
        raise Unab("negation of %s" % show_val(v))
    return Val(x.rows, x.cols, {k: simp(rf(Fraction(0)) - rf(c)) for k, c in x.c.items()})


Val.op_neg = lambda self, M, a: _neg(M, a)
MView.op_neg = lambda self, M, a: _neg(M, a)


def check_rn(rep):
    """T1.dyn: traits::lie<RnType> (Eigen vectors as the translation group), abstractly executed for a fixed-size and a dynamic-size vector: values and *shapes* of every member"""
    rep.rule("T1.dyn", "Eigen vectors as translation groups, abstractly executed for fixed and dynamic size: Identity = 0, composition = sum, inverse = negation, exp = log = identity map, "
             "Ad / dr_exp / dr_expinv = I (n x n), ad = 0 (n x n), d2r_exp / d2r_expinv = 0 (n x n^2)", minimum=20)
    decls = {}
    for x in A.index(fe.ast_dump("traits::lie")):
        if x.pattern and x.kind in A.FUNCS and A.body(x.node) is not None and x.file and x.file.endswith("lie_groups/rn.hpp"):
            nm = x.qname.split("::")[-1]
            if all((y.file, y.line) != (x.file, x.line) for y in decls.get(nm, [])):
                decls.setdefault(nm, []).append(x)
    if len(decls) < 10:
        rep.broke("T1.dyn: %d members of traits::lie<RnType> found in lie_groups/rn.hpp" % len(decls))
        return
    RnMachine.aliases = {}
    for o in fe.ast_dump("traits::lie"):
        for x in A.walk(o):
            if x.get("kind") == "TypeAliasDecl" and (A.loc(x)[0] or "").endswith("lie_groups/rn.hpp"):
                RnMachine.aliases[x.get("name")] = x.get("type", {}).get("qualType", "")
    n = 3
    eye = {(i, j): Fraction(1 if i == j else 0) for i in range(n) for j in range(n)}
    zero = lambda r, c: {(i, j): Fraction(0) for i in range(r) for j in range(c)}
    for kind, dofc in (("fixed size", n), ("dynamic size", -1)):
        g1 = grid("g", n, 1, dofc, 1)
        g2 = grid("h", n, 1, dofc, 1)
        gc = {k: v for k, v in g1.c.items()}
        want = {
            "Identity": ([Cell(Fraction(n))], (n, 1, zero(n, 1))),
            "Ad": ([Cell(g1)], (n, n, eye)), "ad": ([Cell(g1)], (n, n, zero(n, n))),
            "composition": ([Cell(g1), Cell(g2)], (n, 1, {k: simp(rf(g1.c[k]) + rf(g2.c[k])) for k in g1.c})),
            "inverse": ([Cell(g1)], (n, 1, {k: simp(rf(Fraction(0)) - rf(v)) for k, v in g1.c.items()})),
            "log": ([Cell(g1)], (n, 1, gc)), "exp": ([Cell(g1)], (n, 1, gc)),
            "dr_exp": ([Cell(g1)], (n, n, eye)), "dr_expinv": ([Cell(g1)], (n, n, eye)),
            "d2r_exp": ([Cell(g1)], (n, n * n, zero(n, n * n))), "d2r_expinv": ([Cell(g1)], (n, n * n, zero(n, n * n))),
            "dof": ([Cell(g1)], Fraction(n)),
        }
        for nm, (args, exp_) in want.items():
            ds = decls.get(nm, [])
            inst = "%s, %s" % (nm, kind)
            if len(ds) != 1:
                rep.broke("T1.dyn: traits::lie<RnType>::%s not found (%d)" % (nm, len(ds)))
                continue
            M = RnMachine(decls, g1, dofc)
            bad = None
            try:
                r = M.rv(M.run_function(ds[0], args))
                if isinstance(exp_, Fraction):
                    if simp(r) != exp_:
                        bad = "returns %s; expected %s" % (show_val(r), exp_)
                else:
                    v = as_val(r)
                    rows, cols, cells = exp_
                    if v is None:
                        bad = "returns %s; expected a %d x %d matrix" % (show_val(r), rows, cols)
                    elif (v.rows, v.cols) != (rows, cols):
                        bad = "returns a %d x %d matrix; expected %d x %d" % (v.rows, v.cols, rows, cols)
                    else:
                        for k in cells:
                            if v.c[k] is mach.UNSET or not mach.num_equal(v.c[k], cells[k]):
                                bad = "entry %s is %s; expected %s" % (k, show_val(v.c[k]), show_val(cells[k]))
                                break
            except AbstractViolation as ex:
                bad = str(ex)
            except Unab as ex:
                rep.broke("T1.dyn: %s is outside the abstract machine: %s" % (inst, ex))
                continue
            rep.instance("T1.dyn", "traits::lie<RnType>::" + nm, kind, ok=bad is None, sample={})
            if bad:
                rep.violation(Finding("T1.dyn", "traits::lie<RnType>::" + nm, kind, "traits::lie<Eigen vector>::%s (%s, n = %d): %s" % (nm, kind, n, bad), *A.loc(ds[0].node)))
