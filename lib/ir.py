"""I -- fact engine over clang's optimized textual LLVM IR (opaque pointers, clang 15/16).

For each `define`d function it provides:
  * pointer provenance:  value -> (root, offset)   root in {('param',k), ('alloca',name), ('global',name),
                         ('heap',name), ('loaded', root, offset)}; offset an int (bytes) or None (not constant)
  * write effects:       stores / memset / memcpy destinations with provenance and size
  * value dependence:    for a stored value, the set of memory cells (root, offset) it was computed from,
                         including control dependence (branch conditions deciding phis / guarded stores)
  * constant facts:      whether a stored value is a literal constant
Everything that cannot be resolved is surfaced as `unresolved` (the caller turns it into exit 2), never guessed.
"""
import re
import struct

NAME = r'%(?:"[^"]*"|[-a-zA-Z$._0-9]+)'
GNAME = r'@(?:"[^"]*"|[-a-zA-Z$._0-9]+)'

PRIM = {"double": 8, "float": 4, "half": 2, "i1": 1, "i8": 1, "i16": 2, "i32": 4, "i64": 8, "i128": 16, "ptr": 8,
        "x86_fp80": 16, "fp128": 16}


# When set (C18 E2), a call argument that is a constant getelementptr expression (an address inside a global, e.g. a
# function-local static written by memset / memcpy) keeps its expression so that its provenance resolves to the global.
KEEP_CONST_GEP = False

class Unresolved(Exception):
    pass


def split_top(s, sep=","):
    out, depth, cur = [], 0, []
    i = 0
    inq = False
    while i < len(s):
        ch = s[i]
        if ch == '"':
            inq = not inq
        if not inq:
            if ch in "([{<":
                depth += 1
            elif ch in ")]}>":
                depth -= 1
            elif ch == sep and depth == 0:
                out.append("".join(cur).strip())
                cur = []
                i += 1
                continue
        cur.append(ch)
        i += 1
    if "".join(cur).strip():
        out.append("".join(cur).strip())
    return out


class Types:
    def __init__(self):
        self.named = {}

    def add(self, name, body):
        self.named[name] = body

    def size_align(self, t):
        t = t.strip()
        if t in PRIM:
            s = PRIM[t]
            return s, min(s, 8) if t != "x86_fp80" else 16
        m = re.match(r"^i(\d+)$", t)
        if m:
            s = (int(m.group(1)) + 7) // 8
            return s, min(s, 8)
        if t.startswith("["):
            m = re.match(r"^\[\s*(\d+)\s+x\s+(.*)\]$", t)
            n, el = int(m.group(1)), m.group(2)
            s, a = self.size_align(el)
            return n * s, a
        if t.startswith("<{"):
            fs = split_top(t[2:-2])
            return sum(self.size_align(f)[0] for f in fs), 1
        if t.startswith("<"):
            m = re.match(r"^<\s*(\d+)\s+x\s+(.*)>$", t)
            n, el = int(m.group(1)), m.group(2)
            s, a = self.size_align(el)
            return n * s, n * s
        if t.startswith("{"):
            fs = split_top(t[1:-1])
            off, al = 0, 1
            for f in fs:
                s, a = self.size_align(f)
                off = (off + a - 1) // a * a
                off += s
                al = max(al, a)
            return (off + al - 1) // al * al, al
        if t.startswith("%"):
            if t not in self.named:
                raise Unresolved("unknown type " + t)
            return self.size_align(self.named[t])
        raise Unresolved("unknown type " + t)

    def field_offset(self, t, idx):
        """Byte offset of element idx inside aggregate t, and the element type."""
        t = t.strip()
        if t.startswith("%"):
            return self.field_offset(self.named[t], idx)
        if t.startswith("["):
            m = re.match(r"^\[\s*(\d+)\s+x\s+(.*)\]$", t)
            el = m.group(2)
            return idx * self.size_align(el)[0], el
        if t.startswith("<{"):
            fs = split_top(t[2:-2])
            return sum(self.size_align(f)[0] for f in fs[:idx]), fs[idx]
        if t.startswith("<"):
            m = re.match(r"^<\s*(\d+)\s+x\s+(.*)>$", t)
            el = m.group(2)
            return idx * self.size_align(el)[0], el
        if t.startswith("{"):
            fs = split_top(t[1:-1])
            off = 0
            for i, f in enumerate(fs):
                s, a = self.size_align(f)
                off = (off + a - 1) // a * a
                if i == idx:
                    return off, f
                off += s
        raise Unresolved("cannot index type " + t)


def parse_const(tok):
    """Numeric literal -> python number, else None."""
    tok = tok.strip()
    if re.match(r"^-?\d+$", tok):
        return int(tok)
    if re.match(r"^-?\d+\.\d+e[+-]\d+$", tok) or re.match(r"^-?\d+\.\d*$", tok):
        return float(tok)
    if re.match(r"^0x[0-9A-Fa-f]{16}$", tok):
        return struct.unpack(">d", bytes.fromhex(tok[2:]))[0]
    if tok in ("true",):
        return 1
    if tok in ("false", "zeroinitializer", "null"):
        return 0
    return None


class Instr:
    __slots__ = ("res", "op", "text", "block", "ops", "extra", "idx")

    def __init__(self, res, op, text, block, idx):
        self.res = res
        self.op = op
        self.text = text
        self.block = block
        self.ops = []     # %names used as data operands
        self.extra = {}
        self.idx = idx


class Func:
    def __init__(self, name, params, attrs_line):
        self.name = name
        self.params = params        # list of (type, attrs:str, name)
        self.attrs_line = attrs_line
        self.blocks = {}            # label -> [Instr]
        self.order = []             # labels in order
        self.defs = {}              # %name -> Instr
        self.succ = {}
        self.pred = {}

    def param_index(self, vname):
        for i, p in enumerate(self.params):
            if p[2] == vname:
                return i
        return None


class Module:
    def __init__(self, text):
        self.types = Types()
        self.funcs = {}
        self.declared = set()
        self.globals = {}   # @name -> {"const": bool, "line": str}
        self._parse(text)

    # ------------------------------------------------------------------------------------
    def _parse(self, text):
        lines = text.splitlines()
        i = 0
        n = len(lines)
        while i < n:
            l = lines[i]
            m = re.match(r"^(%[\w.\":$-]+|%\"[^\"]*\") = type (.*)$", l)
            if m:
                self.types.add(m.group(1), m.group(2).strip())
                i += 1
                continue
            m = re.match(r"^(" + GNAME + r") = (.*)$", l)
            if m:
                rest = m.group(2)
                self.globals[m.group(1)] = {"const": bool(re.search(r"\bconstant\b", rest)), "line": l}
                i += 1
                continue
            if l.startswith("declare "):
                m = re.search(r"(" + GNAME + r")\s*\(", l)
                if m:
                    self.declared.add(m.group(1))
                i += 1
                continue
            if l.startswith("define "):
                m = re.search(r"(" + GNAME + r")\s*\(", l)
                fname = m.group(1)
                # parameter list: balanced parens after the name
                j = m.end()
                depth = 1
                k = j
                while depth:
                    if l[k] == "(":
                        depth += 1
                    elif l[k] == ")":
                        depth -= 1
                    k += 1
                plist = l[j:k - 1]
                params = []
                for pi, ptxt in enumerate(split_top(plist)):
                    if ptxt == "...":
                        continue
                    mm = re.search(r"(" + NAME + r")\s*$", ptxt)
                    pname = mm.group(1) if mm else "%" + str(pi)
                    ty = ptxt.split()[0]
                    params.append((ty, ptxt, pname))
                f = Func(fname, params, l)
                i += 1
                cur = None
                idx = 0
                # unnamed entry block label: number after params
                while i < n and lines[i] != "}":
                    bl = lines[i]
                    i += 1
                    if not bl.strip() or bl.lstrip().startswith(";"):
                        continue
                    ml = re.match(r'^((?:"[^"]*"|[-a-zA-Z$._0-9]+)):', bl)
                    if ml:
                        cur = "%" + ml.group(1)
                        f.blocks[cur] = []
                        f.order.append(cur)
                        continue
                    if cur is None:
                        # unnamed entry block: its implicit label is the next unnamed value number after the parameters
                        nun = sum(1 for p_ in params if re.match(r"^%\d+$", p_[2]))
                        cur = "%%%d" % nun
                        f.blocks[cur] = []
                        f.order.append(cur)
                    ins = self._parse_instr(bl.strip(), cur, idx)
                    # switch / multi-line instructions
                    if ins.op == "switch" and "]" not in bl:
                        while i < n and "]" not in lines[i]:
                            ins.text += " " + lines[i].strip()
                            i += 1
                        ins.text += " " + lines[i].strip()
                        i += 1
                    idx += 1
                    f.blocks[cur].append(ins)
                    if ins.res:
                        f.defs[ins.res] = ins
                self._cfg(f)
                self.funcs[fname] = f
            i += 1

    def return_provs(self, fname):
        """Provenances (callee-relative) of the pointers a defined function may return; None if unknown."""
        if not hasattr(self, "_retp"):
            self._retp = {}
        if fname in self._retp:
            return self._retp[fname]
        self._retp[fname] = None   # recursion guard
        f = self.funcs[fname]
        ff = FuncFacts(self, f)
        out = []
        ok = True
        for lab in f.order:
            for ins in f.blocks[lab]:
                if ins.op == "ret":
                    m = re.match(r"^ret ptr (\S+)$", ins.text.strip())
                    if not m:
                        continue
                    p = ff.prov(m.group(1))
                    for r in flat_roots(p.root):
                        if root_kind(r) in ("unknown", "callret", "alloca"):
                            ok = False
                        out.append(Prov(r, p.off if p.root == r else None))
        self._retp[fname] = out if (ok and out) else None
        return self._retp[fname]

    def _parse_instr(self, s, block, idx):
        # strip metadata and comments
        s = re.sub(r",\s*!\w+(\.\w+)*\s+!\d+", "", s)
        s = re.sub(r";.*$", "", s).strip()
        m = re.match(r"^(" + NAME + r") = (.*)$", s)
        res = None
        body = s
        if m:
            res, body = m.group(1), m.group(2)
        toks = body.split()
        op = toks[0]
        if op in ("tail", "musttail", "notail") and len(toks) > 1:
            op = toks[1]
        ins = Instr(res, op, body, block, idx)
        return ins

    def _cfg(self, f):
        for lab in f.order:
            f.succ[lab] = []
            f.pred.setdefault(lab, [])
        for lab in f.order:
            if not f.blocks[lab]:
                continue
            t = f.blocks[lab][-1]
            if t.op in ("br", "switch", "invoke", "indirectbr", "callbr"):
                for m in re.finditer(r"label (" + NAME + r")", t.text):
                    tgt = m.group(1)
                    if tgt not in f.succ[lab]:
                        f.succ[lab].append(tgt)
                    f.pred.setdefault(tgt, []).append(lab)


# ------------------------------------------------------------------------------------------
# analysis of one function
# ------------------------------------------------------------------------------------------

ALLOC_FUNCS = {"@__cxa_allocate_exception", "@malloc", "@_Znwm", "@_Znam", "@aligned_alloc", "@calloc", "@_ZnwmSt11align_val_t", "@realloc",
               "@_ZnwmRKSt9nothrow_t", "@posix_memalign"}
FREE_FUNCS = {"@free", "@_ZdlPv", "@_ZdaPv", "@_ZdlPvm", "@_ZdlPvSt11align_val_t", "@_ZdaPvm"}
PURE_FUNCS = {"@sin", "@cos", "@tan", "@sqrt", "@atan2", "@atan", "@asin", "@acos", "@exp", "@log", "@pow", "@fabs",
              "@sinf", "@cosf", "@tanf", "@sqrtf", "@atan2f", "@atanf", "@asinf", "@acosf", "@expf", "@logf",
              "@powf", "@fabsf", "@fmod", "@fmodf", "@floor", "@ceil", "@round", "@hypot", "@hypotf", "@cbrt",
              "@sincos", "@sincosf", "@copysign", "@fmin", "@fmax", "@trunc", "@rint", "@nearbyint", "@ldexp",
              "@log2", "@log10", "@exp2", "@sinh", "@cosh", "@tanh", "@abs", "@labs", "@strlen", "@memcmp", "@bcmp"}
NORETURN_FUNCS = {"@_ZSt17__throw_bad_allocv", "@_ZSt20__throw_length_errorPKc", "@abort", "@__assert_fail",
                  "@_ZSt28__throw_bad_array_new_lengthv", "@_ZSt24__throw_out_of_range_fmtPKcz",
                  "@_ZSt16__throw_bad_castv", "@__cxa_throw", "@_ZSt9terminatev", "@__cxa_pure_virtual",
                  "@_ZSt21__throw_bad_variant_accessPKc", "@_ZSt21__throw_bad_variant_accessb", "@__clang_call_terminate",
                  "@_ZSt25__throw_bad_function_callv", "@_ZSt19__throw_logic_errorPKc", "@_ZSt20__throw_out_of_rangePKc",
                  "@_ZSt27__throw_bad_optional_accessv", "@__cxa_call_unexpected", "@__cxa_rethrow", "@_Unwind_Resume"}
IO_PREFIXES = ("@_ZNSo", "@_ZNSi", "@_ZNSt6locale", "@_ZSt16__ostream_insert", "@_ZNKSt5ctype", "@_ZNSt8ios_base",
               "@_ZNSt9basic_ios", "@_ZSt4endl", "@_ZNKSt9basic_ios", "@_ZStlsI", "@_ZNSolsE", "@_ZNSt7__cxx1118basic_stringstream",
               "@_ZNSt7__cxx1119basic_ostringstream", "@_ZNSt6chrono", "@_ZSt9use_facet", "@_ZNKSt6locale", "@puts", "@printf",
               "@putchar", "@fflush", "@fwrite")
BENIGN_FUNCS = {"@__cxa_free_exception", "@_ZNSt6chrono3_V212system_clock3nowEv", "@_ZNSt6chrono3_V212steady_clock3nowEv", "@__cxa_begin_catch", "@__cxa_end_catch",
                "@__gxx_personality_v0", "@__cxa_atexit", "@__cxa_guard_acquire", "@__cxa_guard_release",
                "@__cxa_guard_abort", "@rand", "@srand", "@__errno_location"}


class Prov:
    __slots__ = ("root", "off")

    def __init__(self, root, off):
        self.root = root
        self.off = off

    def __repr__(self):
        return "Prov(%s,%s)" % (self.root, self.off)

    def key(self):
        return (self.root, self.off)


def flat_roots(root):
    """Constituent roots of a provenance root (phi/select of several bases gives ('multi', (...)))."""
    if root and root[0] == "multi":
        out = []
        for r in root[1]:
            out.extend(flat_roots(r))
        return out
    if root and root[0] == "loaded" and root[1] and root[1][0] == "multi":
        return [("loaded", r, root[2]) for r in flat_roots(root[1])]
    return [root]


def root_param(root):
    """The parameter index a provenance root is (transitively, through loaded pointers) based on, else None."""
    while root and root[0] == "loaded":
        root = root[1]
    if root and root[0] == "param":
        return root[1]
    return None


def root_kind(root):
    while root and root[0] == "loaded":
        root = root[1]
    return root[0] if root else "unknown"


class FuncFacts:
    """Lazy per-function facts."""

    def __init__(self, mod, f):
        self.mod = mod
        self.f = f
        self._prov = {}
        self._dep = {}
        self._cd = None
        self.unresolved = []

    # -- pointer provenance --------------------------------------------------------------
    def prov(self, v, depth=0):
        v = v.strip()
        if v in self._prov:
            return self._prov[v]
        if depth > 400:
            raise Unresolved("provenance recursion too deep at " + v)
        if not hasattr(self, "_order"):
            self._order = []      # active frames (values being resolved), outermost first
            self._low = []        # per frame: lowest stack position of a cycle head consulted during its lifetime
        if v in self._order:
            i = self._order.index(v)              # back edge of a pointer cycle (phi / memory slot)
            for j in range(i + 1, len(self._order)):
                if self._low[j] > i:
                    self._low[j] = i
            return Prov(("unknown", "cycle:" + v), None)
        pos = len(self._order)
        self._order.append(v)
        self._low.append(pos)
        try:
            r = self._prov_uncached(v, depth)
        finally:
            low = self._low.pop()
            self._order.pop()
        if low >= pos:
            self._prov[v] = r                      # cache only results that did not depend on an unresolved outer cycle head
        else:
            # propagate the taint to the enclosing frames
            for j in range(low + 1, len(self._order)):
                if self._low[j] > low:
                    self._low[j] = low
        return r

    def _prov_uncached(self, v, depth):
        f = self.f
        if v.startswith("@"):
            return Prov(("global", v), 0)
        if v in ("null", "undef", "poison"):
            return Prov(("null",), 0)
        pi = f.param_index(v)
        if pi is not None:
            return Prov(("param", pi), 0)
        m = re.match(r"^getelementptr (?:inbounds )?\((.*)\)$", v)
        if m:   # constant expression
            return self._gep(m.group(1), depth)
        ins = f.defs.get(v)
        if ins is None:
            return Prov(("unknown", v), None)
        op = ins.op
        t = ins.text
        if op == "getelementptr":
            body = re.sub(r"^getelementptr (inbounds )?", "", t)
            return self._gep(body, depth)
        if op == "alloca":
            return Prov(("alloca", v), 0)
        if op in ("bitcast", "addrspacecast"):
            m = re.search(r"(" + NAME + "|" + GNAME + r") to ", t)
            return self.prov(m.group(1), depth + 1)
        if op == "load":
            m = re.match(r"^load (?:volatile )?(.*?), ptr (\S+?)(?:,|$)", t)
            if m and m.group(1).strip() == "ptr":
                p = self.prov(m.group(2), depth + 1)
                if p.root[0] == "alloca" and p.off is not None:
                    # pointer spilled to a stack slot (e.g. Eigen::Ref holding a pointer to its own temporary):
                    # forward the pointers stored to that slot (flow-insensitive may-alias)
                    srcs = [sv for (an, ao, sv) in self._alloca_ptr_stores() if an == p.root[1] and ao == p.off]
                    if srcs:
                        ps = [self.prov(sv, depth + 1) for sv in srcs]
                        ps = [q for q in ps if not (q.root[0] == "unknown" and str(q.root[1]).startswith("cycle:"))]
                        ps = [q for q in ps if q.root != ("null",)] or ps
                    if srcs and ps:
                        roots = {q.root for q in ps}
                        if len(roots) == 1:
                            offs = {q.off for q in ps}
                            return Prov(ps[0].root, ps[0].off if len(offs) == 1 else None)
                        return Prov(("multi", tuple(sorted(roots, key=str))), None)
                return Prov(("loaded", p.root, p.off), 0)
            return Prov(("unknown", v), None)
        if op in ("phi", "select"):
            cands = []
            if op == "phi":
                for mm in re.finditer(r"\[\s*(.+?),\s*" + NAME + r"\s*\]", t):
                    cands.append(mm.group(1).strip())
            else:
                parts = split_top(t[len("select"):])
                cands = [re.sub(r"^ptr\s+", "", parts[1]).strip(), re.sub(r"^ptr\s+", "", parts[2]).strip()]
            ps = []
            for c in cands:
                if c in ("null", "undef", "poison"):
                    continue
                p = self.prov(c, depth + 1)
                if p.root[0] == "unknown" and str(p.root[1]).startswith("cycle:"):
                    continue
                ps.append(p)
            if not ps:
                return Prov(("null",), 0)
            roots = {p.root for p in ps}
            if len(roots) == 1:
                offs = {p.off for p in ps}
                return Prov(ps[0].root, ps[0].off if len(offs) == 1 else None)
            return Prov(("multi", tuple(sorted(roots, key=str))), None)
        if op in ("call", "invoke"):
            m = re.search(r"(" + GNAME + r")\s*\(", t)
            if m and m.group(1) in ALLOC_FUNCS:
                return Prov(("heap", v), 0)
            if m and m.group(1).startswith("@llvm.") and ("launder" in m.group(1) or "strip" in m.group(1) or "ptrmask" in m.group(1)):
                a = re.search(r"\(ptr[^%@]*(" + NAME + "|" + GNAME + ")", t)
                if a:
                    return self.prov(a.group(1), depth + 1)
            if m and m.group(1) in self.mod.funcs and depth < 50:
                # defined callee returning a pointer: substitute its return provenance (in terms of its parameters)
                rp = self.mod.return_provs(m.group(1))
                if rp is not None:
                    args = [self._arg_value(a) for a in split_top(self._call_args(t))]
                    outs = []
                    for r in rp:
                        sub = self._subst_root(r.root, r.off, args, depth)
                        if sub is None:
                            outs = None
                            break
                        outs.append(sub)
                    if outs:
                        roots = {o.root for o in outs}
                        if len(roots) == 1:
                            offs = {o.off for o in outs}
                            return Prov(outs[0].root, outs[0].off if len(offs) == 1 else None)
                        return Prov(("multi", tuple(sorted(roots, key=str))), None)
            return Prov(("callret", v), None)
        if op == "inttoptr":
            return Prov(("unknown", v), None)
        if op == "extractvalue":
            return Prov(("unknown", v), None)
        return Prov(("unknown", v), None)

    def _addr_static(self, v, depth=0):
        """(alloca name, byte offset) if v is an alloca plus constant GEPs (no loads, no phis); else None."""
        ins = self.f.defs.get(v)
        if ins is None or depth > 50:
            return None
        if ins.op == "alloca":
            return (v, 0)
        if ins.op == "getelementptr":
            body = re.sub(r"^getelementptr (inbounds )?", "", ins.text)
            parts = split_top(body)
            base = re.sub(r"^ptr\s+", "", parts[1]).strip()
            b = self._addr_static(base, depth + 1)
            if b is None:
                return None
            try:
                cur = parts[0]
                total = 0
                for k, a in enumerate(parts[2:]):
                    a = re.sub(r"^(i\d+)\s+", "", a).strip()
                    if not re.match(r"^-?\d+$", a):
                        return None
                    ix = int(a)
                    if k == 0:
                        total += ix * self.mod.types.size_align(cur)[0]
                    else:
                        o, cur = self.mod.types.field_offset(cur, ix)
                        total += o
            except Unresolved:
                return None
            return (b[0], b[1] + total)
        return None

    def _alloca_ptr_stores(self):
        """[(alloca name, offset, stored pointer value)] for `store ptr %v, ptr <alloca+const>`."""
        if hasattr(self, "_aps"):
            return self._aps
        out = []
        for lab in self.f.order:
            for ins in self.f.blocks[lab]:
                if ins.op == "store":
                    m = re.match(r"^store (?:volatile )?ptr (\S+), ptr (\S+?)(?:,|$)", ins.text)
                    if m:
                        a = self._addr_static(m.group(2))
                        if a is not None:
                            out.append((a[0], a[1], m.group(1)))
        self._aps = out
        return out

    def _subst_root(self, root, off, args, depth):
        """Callee-relative provenance -> caller-relative."""
        k = root[0]
        if k == "param":
            if root[1] >= len(args):
                return None
            a = args[root[1]]
            if not (a.startswith("%") or a.startswith("@")):
                return Prov(("null",), 0)
            p = self.prov(a, depth + 1)
            return Prov(p.root, None if (p.off is None or off is None) else p.off + off)
        if k == "loaded":
            inner = self._subst_root(root[1], root[2], args, depth)
            if inner is None:
                return None
            return Prov(("loaded", inner.root, inner.off), off)
        if k in ("global", "null"):
            return Prov(root, off)
        if k == "heap":
            return Prov(("heap", "callee:" + str(root[1])), off)
        if k == "multi":
            subs = [self._subst_root(r, None, args, depth) for r in root[1]]
            if any(x is None for x in subs):
                return None
            return Prov(("multi", tuple(sorted({x.root for x in subs}, key=str))), None)
        return None

    def _gep(self, body, depth):
        parts = split_top(body)
        ty = parts[0]
        base = re.sub(r"^ptr\s+", "", parts[1]).strip()
        p = self.prov(base, depth + 1)
        off = p.off
        idxs = []
        for a in parts[2:]:
            a = re.sub(r"^(i\d+)\s+", "", a).strip()
            idxs.append(parse_const(a) if re.match(r"^-?\d+$", a) else None)
        try:
            cur = ty
            total = 0
            for k, ix in enumerate(idxs):
                if k == 0:
                    if ix is None:
                        total = None
                        break
                    total += ix * self.mod.types.size_align(cur)[0]
                else:
                    if ix is None:
                        total = None
                        break
                    o, cur = self.mod.types.field_offset(cur, ix)
                    total += o
        except Unresolved:
            total = None
        if off is None or total is None:
            return Prov(p.root, None)
        return Prov(p.root, off + total)

    # -- effects ---------------------------------------------------------------------------
    def writes(self):
        """List of dicts: {kind, prov, size, value, instr} for every store / memset / memcpy / memmove destination."""
        out = []
        for lab in self.f.order:
            for ins in self.f.blocks[lab]:
                if ins.op == "store":
                    m = re.match(r"^store (?:volatile |atomic )?(.*)$", ins.text)
                    parts = split_top(m.group(1))
                    tv = parts[0]
                    ptr = re.sub(r"^ptr\s+", "", parts[1]).strip()
                    ty, val = self._split_typed(tv)
                    try:
                        size = self.mod.types.size_align(ty)[0]
                    except Unresolved:
                        size = None
                    out.append({"kind": "store", "prov": self.prov(ptr), "size": size, "type": ty, "value": val, "instr": ins})
                elif ins.op in ("call", "invoke"):
                    m = re.search(r"(" + GNAME + r")\s*\((.*)\)", ins.text)
                    if not m:
                        continue
                    cal = m.group(1)
                    if cal.startswith("@llvm.memset") or cal.startswith("@llvm.memcpy") or cal.startswith("@llvm.memmove") or cal in ("@memcpy", "@memset", "@memmove"):
                        args = split_top(self._call_args(ins.text))
                        dst = self._arg_value(args[0])
                        ln = parse_const(self._arg_value(args[2]))
                        d = {"kind": "memset" if "memset" in cal else "memcpy", "prov": self.prov(dst), "size": ln,
                             "value": self._arg_value(args[1]), "instr": ins}
                        if "memset" not in cal:
                            d["src"] = self.prov(self._arg_value(args[1]))
                        out.append(d)
        return out

    @staticmethod
    def _split_typed(tv):
        tv = tv.strip()
        # type may contain spaces (e.g. "<2 x double>"); value is the last token(s)
        m = re.match(r"^(<.*?>|\[.*?\]|\{.*?\}|\S+)\s+(.*)$", tv)
        return m.group(1), m.group(2).strip()

    @staticmethod
    def _call_args(text):
        m = re.search(GNAME + r"\s*\(", text)
        if not m:
            m = re.search(NAME + r"\s*\(", text)
        j = m.end()
        depth = 1
        k = j
        while depth and k < len(text):
            if text[k] == "(":
                depth += 1
            elif text[k] == ")":
                depth -= 1
            k += 1
        return text[j:k - 1]

    @staticmethod
    def _arg_value(a):
        a = a.strip()
        i = a.find("getelementptr") if KEEP_CONST_GEP else -1
        if i >= 0 and a.endswith(")") and re.match(r"getelementptr (?:inbounds )?\(", a[i:]):
            return a[i:]   # constant expression (address inside a global): keep it whole, without the parameter attributes
        m = re.search(r"(" + NAME + "|" + GNAME + r"|-?\d+(?:\.\d+e[+-]\d+)?|0x[0-9A-Fa-f]+|null|undef|poison|true|false|zeroinitializer)\s*$", a)
        return m.group(1) if m else a

    def calls(self):
        out = []
        for lab in self.f.order:
            for ins in self.f.blocks[lab]:
                if ins.op in ("call", "invoke"):
                    if re.search(r"\basm\b", ins.text.split("(")[0]):
                        continue   # inline asm (Eigen optimisation barriers): no memory effects modelled
                    m = re.search(r"(" + GNAME + r")\s*\(", ins.text)
                    if m:
                        cal = m.group(1)
                        args = [self._arg_value(a) for a in split_top(self._call_args(ins.text))]
                        out.append((cal, args, ins))
                    else:
                        m2 = re.search(r"(" + NAME + r")\s*\(", ins.text)
                        out.append((None, [self._arg_value(a) for a in split_top(self._call_args(ins.text))] if m2 else [], ins))
        return out

    # -- control dependence -------------------------------------------------------------------
    def control_deps(self):
        """block label -> set of condition value names (of conditional branches / switches) it is control dependent on
        (transitively)."""
        if self._cd is not None:
            return self._cd
        f = self.f
        labs = list(f.order)
        exits = [l for l in labs if not f.succ.get(l)]
        EXIT = "%__exit__"
        succ = {l: list(f.succ.get(l, [])) for l in labs}
        for e in exits:
            succ[e] = [EXIT]
        succ[EXIT] = []
        nodes = labs + [EXIT]
        pred = {l: [] for l in nodes}
        for a in nodes:
            for b in succ[a]:
                pred[b].append(a)
        # post-dominators: iterative data-flow on the reverse graph
        pdom = {l: set(nodes) for l in nodes}
        pdom[EXIT] = {EXIT}
        changed = True
        while changed:
            changed = False
            for l in reversed(nodes):
                if l == EXIT:
                    continue
                ss = succ[l]
                if not ss:
                    new = {l}
                else:
                    new = set.intersection(*[pdom[s] for s in ss]) | {l}
                if new != pdom[l]:
                    pdom[l] = new
                    changed = True
        # B is control dependent on A iff exists successor S of A with B in pdom(S) and B not strictly postdominating A
        direct = {l: set() for l in labs}
        for a in labs:
            if len(succ[a]) < 2:
                continue
            for s in succ[a]:
                for b in pdom.get(s, ()):  # nodes that postdominate s (incl. s)
                    if b == EXIT:
                        continue
                    if b not in pdom[a] or b == a:
                        direct[b].add(a)
        # transitive closure to condition values
        def cond_of(a):
            t = f.blocks[a][-1]
            if t.op == "br":
                m = re.match(r"^br i1 (\S+?),", t.text)
                return m.group(1) if m else None
            if t.op == "switch":
                m = re.match(r"^switch \S+ (\S+?),", t.text)
                return m.group(1) if m else None
            if t.op == "invoke":
                return None
            return None
        closure = {}
        for b in labs:
            seen = set()
            st = list(direct[b])
            while st:
                a = st.pop()
                if a in seen:
                    continue
                seen.add(a)
                st.extend(direct[a])
            closure[b] = {c for c in (cond_of(a) for a in seen) if c and c.startswith("%")}
        self._cd = closure
        return closure

    # -- value dependence -----------------------------------------------------------------------
    def operands(self, ins):
        """%names used as data operands of an instruction (labels excluded)."""
        t = ins.text
        t = re.sub(r"label " + NAME, "", t)
        if ins.op == "phi":
            vals = []
            for mm in re.finditer(r"\[\s*(.+?),\s*(" + NAME + r")\s*\]", t):
                vals.append((mm.group(1).strip(), mm.group(2)))
            return vals
        return [m.group(0) for m in re.finditer(NAME, t)]

    def deps(self, v):
        """Set of leaves the SSA value v depends on.  Leaves: ('mem', root, off) for loads from non-alloca memory,
        ('call', name) for opaque call results, ('param', k) for by-value parameters.
        Loads from allocas are forwarded (flow-insensitively, offset-sensitively) to the values stored there."""
        if v in self._dep:
            return self._dep[v]
        self._dep[v] = frozenset()   # cycle guard
        res = set()
        f = self.f
        if not v.startswith("%"):
            self._dep[v] = frozenset()
            return self._dep[v]
        pi = f.param_index(v)
        if pi is not None:
            res.add(("param", pi))
            self._dep[v] = frozenset(res)
            return self._dep[v]
        ins = f.defs.get(v)
        if ins is None:
            res.add(("unknown", v))
            self._dep[v] = frozenset(res)
            return self._dep[v]
        cd = self.control_deps()
        if ins.op == "load":
            m = re.match(r"^load (?:volatile |atomic )?(.*?), ptr (\S+?)(?:,|$| )", ins.text)
            ptr = m.group(2)
            p = self.prov(ptr)
            if p.root[0] == "alloca":
                # forward stores into this alloca
                for w in self._alloca_writes().get(p.root, []):
                    if p.off is None or w["off"] is None or self._overlap(p.off, self._load_size(m.group(1)), w["off"], w["size"]):
                        if w["kind"] == "store":
                            res |= self.deps(w["value"])
                        elif w["kind"] == "memcpy":
                            sp = w["src"]
                            res.add(("mem", sp.root, None if (sp.off is None or p.off is None or w["off"] is None) else sp.off + (p.off - w["off"])))
                        for c in cd.get(w["instr"].block, ()):
                            res |= self.deps(c)
            else:
                res.add(("mem", p.root, p.off))
                # address computation may depend on data (dynamic index)
                if p.off is None:
                    for o in self.operands(f.defs[ptr]) if ptr in f.defs else []:
                        if isinstance(o, str):
                            res |= self.deps(o)
        elif ins.op == "phi":
            for val, lab in self.operands(ins):
                if val.startswith("%"):
                    res |= self.deps(val)
                for c in cd.get(lab, ()):
                    res |= self.deps(c)
                # the edge itself may be decided by lab's terminator
                t = f.blocks[lab][-1] if f.blocks.get(lab) else None
                if t is not None and t.op == "br":
                    mm = re.match(r"^br i1 (\S+?),", t.text)
                    if mm and mm.group(1).startswith("%"):
                        res |= self.deps(mm.group(1))
                elif t is not None and t.op == "switch":
                    mm = re.match(r"^switch \S+ (\S+?),", t.text)
                    if mm and mm.group(1).startswith("%"):
                        res |= self.deps(mm.group(1))
        elif ins.op in ("call", "invoke"):
            m = re.search(r"(" + GNAME + r")\s*\(", ins.text)
            cal = m.group(1) if m else None
            args = [self._arg_value(a) for a in split_top(self._call_args(ins.text))] if "(" in ins.text else []
            if cal and (cal in PURE_FUNCS or cal.startswith("@llvm.")):
                for a in args:
                    if a.startswith("%"):
                        res |= self.deps(a)
            else:
                res.add(("call", cal or "indirect"))
                for a in args:
                    if a.startswith("%"):
                        res |= self.deps(a)
        elif ins.op == "alloca":
            pass
        else:
            for o in self.operands(ins):
                if isinstance(o, str) and o != v:
                    res |= self.deps(o)
        self._dep[v] = frozenset(res)
        return self._dep[v]

    def _load_size(self, ty):
        try:
            return self.mod.types.size_align(ty)[0]
        except Unresolved:
            return None

    @staticmethod
    def _overlap(o1, s1, o2, s2):
        if s1 is None or s2 is None:
            return True
        return o1 < o2 + s2 and o2 < o1 + s1

    def _alloca_writes(self):
        if hasattr(self, "_aw"):
            return self._aw
        aw = {}
        for w in self.writes():
            p = w["prov"]
            if p.root[0] == "alloca":
                aw.setdefault(p.root, []).append({"kind": w["kind"], "off": p.off, "size": w["size"], "value": w.get("value"),
                                                  "src": w.get("src"), "instr": w["instr"]})
        self._aw = aw
        return aw

    def store_deps(self, w):
        """Dependence leaves of a write: stored value + control dependence of the store's block."""
        res = set()
        if w["kind"] == "store":
            if w["value"].startswith("%"):
                res |= self.deps(w["value"])
        elif w["kind"] == "memcpy":
            sp = w["src"]
            res.add(("mem", sp.root, sp.off))
        for c in self.control_deps().get(w["instr"].block, ()):
            res |= self.deps(c)
        return res

    def const_value(self, val):
        """Numeric value if `val` is a literal constant, else None."""
        return parse_const(val)


def load_module(path):
    return Module(open(path).read())
