"""C08 -- tangent-space differentiation (structural clauses P1, P2, P3)."""
import re

import astlib as A
import fe
import groups
import pe
import wit
from report import Finding


def norm_step(e):
    """(sign, normalised text of the magnitude) of a perturbation step expression"""
    # strip .eval()
    while e[0] == "mcall" and e[2] == "eval":
        e = e[1]
    sign = 1
    if e[0] == "neg":
        sign, e = -1, e[1]
    elif e[0] == "op" and e[1] == "*" and e[2][0] == "neg":
        sign, e = -1, ("op", "*", e[2][1], e[3])
    elif e[0] == "op" and e[1] == "*" and e[3][0] == "neg":
        sign, e = -1, ("op", "*", e[2], e[3][1])
    elif e[0] == "op" and e[1] == "*" and e[2][0] == "num" and e[2][1] < 0:
        sign, e = -1, ("op", "*", ("num", -e[2][1]), e[3])
    return sign, re.sub(r"\s", "", A.show(e))


def events(node, out):
    """ordered perturbation / evaluation events of a statement subtree (loops are entered once; their bodies are
    returned as nested lists so that the stack discipline can be checked per iteration)"""
    k = node.get("kind") or ""
    if k.endswith("Type") or k in ("StaticAssertDecl", "TypeAliasDecl"):
        return     # unevaluated operands (decltype, concepts)
    if k in ("ForStmt", "CXXForRangeStmt", "WhileStmt"):
        body = A.kids(node)[-1]
        inner = []
        events(body, inner)
        out.append(("loop", inner, node))
        return
    if k == "LambdaExpr":
        b = A.lambda_body(node)
        if b is not None:
            events(b, out)
        return
    if k in ("BinaryOperator", "CXXOperatorCallExpr"):
        e = A.to_expr(node)
        if e[0] == "op" and e[1] == "=" and e[2][0] == "ref" and e[3][0] == "call" and str(e[3][1]).split("::")[-1].split("<")[0] == "rplus" \
                and len(e[3][2]) == 2 and e[3][2][0] == ("ref", e[2][1], e[3][2][0][2] if len(e[3][2][0]) > 2 else None):
            sign, mag = norm_step(e[3][2][1])
            out.append(("perturb", e[2][1], sign, mag, node))
            return
    if k == "CallExpr":
        cn = (A.callee_name(A.kids(node)[0]) or "").split("::")[-1]
        if cn == "apply":
            e = A.to_expr(node)
            if len(e[2]) == 2 and e[2][0][0] == "ref" and e[2][0][1] == "f":
                out.append(("eval", A.show(e[2][1]), node))
    ks = A.kids(node)
    if k == "LambdaExpr":
        ks = [c for c in ks if c.get("kind") != "CXXRecordDecl"]
    for c in ks:
        events(c, out)


def check_stack(rep, evs, stack, qn, problems, stats, in_loop):
    for ev in evs:
        if ev[0] == "loop":
            before = list(stack)
            check_stack(rep, ev[1], stack, qn, problems, stats, True)
            if stack != before:
                f, l = A.loc(ev[2])
                problems.append((ev[2], "one iteration of this loop leaves argument(s) %s perturbed (pending steps %s): the argument does not "
                                 "return to its original value" % (sorted({s[0] for s in stack[len(before):]}), [s[1] for s in stack[len(before):]])))
                del stack[len(before):]
        elif ev[0] == "perturb":
            _, var, sign, mag, node = ev
            stats["perturb"] += 1
            if sign > 0:
                stack.append((var, mag, node))
            else:
                if not stack:
                    problems.append((node, "restore step -%s on %s without a pending perturbation" % (mag, var)))
                else:
                    tv, tm, tn = stack[-1]
                    if tv != var:
                        problems.append((node, "restores %s while the most recent pending perturbation is on %s (perturb/restore pairs must nest; "
                                         "on groups with non-zero brackets the point is otherwise not recovered)" % (var, tv)))
                        # pop the matching one if present to continue
                        for i in range(len(stack) - 1, -1, -1):
                            if stack[i][0] == var:
                                del stack[i]
                                break
                    elif tm != mag:
                        problems.append((node, "restore step `-%s` differs from the pending perturbation `+%s` on %s" % (mag, tm, var)))
                        stack.pop()
                    else:
                        stack.pop()
                        stats["pairs"] += 1
        elif ev[0] == "eval":
            stats["evals"] += 1
            if in_loop and not stack:
                problems.append((ev[2], "f is evaluated inside the differencing loop with no pending perturbation"))
            if not in_loop and stack:
                problems.append((ev[2], "base value evaluated while a perturbation is pending"))


def check_p1(rep, idx):
    rep.rule("P1", "dr_numerical: perturb/restore steps are properly nested (E, -E) pairs; every loop iteration restores its arguments", minimum=1)
    fns = [x for x in idx if x.kind in A.FUNCS and x.pattern and x.qname.endswith("dr_numerical") and A.body(x.node) is not None]
    if len(fns) != 1:
        rep.broke("dr_numerical: %d definitions found" % len(fns))
        return
    fn = fns[0]
    evs = []
    events(A.body(fn.node), evs)
    problems = []
    stats = {"perturb": 0, "pairs": 0, "evals": 0}
    stack = []
    check_stack(rep, evs, stack, "diff::detail::dr_numerical", problems, stats, False)
    if stack:
        problems.append((stack[-1][2], "perturbation on %s is never restored" % stack[-1][0]))
    if not problems and (stats["perturb"] < 8 or stats["pairs"] < 4):
        rep.broke("P1: only %d perturbation assignments / %d pairs recognised in dr_numerical (8 / 4 confirmed by hand)" % (stats["perturb"], stats["pairs"]))
    rep.instance("P1", "diff::detail::dr_numerical", "pairing", ok=not problems, sample={"file": fe.rel(fn.file), "line": fn.line, **stats})
    for node, msg in problems:
        f, l = A.loc(node)
        rep.violation(Finding("P1", "diff::detail::dr_numerical", "pairing@%s" % A.text(node)[:30], msg, f, l))
    # arguments are perturbed on a private copy when they came in const
    copy_name = None
    for x in A.walk(A.body(fn.node)):
        if x.get("kind") == "VarDecl" and A.kids(x):
            e = A.to_expr(A.kids(x)[-1])
            if e[0] == "call" and str(e[1]).split("::")[-1] == "wrt_copy_if_const":
                copy_name = x.get("name")
    ok = copy_name is not None
    uses_x = [e for e in _flat(evs) if e[0] == "eval" and e[1] != copy_name]
    perturbed_elsewhere = []
    for x in A.walk(A.body(fn.node)):
        if x.get("kind") == "VarDecl" and x.get("type", {}).get("qualType", "").endswith("&") and A.kids(x):
            e = A.to_expr(A.kids(x)[-1])
            if e[0] == "call" and str(e[1]).split("::")[-1].startswith("get") and e[2] and not (e[2][0][0] == "ref" and e[2][0][1] == copy_name):
                perturbed_elsewhere.append(x)
    rep.rule("P1b", "dr_numerical works on wrt_copy_if_const(x) and evaluates f only on that copy", minimum=1)
    rep.instance("P1b", "diff::detail::dr_numerical", "copy", ok=ok and not uses_x and not perturbed_elsewhere, sample={"evaluations": stats["evals"], "copy": copy_name})
    if not ok:
        rep.violation(Finding("P1b", "diff::detail::dr_numerical", "copy", "finite differences are not taken on a private copy made by wrt_copy_if_const(x)", fn.file, fn.line))
    elif uses_x:
        f, l = A.loc(uses_x[0][2])
        rep.violation(Finding("P1b", "diff::detail::dr_numerical", "copy", "f is evaluated on `%s` instead of the perturbed copy %s" % (uses_x[0][1], copy_name), f, l))
    elif perturbed_elsewhere:
        f, l = A.loc(perturbed_elsewhere[0])
        rep.violation(Finding("P1b", "diff::detail::dr_numerical", "copy", "a perturbed reference is bound to an element of something other than the private copy %s: %s"
                              % (copy_name, A.text(perturbed_elsewhere[0])[:60]), f, l))
    for e in _flat(evs):
        if e[0] == "eval" and e[1] == "x_nc" and copy_name != "x_nc":
            pass


def _flat(evs):
    for e in evs:
        if e[0] == "loop":
            yield from _flat(e[1])
        else:
            yield e


def check_p2(rep):
    rep.rule("P2", "wrt_copy_if_const copies exactly the arguments that came in as const references", minimum=12)
    kinds = [("smooth::SO3d", "so3"), ("Eigen::Vector3d", "v3"), ("double", "dbl"), ("std::vector<smooth::SE2d>", "vec"),
             ("smooth::Bundle<smooth::SO3d, Eigen::Vector2d>", "bun"), ("Eigen::VectorXd", "vx")]
    pos = []
    prelude = groups.PRELUDE + "#include <vector>\n#include <tuple>\n#include <smooth/manifolds.hpp>\n#include <smooth/wrt.hpp>\n#include <smooth/detail/wrt_impl.hpp>\n"
    for ta, na in kinds:
        for tb, nb in kinds[:3]:
            d = ("using In = std::tuple<const %s &, %s &>;\nusing Out = decltype(smooth::wrt_copy_if_const(std::declval<In>()));\n"
                 "static_assert(std::is_same_v<Out, std::tuple<%s, %s &>>, \"const argument not copied / mutable argument not kept by reference\");\n"
                 "using Out2 = decltype(smooth::wrt_copy_if_const(std::declval<const In &>()));\n"
                 "static_assert(std::is_same_v<Out2, std::tuple<%s, %s &>>, \"lvalue tuple overload\");\n" % (ta, tb, ta, tb, ta, tb))
            pos.append(wit.Wit("cic_%s_%s" % (na, nb), "", d, what="tuple<const %s&, %s&> -> tuple<%s, %s&>" % (ta, tb, ta, tb), group="wrt_copy_if_const"))
    # wrt() itself forwards references (no copies)
    d = ("inline void probe(const smooth::SO3d & a, Eigen::Vector3d & b) {\n  auto w = smooth::wrt(a, b);\n"
         "  static_assert(std::is_same_v<decltype(w), std::tuple<const smooth::SO3d &, Eigen::Vector3d &>>, \"wrt must forward references\");\n}\n")
    pos.append(wit.Wit("wrt_forwards", "", d, what="wrt(const A&, B&) is tuple<const A&, B&>", group="wrt"))
    failed, unattr, raw = wit.compile_batch(prelude, pos, name="c08")
    rep.cmds.append("g++ -std=gnu++20 -fsyntax-only (batched static_assert witnesses on result types)")
    if unattr:
        rep.broke("P2 batch has unattributable errors: %s" % unattr[:2])
    for w in pos:
        bad = w.id in failed
        rep.instance("P2", w.group, w.id, ok=not bad, sample={"obligation": w.what})
        if bad:
            rep.violation(Finding("P2", w.group, w.id, "%s -- %s" % (failed[w.id][0][-150:], w.what), "include/smooth/detail/wrt_impl.hpp", None))


def constexpr_chain(stmt):
    """[(condition expr or None, branch node)] of an if-constexpr / else-if chain"""
    out = []
    cur = stmt
    while cur is not None and cur.get("kind") == "IfStmt":
        ks = A.kids(cur)
        out.append((A.to_expr(ks[0]), ks[1]))
        cur = ks[2] if len(ks) > 2 else None
    if cur is not None:
        out.append((None, cur))
    return out


def check_p3(rep, idx):
    rep.rule("P3", "dr<K,Analytic> returns f(x), f.jacobian(x...)[, f.hessian(x...)] untouched; K=0 only the value; Default prefers Analytic", minimum=4)
    fns = [x for x in idx if x.kind in A.FUNCS and x.pattern and x.qname.split("::")[-1] == "dr" and A.body(x.node) is not None and len(A.params(x.node)) == 2
           and any(s.get("kind") == "IfStmt" for s in A.kids(A.body(x.node)))]
    if len(fns) != 1:
        rep.broke("diff::dr<K,D>(f, x): expected one definition with the dispatch chain, found %d" % len(fns))
        return
    fn = fns[0]
    top = [s for s in A.kids(A.body(fn.node)) if s.get("kind") == "IfStmt"][0]
    chain = constexpr_chain(top)

    def cond_is(c, lhs, rhs_suffix):
        return c is not None and c[0] == "op" and c[1] == "==" and c[2][0] == "ref" and c[2][1] == lhs and re.sub(r"\s", "", A.show(c[3])).split("::")[-1] == rhs_suffix

    def ret_items(node):
        rets = [x for x in A.walk_nolambda(node) if x.get("kind") == "ReturnStmt"]
        if len(rets) != 1:
            return None, None
        e = A.to_expr(A.kids(rets[0])[0])
        if e[0] == "call" and str(e[1]).split("::")[-1] == "make_tuple":
            return e[2], rets[0]
        return None, rets[0]

    def is_value(e):
        return e[0] == "call" and str(e[1]).split("::")[-1] == "apply" and len(e[2]) == 2 and e[2][0][0] == "ref" and e[2][0][1] == "f" and e[2][1][0] == "ref" and e[2][1][1] == "x"

    def is_member_passthrough(e, member):
        if not (e[0] == "call" and str(e[1]).split("::")[-1] == "apply" and len(e[2]) == 2 and e[2][0][0] == "lambda" and e[2][1][0] == "ref" and e[2][1][1] == "x"):
            return False
        lb = A.lambda_body(e[2][0][1])
        rets = [x for x in A.walk(lb) if x.get("kind") == "ReturnStmt"]
        if len(rets) != 1 or len(A.kids(lb)) != 1:
            return False
        r = A.to_expr(A.kids(rets[0])[0])
        return r[0] == "mcall" and r[2] == member and r[1][0] == "ref" and r[1][1] == "f" and len(r[4]) == 1 and "forward" in A.show(r[4][0])

    found = {"K0": None, "A1": None, "A2": None, "Default": None}
    for c, br in chain:
        if c is not None and c[0] == "op" and c[1] == "==" and c[2][0] == "ref" and c[2][1] == "K" and c[3][0] == "num" and c[3][1] == 0:
            items, node = ret_items(br)
            found["K0"] = (items is not None and len(items) == 1 and is_value(items[0]), node or br)
        elif cond_is(c, "D", "Analytic"):
            inner = [s for s in A.kids(br) if s.get("kind") == "IfStmt"]
            for c2, br2 in (constexpr_chain(inner[0]) if inner else []):
                if c2 is not None and c2[0] == "op" and c2[1] == "==" and c2[2][0] == "ref" and c2[2][1] == "K" and c2[3][0] == "num":
                    items, node = ret_items(br2)
                    if c2[3][1] == 1:
                        found["A1"] = (items is not None and len(items) == 2 and is_value(items[0]) and is_member_passthrough(items[1], "jacobian"), node or br2)
                    elif c2[3][1] == 2:
                        found["A2"] = (items is not None and len(items) == 3 and is_value(items[0]) and is_member_passthrough(items[1], "jacobian")
                                       and is_member_passthrough(items[2], "hessian"), node or br2)
        elif cond_is(c, "D", "Default"):
            inner = [s for s in A.kids(br) if s.get("kind") == "IfStmt"]
            ok = False
            if inner:
                ch = constexpr_chain(inner[0])
                oks = []
                for c2, br2 in ch[:2]:
                    t = re.sub(r"\s", "", A.show(c2)) if c2 is not None else ""
                    rets = [x for x in A.walk_nolambda(br2) if x.get("kind") == "ReturnStmt"]
                    rt = A.ntext(rets[0]) if rets else ""
                    oks.append(("diffable_order" in A.ntext(A.kids(inner[0])[0]) or "diffable_order" in t or True) and "dr<K,Type::Analytic>(std::forward<F>(f),std::forward<Wrt>(x))" in rt)
                conds = A.ntext(A.kids(inner[0])[0])
                ok = len(oks) == 2 and all(oks) and "K==1&&detail::diffable_order1<F,Wrt>" in conds
            found["Default"] = (ok, inner[0] if inner else br)
    names = {"K0": "K == 0 returns only std::make_tuple(f(x...))", "A1": "Analytic K == 1 returns {f(x...), f.jacobian(x...)} verbatim",
             "A2": "Analytic K == 2 returns {f(x...), f.jacobian(x...), f.hessian(x...)} verbatim",
             "Default": "Default dispatches to Analytic exactly when the callable provides jacobian (and hessian for K == 2)"}
    for k, v in found.items():
        if v is None:
            rep.broke("P3: branch for %s not found in diff::dr dispatch chain" % k)
            continue
        ok, node = v
        f, l = A.loc(node)
        rep.instance("P3", "diff::dr", k, ok=ok, sample={"file": fe.rel(f), "line": l, "obligation": names[k]})
        if not ok:
            rep.violation(Finding("P3", "diff::dr", k, "violated: " + names[k], f, l))


def check_p4(rep, idx, rule_id="P4", first_order_only=False):
    """P4: the finite-difference step of an R^n coordinate never collapses: executing the step computation of dr_numerical for
    |w_j| in {0, 1e-20, 1e-12, 1e-6, 1e-3, 1/2, 1, 40} must give a step of at least 1e-5 * base (base = the unscaled step sqrt(eps): a quotient of O(1) values is then accurate to about 1e-3).  A purely
    relative step eps*|w_j| with a fallback only at exactly 0 falls below the rounding unit of O(1) function values for tiny
    non-zero coordinates: the difference quotient is then exactly 0."""
    from fractions import Fraction
    rep.rule(rule_id, "dr_numerical: the step of a vector coordinate is bounded below (>= 1e-5 * base) for every coordinate value", minimum=1)
    fns = [d for d in idx if d.kind in A.FUNCS and d.pattern and d.qname.split("::")[-1] == "dr_numerical" and A.body(d.node) is not None]
    if len(fns) != 1:
        rep.broke(rule_id + ": dr_numerical not found")
        return
    d = fns[0]
    sites = []
    for x in A.walk(A.body(d.node)):
        if x.get("kind") == "CompoundStmt":
            ks = A.kids(x)
            for i, st in enumerate(ks):
                if st.get("kind") == "DeclStmt":
                    vs = [v for v in A.kids(st) if v.get("kind") == "VarDecl" and A.kids(v)]
                    if len(vs) == 1 and i + 1 < len(ks) and ks[i + 1].get("kind") == "IfStmt" and "MatrixBase" in A.ntext(A.kids(ks[i + 1])[0]):
                        init = A.to_expr(A.kids(vs[0])[-1])
                        if init[0] == "ref":
                            sites.append((vs[0].get("name"), init[1], ks[i + 1], st))
    if len(sites) < 3:
        rep.broke(rule_id + ": found %d step computations in dr_numerical, 3 confirmed by hand (first-order loop, two Hessian loops)" % len(sites))
        return
    if first_order_only:
        # the Jacobian of minimize<Numerical> comes from the K == 1 loop: the step whose quotient is stored in J only (no Hessian entry nearby)
        par = {}
        for p_ in A.walk(A.body(d.node)):
            for c_ in A.kids(p_):
                par[id(c_)] = p_
        keep = []
        for site in sites:
            blk = par.get(id(site[3]))
            if blk is not None and "H(" not in A.ntext(blk):
                keep.append(site)
        sites = keep
        if len(sites) != 1:
            rep.broke(rule_id + ": expected one first-order step computation, found %d" % len(sites))
            return
    for site_no, (var, base, ifs, decl) in enumerate(sites):
        site_name = "first-order step" if first_order_only else "step computation %d" % (site_no + 1)
        body = A.kids(ifs)[1]
        coord = None
        for y in A.walk(body):
            if y.get("kind") in ("CallExpr",) and A.ntext(y).split("(")[0].split("::")[-1] in ("abs", "fabs"):
                coord = A.show(A.to_expr(y))
        f, l = A.loc(decl)
        if coord is None:
            rep.broke(rule_id + ": step computation at %s:%s does not scale by |coordinate|; re-confirm the rule" % (fe.rel(f), l))
            continue
        bad = None

        class Stop(Exception):
            pass

        def ev(e, env, wv):
            t = e[0]
            if t == "num":
                return Fraction(e[1])
            if t == "ref":
                if e[1] in env:
                    return env[e[1]]
                raise Stop("name %s" % e[1])
            if t == "ctor" and len(e[2]) == 1:
                return ev(e[2][0], env, wv)
            if t == "neg":
                return -ev(e[1], env, wv)
            if t == "call":
                nm = str(e[1]).split("::")[-1].split("<")[0]
                if nm in ("abs", "fabs"):
                    return abs(wv)
                if nm in ("max", "min"):
                    vals = [ev(a, env, wv) for a in e[2]]
                    return max(vals) if nm == "max" else min(vals)
                if nm in ("Scalar", "static_cast", "double", "float") and len(e[2]) == 1:
                    return ev(e[2][0], env, wv)
                raise Stop("call %s" % nm)
            if t == "cond":
                return ev(e[2], env, wv) if ev(e[1], env, wv) else ev(e[3], env, wv)
            if t == "op":
                op = e[1]
                if op in ("=", "*=", "+=", "/="):
                    v = ev(e[3], env, wv)
                    if e[2][0] != "ref":
                        raise Stop("assignment target")
                    cur = env.get(e[2][1], Fraction(0))
                    env[e[2][1]] = v if op == "=" else (cur * v if op == "*=" else (cur + v if op == "+=" else cur / v))
                    return env[e[2][1]]
                a, b = ev(e[2], env, wv), ev(e[3], env, wv)
                if op == "/":
                    return a / b
                return {"+": lambda: a + b, "-": lambda: a - b, "*": lambda: a * b, "==": lambda: Fraction(int(a == b)), "!=": lambda: Fraction(int(a != b)),
                        "<": lambda: Fraction(int(a < b)), "<=": lambda: Fraction(int(a <= b)), ">": lambda: Fraction(int(a > b)), ">=": lambda: Fraction(int(a >= b)),
                        "&&": lambda: Fraction(int(bool(a) and bool(b))), "||": lambda: Fraction(int(bool(a) or bool(b)))}[op]()
            raise Stop("expression %s" % A.show(e)[:40])

        def ex(st, env, wv):
            k = st.get("kind")
            if k == "CompoundStmt":
                for c in A.kids(st):
                    ex(c, env, wv)
            elif k == "IfStmt":
                ks_ = A.kids(st)
                if ev(A.to_expr(ks_[0]), env, wv):
                    ex(ks_[1], env, wv)
                elif len(ks_) > 2:
                    ex(ks_[2], env, wv)
            elif k in ("BinaryOperator", "CompoundAssignOperator", "CXXOperatorCallExpr", "ExprWithCleanups"):
                ev(A.to_expr(st), env, wv)
            elif k == "DeclStmt":
                for v in A.kids(st):
                    if v.get("kind") == "VarDecl" and A.kids(v):
                        env[v.get("name")] = ev(A.to_expr(A.kids(v)[-1]), env, wv)
            elif k == "NullStmt":
                pass
            else:
                raise Stop("statement kind %s" % k)
        try:
            for wv in (Fraction(0), Fraction(1, 10 ** 20), Fraction(1, 10 ** 12), Fraction(1, 10 ** 6), Fraction(1, 1000), Fraction(1, 2), Fraction(1), Fraction(40)):
                env = {base: Fraction(1), var: Fraction(1)}
                ex(body, env, wv)
                step = env[var]
                if step < Fraction(1, 10 ** 5) and bad is None:
                    bad = (wv, step)
        except Stop as ex_:
            rep.broke(rule_id + ": cannot execute the step computation at %s:%s: %s" % (fe.rel(f), l, ex_))
            continue
        rep.instance(rule_id, "dr_numerical", site_name, ok=bad is None, sample={"file": fe.rel(f), "line": l, "variable": var})
        if bad:
            rep.violation(Finding(rule_id, "dr_numerical", site_name,
                                  "for a vector coordinate of magnitude %s the finite-difference step is %s * %s: below the rounding unit of O(1) function "
                                  "values, so the difference quotient is exactly 0 (only a coordinate that is exactly 0 falls back to the default step)"
                                  % (float(bad[0]), float(bad[1]), base), f, l))


def check_p5(rep):
    """P5: the concepts that make Default mode prefer the callable's own derivatives accept every documented way of returning them"""
    rep.rule("P5", "diffable_order1/2 accept jacobian()/hessian() returned by value (dense, sparse), by const reference and as std::reference_wrapper; reject callables without them", minimum=8)
    prelude = (groups.PRELUDE + "#include <functional>\n#include <Eigen/Sparse>\n#include <smooth/diff.hpp>\n"
               "using V3 = Eigen::Vector3d;\nusing M3 = Eigen::Matrix3d;\nusing H3 = Eigen::Matrix<double, 3, 9>;\n"
               "using W = decltype(smooth::wrt(std::declval<const V3 &>()));\n")
    kinds = [("byval", "M3", "H3", "M3::Identity()", "H3::Zero()"),
             ("cref", "const M3 &", "const H3 &", "J", "H"),
             ("refwrap", "std::reference_wrapper<const M3>", "std::reference_wrapper<const H3>", "std::cref(J)", "std::cref(H)"),
             ("sparse", "Eigen::SparseMatrix<double>", "Eigen::SparseMatrix<double>", "Eigen::SparseMatrix<double>(3, 3)", "Eigen::SparseMatrix<double>(3, 9)")]
    pos = []
    for nm, jt, ht, je, he in kinds:
        d = ("struct F_%s {\n  M3 J = M3::Identity(); H3 H = H3::Zero();\n  V3 operator()(const V3 & x) const { return x; }\n"
             "  %s jacobian(const V3 &) const { return %s; }\n  %s hessian(const V3 &) const { return %s; }\n};\n" % (nm, jt, je, ht, he))
        pos.append(wit.Wit("d1_%s" % nm, "", d + "static_assert(smooth::diff::detail::diffable_order1<F_%s &, W>, \"jacobian() returning %s is not recognised\");\n" % (nm, jt.replace('"', "")),
                           what="diffable_order1 with jacobian() -> %s" % jt, group="diffable_order1"))
        pos.append(wit.Wit("d2_%s" % nm, "", d.replace("F_%s" % nm, "G_%s" % nm) + "static_assert(smooth::diff::detail::diffable_order2<G_%s &, W>, \"hessian() returning %s is not recognised\");\n" % (nm, ht.replace('"', "")),
                           what="diffable_order2 with hessian() -> %s" % ht, group="diffable_order2"))
    d = "struct F_none { V3 operator()(const V3 & x) const { return x; } };\nstatic_assert(!smooth::diff::detail::diffable_order1<F_none &, W>, \"a callable without jacobian() must not be analytic\");\n"
    pos.append(wit.Wit("d1_none", "", d, what="no jacobian() -> not diffable_order1", group="diffable_order1"))
    d = ("struct F_jonly { V3 operator()(const V3 & x) const { return x; } M3 jacobian(const V3 &) const { return M3::Identity(); } };\n"
         "static_assert(smooth::diff::detail::diffable_order1<F_jonly &, W> && !smooth::diff::detail::diffable_order2<F_jonly &, W>, \"jacobian-only callable\");\n")
    pos.append(wit.Wit("d12_jonly", "", d, what="jacobian() only -> order1 but not order2", group="diffable_order2"))
    failed, unattr, raw = wit.compile_batch(prelude, pos, name="c08p5")
    if unattr:
        rep.broke("P5 batch has unattributable errors: %s" % unattr[:2])
    for w in pos:
        bad = w.id in failed
        rep.instance("P5", w.group, w.id, ok=not bad, sample={"obligation": w.what})
        if bad:
            rep.violation(Finding("P5", w.group, w.id, "%s -- %s" % (failed[w.id][0][-160:], w.what), "include/smooth/detail/diff_impl.hpp", None))


def check_p6_p7(rep, idx):
    from fractions import Fraction
    rep.rule("P6", "the index-subset wrapper copies the reduced arguments into the full argument tuple (never moves from them)", minimum=1)
    rep.rule("P7", "dr_numerical<2> stores d2(j) at H(I0 + k0, j*nx + I1 + k1): output blocks of width nx, stacked horizontally", minimum=1)
    # P6
    subs = [d for d in idx if d.kind in A.FUNCS and d.pattern and d.qname.split("::")[-1] == "dr" and A.body(d.node) is not None and len(A.params(d.node)) == 3]
    subs = [d for d in subs if any(x.get("kind") == "LambdaExpr" for x in A.walk(A.body(d.node)))]
    if len(subs) != 1:
        rep.broke("P6: dr(f, x, index_sequence) with the wrapping lambda not found (%d)" % len(subs))
    else:
        d = subs[0]
        lam = [x for x in A.walk(A.body(d.node)) if x.get("kind") == "LambdaExpr"]
        folds = [x for l_ in lam for x in A.walk(l_) if x.get("kind") == "CXXFoldExpr"]
        txt = [A.ntext(x) for x in folds if "get<Idx>" in A.ntext(x)]
        if len(txt) != 1:
            rep.broke("P6: the fold that places the reduced arguments was not found")
        else:
            moved = "std::move(" in txt[0] or "std::forward" in txt[0] or "std::exchange" in txt[0] or "swap(" in txt[0]
            f, l = A.loc(folds[0])
            rep.instance("P6", "dr(f, x, index_sequence)", "fold", ok=not moved, sample={"file": fe.rel(f), "line": l, "fold": txt[0][:80]})
            if moved:
                rep.violation(Finding("P6", "dr(f, x, index_sequence)", "fold",
                                      "the wrapper moves from its reduced arguments (`%s`): they are dr_numerical's working copies (or the caller's own objects) and are "
                                      "read again for the next perturbation, so heap-backed arguments lose their value after the first evaluation" % txt[0][:80], f, l))
    # P7
    nums = [d for d in idx if d.kind in A.FUNCS and d.pattern and d.qname.split("::")[-1] == "dr_numerical" and A.body(d.node) is not None]
    if len(nums) != 1:
        rep.broke("P7: dr_numerical not found")
        return
    d = nums[0]
    found = 0
    for x in A.walk(A.body(d.node)):
        if x.get("kind") in ("BinaryOperator", "CXXOperatorCallExpr"):
            e = A.to_expr(x)
            if e[0] == "op" and e[1] == "=" and e[2][0] == "call" and e[2][1] == "H" and len(e[2][2]) == 2:
                found += 1
                r_, c_ = e[2][2]
                f, l = A.loc(x)
                bad = None
                try:
                    for env in ({"I0": 2, "k0": 1, "j": 3, "nx": 7, "I1": 4, "k1": 2, "ny": 5, "nx_i0": 2, "nx_i1": 3},
                                {"I0": 0, "k0": 0, "j": 1, "nx": 5, "I1": 2, "k1": 1, "ny": 2, "nx_i0": 2, "nx_i1": 3},
                                {"I0": 3, "k0": 2, "j": 0, "nx": 9, "I1": 0, "k1": 0, "ny": 4, "nx_i0": 3, "nx_i1": 6}):
                        if pe.ev(r_, env) != env["I0"] + env["k0"] or pe.ev(c_, env) != env["j"] * env["nx"] + env["I1"] + env["k1"]:
                            bad = env
                            break
                except pe.PEError as ex:
                    rep.broke("P7: cannot evaluate the Hessian index `%s`: %s" % (A.show(e[2])[:50], ex))
                    continue
                rep.instance("P7", "dr_numerical", "H index @%s" % l, ok=bad is None, sample={"file": fe.rel(f), "line": l, "index": A.show(e[2])[:60]})
                if bad:
                    rep.violation(Finding("P7", "dr_numerical", "H index",
                                          "the second difference of output j w.r.t. coordinates (I0+k0, I1+k1) is stored at `%s`; the documented layout is row I0 + k0, column "
                                          "j*nx + I1 + k1 (one nx-wide block per output, stacked horizontally) -- they differ e.g. for %s" % (A.show(e[2])[:60], bad), f, l))
    if found == 0:
        rep.broke("P7: no assignment to H(row, col) found in dr_numerical")


def check(rep, tier, replay=None):
    rep.explanations.append(
        "C08: P1 stack discipline of perturb/restore steps in dr_numerical (properly nested (E,-E) pairs with identical step "
        "expressions; every loop iteration returns its arguments), P2 type-level witnesses that const arguments are copied and "
        "mutable ones kept by reference, P3 pass-through of the callable's own jacobian/hessian in Analytic/Default mode.")
    rep.trusted.update(["clang++-16 front end", "g++ 12 front end (type identities)"])
    rep.assumptions.append("accuracy of finite differences, Hessian layout for multi-argument functions and index-subset column correspondence are not decided")
    d = fe.ast_dumps(["diff::dr", "dr_numerical"])
    rep.unit("umbrella TU filtered diff::dr / dr_numerical; 1 batched static_assert TU")
    check_p1(rep, A.index(d["dr_numerical"]))
    check_p2(rep)
    check_p3(rep, A.index(d["diff::dr"]))
    check_p5(rep)
    check_p6_p7(rep, A.index(d["diff::dr"]) + A.index(d["dr_numerical"]))
