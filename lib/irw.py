"""IR witness sets: generate extern "C" witness functions, compile them in parallel chunks to optimized IR,
and hand back per-witness FuncFacts."""
import os

import fe
import ir


class IRW:
    def __init__(self, name, prelude, fastmath=False, exceptions=False, vectorize=False, chunk=12, extra_flags=()):
        self.name = name
        self.prelude = prelude
        self.fastmath = fastmath
        self.exceptions = exceptions
        self.vectorize = vectorize
        self.chunk = chunk
        self.extra = list(extra_flags)
        self.wits = []   # (fname, signature, body, meta)

    def add(self, fname, sig, body, **meta):
        self.wits.append((fname, sig, body, meta))

    def build(self):
        """Returns dict fname -> (FuncFacts, meta, Module).  Raises fe.Broken if a TU does not compile."""
        d = os.path.join(fe.scratch(), "irw_" + self.name)
        os.makedirs(d, exist_ok=True)
        chunks = [self.wits[i:i + self.chunk] for i in range(0, len(self.wits), self.chunk)]
        jobs = []
        for ci, ch in enumerate(chunks):
            src = os.path.join(d, "c%d.cpp" % ci)
            with open(src, "w") as fh:
                fh.write(self.prelude)
                fh.write("\n")
                for fname, sig, body, meta in ch:
                    fh.write('extern "C" void %s(%s) {\n%s\n}\n' % (fname, sig, body))
            jobs.append((src, os.path.join(d, "c%d.ll" % ci)))

        def comp(job):
            fe.compile_ir(job[0], job[1], fastmath=self.fastmath, exceptions=self.exceptions, vectorize=self.vectorize,
                          extra=self.extra)
            return ir.load_module(job[1])

        mods = fe.parallel(comp, jobs)
        out = {}
        for ch, mod in zip(chunks, mods):
            for fname, sig, body, meta in ch:
                f = mod.funcs.get("@" + fname)
                if f is None:
                    raise fe.Broken("witness %s missing from IR" % fname)
                out[fname] = (ir.FuncFacts(mod, f), meta, mod)
        return out


def write_ranges(ff, param):
    """Sorted list of (offset, size) byte ranges written through parameter `param` (directly, const offsets);
    second result: list of problems (non-constant offsets / unknown sizes)."""
    rs = []
    problems = []
    for w in ff.writes():
        p = w["prov"]
        if p.root == ("param", param):
            if p.off is None or w["size"] is None:
                problems.append("non-constant offset/size write through param %d: %s" % (param, w["instr"].text[:100]))
            else:
                rs.append((p.off, w["size"]))
    return sorted(set(rs)), problems


def covered(rs):
    """Set of bytes covered by ranges."""
    s = set()
    for o, n in rs:
        s.update(range(o, o + n))
    return s


def foreign_writes(ff, allowed_params):
    """Writes whose destination is neither an allowed parameter, nor an alloca, nor fresh heap."""
    out = []
    for w in ff.writes():
        root = w["prov"].root
        k = ir.root_kind(root)
        rp = ir.root_param(root)
        if root[0] == "param" and root[1] in allowed_params:
            continue
        if k in ("alloca", "heap"):
            continue
        out.append(w)
    return out


def cell_writes(ff, out_param, ssize):
    """Per output cell (index in scalars) the list of writes: dicts {const: number|None, deps: set, text}.
    memset / memcpy with constant length are expanded cell-wise.  Returns (cells, problems)."""
    cells = {}
    problems = []
    for w in ff.writes():
        p = w["prov"]
        roots = ir.flat_roots(p.root)
        if ("param", out_param) not in roots:
            continue
        if len(roots) > 1 or p.off is None or w["size"] is None:
            problems.append("write to the output with non-constant offset/size: %s" % w["instr"].text[:100])
            continue
        cd = set()
        for c in ff.control_deps().get(w["instr"].block, ()):
            cd |= ff.deps(c)
        if w["kind"] == "store":
            n = max(1, w["size"] // ssize)
            if w["size"] % ssize:
                problems.append("store of %d bytes not a multiple of the scalar size: %s" % (w["size"], w["instr"].text[:100]))
                continue
            if n == 1:
                cv = ff.const_value(w["value"])
                deps = set(cd)
                if cv is None:
                    deps |= ff.deps(w["value"]) if w["value"].startswith("%") else set()
                    if not w["value"].startswith("%"):
                        problems.append("store of a non-numeric constant: %s" % w["instr"].text[:100])
                cells.setdefault(p.off // ssize, []).append({"const": cv, "deps": deps, "text": w["instr"].text[:100]})
            else:
                # vector store: element-wise constants "<double 0.0, double 1.0>" or zeroinitializer, else whole-value deps
                v = w["value"]
                elems = None
                if v == "zeroinitializer":
                    elems = [0.0] * n
                elif v.startswith("<"):
                    parts = ir.split_top(v[1:-1])
                    vals = [ir.parse_const(x.split()[-1]) for x in parts]
                    if all(x is not None for x in vals) and len(vals) == n:
                        elems = vals
                for k in range(n):
                    if elems is not None:
                        cells.setdefault(p.off // ssize + k, []).append({"const": elems[k], "deps": set(cd), "text": w["instr"].text[:100]})
                    else:
                        deps = set(cd) | (ff.deps(v) if v.startswith("%") else set())
                        cells.setdefault(p.off // ssize + k, []).append({"const": None, "deps": deps, "text": w["instr"].text[:100]})
        elif w["kind"] == "memset":
            val = ff.const_value(w["value"])
            if val is None:
                problems.append("memset with non-constant value: %s" % w["instr"].text[:100])
                continue
            for k in range(p.off // ssize, (p.off + w["size"]) // ssize):
                cells.setdefault(k, []).append({"const": 0.0 if val == 0 else float("nan"), "deps": set(cd), "text": w["instr"].text[:100]})
        else:  # memcpy
            sp = w["src"]
            for k in range(w["size"] // ssize):
                so = None if sp.off is None else sp.off + k * ssize
                cells.setdefault(p.off // ssize + k, []).append({"const": None, "deps": set(cd) | {("mem", sp.root, so)}, "text": w["instr"].text[:100]})
    return cells, problems


def loads_after_stores(ff, dst_param, src_params):
    """Loads through any of `src_params` (or the destination itself) that may execute after a store through `dst_param`
    (same block later in program order, or in a block reachable from a storing block).  Returns list of (load text, store text)."""
    f = ff.f
    store_pos = {}   # block -> index of first store to dst
    load_pos = {}    # block -> list of (index, text)
    first_store_text = {}
    for lab in f.order:
        for ins in f.blocks[lab]:
            if ins.op == "store" or (ins.op in ("call", "invoke") and ("@llvm.mem" in ins.text)):
                pass
    for w in ff.writes():
        roots = ir.flat_roots(w["prov"].root)
        if ("param", dst_param) in roots:
            b = w["instr"].block
            if b not in store_pos or w["instr"].idx < store_pos[b]:
                store_pos[b] = w["instr"].idx
                first_store_text[b] = w["instr"].text[:90]
    import re as _re
    for lab in f.order:
        for ins in f.blocks[lab]:
            src = None
            if ins.op == "load":
                m = _re.match(r"^load (?:volatile )?(.*?), ptr (\S+?)(?:,|$| )", ins.text)
                src = m.group(2) if m else None
            elif ins.op in ("call", "invoke") and ("@llvm.memcpy" in ins.text or "@llvm.memmove" in ins.text):
                args = ir.split_top(ff._call_args(ins.text))
                src = ff._arg_value(args[1])
            if src is None:
                continue
            p = ff.prov(src)
            for r in ir.flat_roots(p.root):
                if r[0] == "param" and (r[1] in src_params or r[1] == dst_param):
                    load_pos.setdefault(lab, []).append((ins.idx, ins.text[:90]))
    # reachability
    reach = {}
    for b in store_pos:
        seen = set()
        st = list(f.succ.get(b, []))
        while st:
            x = st.pop()
            if x in seen:
                continue
            seen.add(x)
            st.extend(f.succ.get(x, []))
        reach[b] = seen
    out = []
    for b, si in store_pos.items():
        for (li, lt) in load_pos.get(b, []):
            if li > si:
                out.append((lt, first_store_text[b]))
        for rb in reach[b]:
            for (li, lt) in load_pos.get(rb, []):
                if rb == b and li <= si:
                    continue
                out.append((lt, first_store_text[b]))
    return out
