"""C15 -- representation invariants survive any history of operations (sign / normalisation clauses).

R1 (I) canonical hemisphere is an inductive invariant of every operation that produces an SO3 part: in the optimized IR of
       API-level witnesses the value stored to every q_w cell is (a) of the shape |v| (select/phi between v and -v under the
       comparison v < 0, or fabs), or (b) a verbatim load of an input's q_w cell (copy / conjugation), or (c) a constant >= 0;
       and whenever the q_w cell takes the flipped value the three other quaternion cells are flipped under the same condition.
R2 (A) who may write a rotation sub-range: in SE2/SE3/Galilei/SE_K_3 Impl every write access to the rotation part of an
       output goes through an SO2Impl/SO3Impl function or copies a value produced by one (setIdentity is the tabled exception).
R3 (A) normalising constructors divide by the norm of their inputs / call normalized().
"""
import re

import astlib as A
import fe
import groups
import ir
import irw
from report import Finding


# ---------------------------------------------------------------------------------------------
# R1
# ---------------------------------------------------------------------------------------------

def sign_shape(ff, v, depth=0):
    """Classify SSA value v: ('abs', X) if v == |X| by construction, ('load', prov) verbatim load, ('const', c), else ('other', txt).
    For 'abs' also returns the flip condition value name (or None for fabs)."""
    if depth > 6:
        return ("other", "depth")
    c = ir.parse_const(v)
    if c is not None:
        return ("const", c)
    ins = ff.f.defs.get(v)
    if ins is None:
        return ("other", v)
    if ins.op == "load":
        m = re.match(r"^load (?:volatile )?(.*?), ptr (\S+?)(?:,|$| )", ins.text)
        return ("load", ff.prov(m.group(2)))
    if ins.op in ("call",) and "@llvm.fabs" in ins.text:
        return ("abs", None, None)
    if ins.op == "select":
        parts = ir.split_top(ins.text[len("select"):].replace("fast ", "").replace("nnan ", "").replace("ninf ", "").replace("nsz ", ""))
        cond = parts[0].split()[-1]
        a = parts[1].split()[-1]
        b = parts[2].split()[-1]
        return _abs_pair(ff, cond, a, b, v)
    if ins.op == "phi":
        inc = re.findall(r"\[\s*(.+?),\s*(" + ir.NAME + r")\s*\]", ins.text)
        if len(inc) == 2:
            (va, la), (vb, lb) = inc
            # find the conditional branch deciding between the two predecessors
            for lab, other in ((la, lb), (lb, la)):
                pass
            # candidate: one predecessor block P ends in `br i1 %c, label %T, label %M` where M is this block and T the other pred
            blk = ins.block
            for (vx, lx), (vy, ly) in (((va, la), (vb, lb)), ((vb, lb), (va, la))):
                t = ff.f.blocks[ly][-1]
                m = re.match(r"^br i1 (\S+?), label (\S+?), label (\S+)$", t.text.strip())
                if m and ((m.group(2) == lx and m.group(3) == blk) or (m.group(3) == lx and m.group(2) == blk)):
                    cond = m.group(1)
                    taken_is_true = m.group(2) == lx
                    # value vx is used when the branch goes through lx
                    r = _abs_pair(ff, cond, vx if taken_is_true else vy, vy if taken_is_true else vx, v)
                    if r[0] == "abs":
                        return r
        return ("other", ins.text[:80])
    return ("other", ins.text[:80])


def _neg_of(ff, a):
    """X if a == fneg X (or fsub -0.0, X / fmul X, -1.0), else None"""
    ins = ff.f.defs.get(a)
    if ins is None:
        return None
    if ins.op == "fneg":
        return re.findall(ir.NAME, ins.text)[-1]
    if ins.op == "fmul" and re.search(r"-1\.000000e\+00", ins.text):
        ns = re.findall(ir.NAME, ins.text)
        return ns[0] if len(ns) == 1 else None
    if ins.op == "fsub" and re.search(r"fsub (?:\w+ )*(?:double|float) -?0\.0+e\+00, ", ins.text):
        return re.findall(ir.NAME, ins.text)[-1]
    return None


def _abs_pair(ff, cond, v_true, v_false, res):
    """select(cond, v_true, v_false): is it |X| ?  cond must be fcmp (o|u)lt X, 0  with v_true = -X, v_false = X (or mirrored)"""
    ci = ff.f.defs.get(cond)
    if ci is None or ci.op != "fcmp":
        return ("other", "condition is not a floating comparison")
    m = re.match(r"^fcmp (?:\w+ )*?(olt|ult|ogt|ugt|ole|ule|oge|uge) (?:double|float) (\S+?), (\S+)$", ci.text.strip())
    if not m:
        return ("other", ci.text[:60])
    pred, lhs, rhs = m.group(1), m.group(2), m.group(3)
    zero_r = ir.parse_const(rhs) == 0
    zero_l = ir.parse_const(lhs) == 0
    x = None
    neg_when_true = None
    if zero_r and pred in ("olt", "ult", "ole", "ule"):
        x, neg_when_true = lhs, True       # X < 0
    elif zero_r and pred in ("ogt", "ugt", "oge", "uge"):
        x, neg_when_true = lhs, False      # X > 0
    elif zero_l and pred in ("ogt", "ugt", "oge", "uge"):
        x, neg_when_true = rhs, True       # 0 > X
    elif zero_l and pred in ("olt", "ult", "ole", "ule"):
        x, neg_when_true = rhs, False
    if x is None:
        return ("other", "comparison is not against zero")
    vneg, vpos = (v_true, v_false) if neg_when_true else (v_false, v_true)
    if vpos == x and _neg_of(ff, vneg) == x:
        return ("abs", cond, neg_when_true)
    return ("other", "select arms are not (-X, X) of the compared value")


def positive(ff, v, depth=0):
    """v > 0 whenever finite and inputs are not all zero: sums of squares, positive constants, sqrt of those"""
    if depth > 8:
        return False
    c = ir.parse_const(v)
    if c is not None:
        return c > 0
    ins = ff.f.defs.get(v)
    if ins is None:
        return False
    names = re.findall(ir.NAME, ins.text)
    if ins.op == "fmul":
        ops = _operands(ins)
        return len(ops) == 2 and (ops[0] == ops[1] or all(positive(ff, o, depth + 1) for o in ops))
    if ins.op == "fadd":
        return all(positive(ff, o, depth + 1) for o in _operands(ins))
    if ins.op == "call" and "@llvm.fmuladd" in ins.text:
        args = [ff._arg_value(a) for a in ir.split_top(ff._call_args(ins.text))]
        return len(args) == 3 and (args[0] == args[1]) and positive(ff, args[2], depth + 1)
    if ins.op == "call" and re.search(r"@sqrtf?\b|@llvm\.sqrt", ins.text):
        args = [ff._arg_value(a) for a in ir.split_top(ff._call_args(ins.text))]
        return positive(ff, args[0], depth + 1)
    return False


def _operands(ins):
    body = re.sub(r"^\w+ (?:(?:fast|nnan|ninf|nsz|arcp|contract|afn|reassoc) )*(?:double|float) ", "", ins.text)
    return [x.strip() for x in body.split(",")[:2]]


def sign_factor(ff, s):
    """(X, cond, neg_when_true, k) when s == select(cond, a, b) with constants a = -b != 0 that is negative exactly when X < 0 (cond compares X with 0):
    the branch-free idiom  sign = (w < 0 ? -1 : 1);  q = sign * q"""
    ins = ff.f.defs.get(s)
    if ins is None or ins.op != "select":
        return None
    parts = ir.split_top(ins.text[len("select"):])
    cond = parts[0].split()[-1]
    a, b = ir.parse_const(parts[1].split()[-1]), ir.parse_const(parts[2].split()[-1])
    if a is None or b is None or a != -b or a == 0:
        return None
    ci = ff.f.defs.get(cond)
    if ci is None or ci.op != "fcmp":
        return None
    m = re.match(r"^fcmp (?:\w+ )*?(olt|ult|ogt|ugt|ole|ule|oge|uge) (?:double|float) (\S+?), (\S+)$", ci.text.strip())
    if not m:
        return None
    pred, lhs, rhs = m.group(1), m.group(2), m.group(3)
    zero_r, zero_l = ir.parse_const(rhs) == 0, ir.parse_const(lhs) == 0
    if zero_r and pred in ("olt", "ult", "ole", "ule"):
        x, neg_when_true = lhs, True
    elif zero_r and pred in ("ogt", "ugt", "oge", "uge"):
        x, neg_when_true = lhs, False
    elif zero_l and pred in ("ogt", "ugt", "oge", "uge"):
        x, neg_when_true = rhs, True
    elif zero_l and pred in ("olt", "ult", "ole", "ule"):
        x, neg_when_true = rhs, False
    else:
        return None
    # value of the factor when cond is true is a: it must be negative exactly in the "X negative" case
    neg_case_value = a if neg_when_true else b
    if not neg_case_value < 0:
        return None
    return (x, cond, neg_when_true, abs(a))


def nonneg(ff, v, in_wcells, ss, outp, depth=0):
    """(ok, kind, flip) : v >= 0 provided every input q_w cell is >= 0 (inductive invariant)."""
    if depth > 8:
        return (False, "too deep", None)
    sh = sign_shape(ff, v)
    if sh[0] == "abs":
        return (True, "abs", (sh[1], sh[2]) if sh[1] is not None else None)
    if sh[0] == "const":
        return (sh[1] >= 0, "const", None)
    if sh[0] == "load":
        p = sh[1]
        if p.root[0] == "param" and p.off is not None and (p.root[1], p.off // ss) in in_wcells:
            return (True, "copy", None)
        return (False, "load from %s which is not a q_w cell of an input" % (p,), None)
    ins = ff.f.defs.get(v)
    if ins is None:
        return (False, sh[1], None)
    if ins.op == "fmul":
        ops = _operands(ins)
        if len(ops) == 2:
            for a, b in ((ops[0], ops[1]), (ops[1], ops[0])):
                sf = sign_factor(ff, a)
                if sf is not None and sf[0] == b:
                    return (True, "abs", ("factor", a, sf))          # sign(X) * X = |X|
    if ins.op in ("fdiv", "fmul"):
        ops = _operands(ins)
        if len(ops) == 2:
            for a, b in ((ops[0], ops[1]), (ops[1], ops[0])):
                if ins.op == "fdiv" and a is ops[1]:
                    continue     # only numerator may carry the sign
                r = nonneg(ff, a, in_wcells, ss, outp, depth + 1)
                if r[0] and (positive(ff, b) if not (ir.parse_const(b) is not None) else ir.parse_const(b) > 0):
                    return (True, "scaled-" + r[1], r[2])
    if ins.op == "phi":
        inc = re.findall(r"\[\s*(.+?),\s*(" + ir.NAME + r")\s*\]", ins.text)
        rs = [nonneg(ff, val.strip(), in_wcells, ss, outp, depth + 1) for val, _ in inc]
        if all(r[0] for r in rs):
            return (True, "phi(" + ",".join(sorted({r[1] for r in rs})) + ")", None)
    if ins.op == "select":
        parts = ir.split_top(ins.text[len("select"):])
        rs = [nonneg(ff, parts[i].split()[-1], in_wcells, ss, outp, depth + 1) for i in (1, 2)]
        if all(r[0] for r in rs):
            return (True, "select", None)
    return (False, "value is not non-negative by construction: %s" % ins.text[:70], None)


def flipped_with(ff, v, cond, neg_when_true, _depth=0):
    """is v == select/phi(cond, -Y, Y) for some Y (same condition as the q_w flip), or a (signed) zero constant?"""
    c = ir.parse_const(v)
    if c is not None:
        return c == 0
    ins = ff.f.defs.get(v)
    if ins is None:
        return False
    if cond == "factor":
        # q_w = s * w with the sign factor s: the vector cells must be multiplied by the same factor
        s_name, sf = neg_when_true
        if ins.op == "fmul":
            for a in _operands(ins):
                if a == s_name:
                    return True
                sf2 = sign_factor(ff, a)
                if sf2 is not None and sf2[:3] == sf[:3]:
                    return True
        return False
    if ins.op in ("fmul", "fdiv") and _depth < 6:
        # (the flip folded into a factor) * x: negated under the condition exactly when one of the two factors is (an odd number of sign flips)
        ops = _operands(ins)
        fl = [a for a in ops if ir.parse_const(a) is None and flipped_with(ff, a, cond, neg_when_true, _depth + 1)]
        if len(ops) == 2 and len(fl) == 1:
            return True
    if ins.op == "select":
        parts = ir.split_top(ins.text[len("select"):])
        c = parts[0].split()[-1]
        a = parts[1].split()[-1]
        b = parts[2].split()[-1]
        if ir.parse_const(a) == 0 and ir.parse_const(b) == 0:
            return True
        if c != cond:
            return False
        vneg, vpos = (a, b) if neg_when_true else (b, a)
        return _neg_of(ff, vneg) == vpos
    if ins.op == "phi":
        inc = re.findall(r"\[\s*(.+?),\s*(" + ir.NAME + r")\s*\]", ins.text)
        if len(inc) == 2:
            (va, la), (vb, lb) = inc
            va, vb = va.strip(), vb.strip()
            if ir.parse_const(va) == 0 and ir.parse_const(vb) == 0:
                return True
            return _neg_of(ff, va) == vb or _neg_of(ff, vb) == va
    return False


def r1_witnesses(tier, only_conversions=False):
    W = irw.IRW("c15", groups.PRELUDE + "#include <Eigen/Geometry>\n", chunk=6)
    gs = [g for g in groups.catalogue(tier) if g.scalar == "double" or tier == "thorough"]
    out = []

    def wcells(g, base=0):
        """indices (in scalars) of q_w cells inside group g's representation"""
        cells = []
        if g.key.startswith("SO3"):
            return [base + 3]
        for pt in g.parts:
            if pt.kind == "group" and pt.ctype and "SO3<" in pt.ctype and "Bundle" not in pt.ctype and "SE" not in pt.ctype and "Galilei" not in pt.ctype:
                cells.append(base + pt.off + 3)
        if g.members:
            off = 0
            cells = []
            for m in g.members:
                cells += wcells(m, base + off)
                off += m.rep
        return cells
    for g in ([] if only_conversions else gs):
        wc = wcells(g)
        if not wc:
            continue
        S = g.scalar
        pre = "  using GT = %s; using S_ = %s;\n" % (g.ctype, S)
        two = "const %s* a, const %s* b, %s* out" % (S, S, S)
        m2 = "  smooth::Map<const GT> x(a), y(b); smooth::Map<GT> o(out);\n"
        tan = "  Eigen::Map<const Eigen::Matrix<S_, GT::Dof, 1>> t(b);\n"
        ops = {
            "compose": (two, pre + m2 + "  o = x * y;\n", [0, 1]),
            "inverse": (two, pre + m2 + "  o = x.inverse();\n", [0]),
            "exp": (two, pre + "  smooth::Map<GT> o(out);\n" + tan + "  o = GT::exp(t);\n", []),
            "rplus": (two, pre + "  smooth::Map<const GT> x(a); smooth::Map<GT> o(out);\n" + tan + "  o = x + t;\n", [0]),
            "muleq": ("%s* out, const %s* b" % (S, S), pre + "  smooth::Map<GT> o(out); smooth::Map<const GT> y(b);\n  o *= y;\n", None),
            "pluseq": ("%s* out, const %s* b" % (S, S), pre + "  smooth::Map<GT> o(out);\n" + tan + "  o += t;\n", None),
            "chain": (two, pre + m2 + "  o = (x * y.inverse()) * GT::exp((y - x) * S_(0.5));\n", [0, 1]),
        }
        for op, (sig, body, _) in ops.items():
            W.add("r1_%s_%s" % (g.key, op), sig, body, g=g, op=op, wcells=wc)
    # constructors / conversions producing SO3 parts
    W.add("r1_SO3d_from_quat", "const double* a, const double* b, double* out",
          "  Eigen::Map<const Eigen::Quaterniond> q(a); smooth::Map<smooth::SO3d> o(out);\n  o = smooth::SO3d(q);\n", g=None, op="SO3(quaternion)", wcells=[3])
    for ax in "xyz":
        W.add("r1_SO3d_rot_%s" % ax, "const double* a, const double* b, double* out",
              "  smooth::Map<smooth::SO3d> o(out);\n  o = smooth::SO3d::rot_%s(a[0]);\n" % ax, g=None, op="rot_" + ax, wcells=[3])
    W.add("r1_SO2d_lift_so3", "const double* a, const double* b, double* out",
          "  smooth::Map<const smooth::SO2d> x(a); smooth::Map<smooth::SO3d> o(out);\n  o = x.lift_so3();\n", g=None, op="lift_so3", wcells=[3])
    W.add("r1_SE2d_lift_se3", "const double* a, const double* b, double* out",
          "  smooth::Map<const smooth::SE2d> x(a); smooth::Map<smooth::SE3d> o(out);\n  o = x.lift_se3();\n", g=None, op="lift_se3", wcells=[6])
    W.add("r1_SE3d_from_isometry", "const double* a, const double* b, double* out",
          "  Eigen::Map<const Eigen::Matrix4d> m(a); Eigen::Isometry3d t; t.matrix() = m; smooth::Map<smooth::SE3d> o(out);\n  o = smooth::SE3d(t);\n",
          g=None, op="SE3(isometry)", wcells=[6])
    W.add("r1_SE3d_from_parts", "const double* a, const double* b, double* out",
          "  smooth::Map<const smooth::SO3d> r(a); Eigen::Map<const Eigen::Vector3d> p(b); smooth::Map<smooth::SE3d> o(out);\n  o = smooth::SE3d(r, p);\n",
          g=None, op="SE3(so3, r3)", wcells=[6])
    return W


def check_r1(rep, tier, only_conversions=False):
    rep.rule("R1", "every produced q_w cell is |v| by construction, a verbatim copy of an input q_w, or a constant >= 0; xyz flipped with it",
             minimum=8 if only_conversions else 30)
    W = r1_witnesses(tier, only_conversions)
    facts = W.build()
    rep.unit("%d canonical-sign witnesses" % len(W.wits))
    for fname, (ff, meta, mod) in sorted(facts.items()):
        g = meta["g"]
        ss = g.ssize if g else 8
        outp = 0 if fname.endswith(("_muleq", "_pluseq")) else 2
        name = g.ctype if g else "conversion"
        try:
            ws = ff.writes()
        except ir.Unresolved as e:
            rep.broke("%s: %s" % (fname, e))
            continue
        bad = None
        kinds = []
        # q_w cells of the inputs (same layout as the output for group-valued inputs)
        in_wcells = set()
        sig_params = len(ff.f.params)
        group_inputs = {"compose": [0, 1], "inverse": [0], "rplus": [0], "chain": [0, 1], "muleq": [0, 1], "pluseq": [0], "exp": []}.get(meta["op"])
        if group_inputs is None:
            group_inputs = {"SE3(so3, r3)": [("SO3", 0)], "lift_se3": [], "lift_so3": [], "SO3(quaternion)": []}.get(meta["op"], [])
            for gi in group_inputs:
                in_wcells.add((gi[1], 3))
        else:
            for gi in group_inputs:
                for wc0 in meta["wcells"]:
                    in_wcells.add((gi, wc0))
        for wc in meta["wcells"]:
            stores = [w for w in ws if w["prov"].root == ("param", outp) and w["prov"].off == wc * ss and w["kind"] == "store"]
            others = [w for w in ws if w["prov"].root == ("param", outp) and w["kind"] != "store" and w["prov"].off is not None
                      and w["prov"].off <= wc * ss < w["prov"].off + (w["size"] or 0)]
            if others:
                # memcpy of a whole element: verbatim copy of an input element -> invariant preserved if same offset
                for w in others:
                    if w["kind"] == "memcpy" and w["src"].off == w["prov"].off:
                        kinds.append("copy")
                    else:
                        bad = (wc, "block write %s" % w["instr"].text[:60])
                continue
            if not stores:
                rep.broke("%s: q_w cell %d is never stored" % (fname, wc))
                bad = "skip"
                break
            for w in stores:
                okv, kind, flip = nonneg(ff, w["value"], in_wcells, ss, outp)
                if not okv:
                    bad = (wc, kind)
                    continue
                kinds.append(kind)
                if flip is not None:
                    # the three vector cells must flip under the same condition
                    for k in (wc - 3, wc - 2, wc - 1):
                        vs = [x for x in ws if x["prov"].root == ("param", outp) and x["prov"].off == k * ss and x["kind"] == "store"]
                        fl = ("factor", (flip[1], flip[2])) if flip[0] == "factor" else (flip[0], flip[1])
                        if not vs or not all(flipped_with(ff, x["value"], fl[0], fl[1]) for x in vs):
                            bad = (wc, "q_w is made non-negative but quaternion cell %d is not negated under the same condition "
                                   "(the element would change, not just its representative)" % k)
        if bad == "skip":
            continue
        rep.instance("R1", name, meta["op"], ok=bad is None, sample={"witness": fname, "qw_cells": meta["wcells"], "shapes": sorted(set(kinds))})
        if bad:
            rep.violation(Finding("R1", name, meta["op"],
                                  "%s can produce an SO3 part outside the canonical hemisphere: q_w cell %d: %s" % (meta["op"], bad[0], bad[1]),
                                  None, None, detail={"witness": fname}))


# ---------------------------------------------------------------------------------------------
# R2
# ---------------------------------------------------------------------------------------------

ROT = {
    # Impl class: (rotation Impl, rep size expr evaluator, rotation range)
    "SE2Impl": ("SO2Impl", 4, (2, 4)),
    "SE3Impl": ("SO3Impl", 7, (3, 7)),
    "GalileiImpl": ("SO3Impl", 11, (7, 11)),
    "SE_K_3Impl": ("SO3Impl", None, None),     # 3K .. 3K+4, handled symbolically (tail<4>)
}
EXEMPT = {"setIdentity": "identity element: rotation part set to the constant (0,..,0,1)"}


def access_range(member, targs, args, R):
    """range [lo,hi) in scalars of a sub-block accessor on a RepSize-R vector; None if not a recognised accessor"""
    try:
        if member == "head":
            n = int(targs)
            return (0, n)
        if member == "tail":
            n = int(targs)
            return (R - n, R) if R is not None else ("tail", n)
        if member == "segment":
            n = int(targs)
            s = int(args[0][1]) if args and args[0][0] == "num" else None
            if s is None:
                return None
            return (s, s + n)
    except (TypeError, ValueError):
        return None
    return None


def check_r2(rep, idx):
    rep.rule("R2", "rotation sub-range of an output element is written only through SO2Impl/SO3Impl functions or copies of their results", minimum=20)
    for cls, (rimpl, R, rr) in ROT.items():
        fns = [d for d in idx if d.kind in A.FUNCS and d.pattern and d.qname.startswith(cls + "::") and A.body(d.node) is not None and d.file and d.file.startswith(fe.INCLUDE)]
        if len(fns) < 8:
            rep.broke("R2: %s: only %d member functions found" % (cls, len(fns)))
        for d in fns:
            op = d.qname.split("::")[-1]
            outs = [p.get("name") for p in A.params(d.node) if p.get("type", {}).get("qualType", "") == "GRefOut"]
            if not outs:
                continue
            gout = outs[0]
            b = A.body(d.node)
            # locals produced by the rotation Impl (passed as output argument to rimpl::f)
            produced = set()
            for x in A.walk(b):
                if x.get("kind") == "CallExpr":
                    cn = A.ntext(A.kids(x)[0])
                    if cn.startswith(rimpl + "<"):
                        for a in A.kids(x)[1:]:
                            e = A.to_expr(a)
                            if e[0] == "ref":
                                produced.add(e[1])
            parents = {}
            for p in A.walk(b):
                for c in A.kids(p):
                    parents[id(c)] = p
            n = 0
            for x in A.walk(b):
                if x.get("kind") != "CallExpr":
                    continue
                cal = A.strip(A.kids(x)[0])
                if cal.get("kind") != "CXXDependentScopeMemberExpr" or cal.get("member") not in ("head", "tail", "segment"):
                    continue
                base = A.strip(A.kids(cal)[0])
                if base.get("kind") != "DeclRefExpr" or base.get("referencedDecl", {}).get("name") != gout:
                    continue
                rng = access_range(cal.get("member"), A.targs_text(cal), [A.to_expr(a) for a in A.kids(x)[1:]], R)
                f, l = A.loc(x)
                if cls == "SE_K_3Impl" and cal.get("member") == "segment" and A.targs_text(cal) == "3":
                    st = A.to_expr(A.kids(x)[1]) if len(A.kids(x)) > 1 else None
                    if st is not None and st[0] == "op" and st[1] == "*" and ("num", 3) in (st[2], st[3]):
                        continue      # translation block p_k at 3*k, k < K: before the rotation part [3K, 3K+4) by the documented layout
                if cls == "SE_K_3Impl" and cal.get("member") == "head" and (A.targs_text(cal) or "").replace(" ", "") in ("3*K", "K*3"):
                    continue          # all K translation blocks [0, 3K): before the rotation part [3K, 3K+4) by the documented layout
                if rng is None:
                    rep.broke("R2: cannot resolve sub-block %s in %s (%s:%s)" % (A.text(x)[:50], d.qname, fe.rel(f), l))
                    continue
                if cls == "SE_K_3Impl":
                    overlaps = rng == ("tail", 4) or (isinstance(rng[0], str))
                    if not isinstance(rng[0], str) and cal.get("member") == "segment":
                        overlaps = False   # p_k blocks: segment<3>(3*k) lie before the rotation part by construction of the layout
                else:
                    overlaps = rng[0] < rr[1] and rr[0] < rng[1]
                if not overlaps:
                    continue
                # how is this access used?
                par = parents.get(id(x))
                while par is not None and par.get("kind") in A.TRANSPARENT:
                    par = parents.get(id(par))
                verdict = "unknown"
                if par is not None and par.get("kind") == "CallExpr":
                    cn = A.ntext(A.kids(par)[0])
                    if cn.startswith(rimpl + "<"):
                        verdict = "through-" + rimpl
                    else:
                        verdict = "call:" + cn[:40]
                elif par is not None and par.get("kind") in ("BinaryOperator", "CXXOperatorCallExpr"):
                    e = A.to_expr(par)
                    if e[0] == "op" and e[1] == "=" and A.kids(par)[0 if par.get("kind") == "BinaryOperator" else 1] is not None:
                        lhs_is_x = A.loc(A.kids(par)[0 if par.get("kind") == "BinaryOperator" else 1]) == A.loc(x) or A.show(e[2]) == A.show(A.to_expr(x))
                        if lhs_is_x:
                            rhs = e[3]
                            if rhs[0] == "ref" and rhs[1] in produced:
                                verdict = "copy-of-" + rimpl + "-result"
                            else:
                                verdict = "assign:" + A.show(rhs)[:50]
                        else:
                            verdict = "read"
                    else:
                        verdict = "read" if e[0] == "op" and e[1] not in ("=", "*=", "+=", "-=", "/=") else "modify:" + e[1]
                elif par is not None and par.get("kind") in ("CXXDependentScopeMemberExpr", "MemberExpr"):
                    mname = par.get("member") or par.get("name")
                    verdict = "member:" + str(mname)
                exact = (cls == "SE_K_3Impl" and rng == ("tail", 4)) or (cls != "SE_K_3Impl" and tuple(rng) == rr)
                ok = verdict in ("through-" + rimpl, "copy-of-" + rimpl + "-result", "read") and (exact or verdict == "read")
                if op in EXEMPT:
                    ok = True
                n += 1
                rep.instance("R2", d.qname, "%s@%s" % (A.ntext(x)[:40], verdict), ok=ok, sample={"file": fe.rel(f), "line": l, "use": verdict})
                if not ok:
                    rep.violation(Finding("R2", d.qname, A.ntext(x)[:40],
                                          "the rotation part of the output (%s) is written by `%s` (%s) instead of through %s: the unit-norm / canonical-sign "
                                          "invariant of the part is no longer established by the code that owns it" % (A.ntext(x)[:40], verdict, A.text(par)[:70] if par else "", rimpl), f, l))
            # scalar element writes g_out(k) = ... inside the rotation range
            for x in A.walk(b):
                if x.get("kind") in ("BinaryOperator", "CXXOperatorCallExpr"):
                    e = A.to_expr(x)
                    if e[0] == "op" and e[1] in ("=", "*=", "+=") and e[2][0] in ("sub", "call") and ((e[2][0] == "sub" and e[2][1][0] == "ref" and e[2][1][1] == gout) or (e[2][0] == "call" and e[2][1] == gout)):
                        ixs = e[2][2]
                        if len(ixs) == 1 and ixs[0][0] == "num" and R is not None and rr[0] <= int(ixs[0][1]) < rr[1] and op not in EXEMPT:
                            f, l = A.loc(x)
                            rep.violation(Finding("R2", d.qname, "element",
                                                  "coefficient %d of the rotation part is written directly: %s" % (int(ixs[0][1]), A.show(e)[:60]), f, l))


def check_r3(rep, objs=None):
    """R3: the normalising constructors SO2(qz, qw), SO2(std::complex), SO3(quaternion) store a unit vector proportional to their input.
    Decided on the optimized IR of witnesses in the polynomial domain with sqrt as an algebraic symbol (s = sqrt(p) is a fresh variable with the
    rewrite rule s^2 -> p): sum of squares of the stored coefficients == 1, and stored_i * in_j == stored_j * in_i (same ray) for the documented pairing of
    inputs and coefficients.  Independent of how the constructor is written (delegation, normalized(), explicit division)."""
    import poly
    rep.rule("R3", "normalising constructors store a unit vector on the ray of their input (polynomial domain with sqrt as an algebraic symbol)", minimum=3)
    W = irw.IRW("c15_r3", groups.PRELUDE + "#include <complex>\n#include <Eigen/Geometry>\n", chunk=3)
    sig = "const double* a, double* out"
    W.add("r3_so2_pair", sig, "  smooth::Map<smooth::SO2d> o(out);\n  o = smooth::SO2d(a[0], a[1]);\n", what="SO2(qz, qw)", pairing=[0, 1])
    W.add("r3_so2_complex", sig, "  smooth::Map<smooth::SO2d> o(out);\n  o = smooth::SO2d(std::complex<double>(a[0], a[1]));\n", what="SO2(std::complex(re, im))", pairing=[1, 0])
    W.add("r3_so3_quat", sig, "  Eigen::Map<const Eigen::Quaterniond> q(a); smooth::Map<smooth::SO3d> o(out);\n  o = smooth::SO3d(q);\n", what="SO3(quaternion)", pairing=[0, 1, 2, 3])
    facts = W.build()

    class SqrtEval(poly.PathEval):
        PURE_CALLS = ("sqrt", "llvm.sqrt", "sqrtf", "hypot")

        def dom_call(self, name, args):
            base = name.split(".f64")[0].split(".f32")[0]
            if base in ("sqrt", "llvm.sqrt", "sqrtf") and len(args) == 1:
                a = args[0].normal(self.cons)
                if not (poly.p_is_const(a.d) and a.d):
                    raise poly.Unsupported("sqrt of a rational function")
                c = a.d[()]
                pn = {m_: v / c for m_, v in a.n.items()}
                key = "sqrt{%s}" % poly.p_show(pn, 12)
                self.cons.rules[key] = pn
                return poly.RF(poly.p_var(key))
            if base == "hypot" and len(args) == 2:
                return self.dom_call("sqrt", [args[0] * args[0] + args[1] * args[1]])
            return super().dom_call(name, args)
    for fname, (ff, meta, mod) in sorted(facts.items()):
        n = len(meta["pairing"])
        cons = poly.Constraints()
        try:
            pe_ = SqrtEval(ff, lambda p_, off, ty: ("in%d" % (off // 8)) if p_ == 0 else None, cons)
            orig = pe_._run_path

            def run_path(dec, pe_=pe_, orig=orig):
                pe_._dec_proxy = dec
                return orig(dec)
            pe_._run_path = run_path
            paths = pe_.run()
        except (poly.Unsupported, ir.Unresolved) as ex:
            rep.broke("R3: %s cannot be abstracted into the polynomial domain: %s" % (meta["what"], ex))
            continue
        bad = None
        for path in paths:
            if poly.path_only_at_origin(path, pe_):
                continue          # e.g. Eigen's normalized() returns its argument unchanged when the squared norm is not positive: the zero input only
            st = path["stores"]
            outs = [st.get((1, 8 * i)) for i in range(n)]
            if any(o is None for o in outs):
                bad = "coefficient %d is not written" % next(i for i, o in enumerate(outs) if o is None)
                break
            ssq = poly.RF.const(0)
            for o in outs:
                ssq = ssq + o * o
            if not poly.rf_equal(ssq, poly.RF.const(1), cons):
                nn = ssq.normal(cons)
                bad = "the stored coefficients have squared norm %s / (%s), not 1" % (poly.p_show(nn.n, 8), poly.p_show(nn.d, 4))
                break
            ins = [poly.RF(poly.p_var("in%d" % j)) for j in meta["pairing"]]
            for i in range(n):
                for j in range(i + 1, n):
                    if not poly.rf_equal(outs[i] * ins[j], outs[j] * ins[i], cons):
                        bad = "stored coefficients %d, %d are not proportional to the inputs paired with them" % (i, j)
                        break
                if bad:
                    break
            if bad:
                break
        rep.instance("R3", meta["what"], "unit ray", ok=bad is None, sample={"witness": fname, "paths": len(paths)})
        if bad:
            rep.violation(Finding("R3", meta["what"], "normalise", "%s does not normalise its input: %s" % (meta["what"], bad), None, None, detail={"witness": fname}))


def check_r4(rep, tier="quick"):
    """R4: exp returns unit rotation coefficients on both sides of the small-angle switch.  Rule T's machinery (engine R: the optimized IR of
    |coeffs(exp(t a0))|^2 interpreted over truncated series in t) shows the closed-form path equal to 1 to order 8 and bounds the deviation of the polynomial
    path at the largest t that selects it by 1e-14 -- whatever the source spells the two branches like."""
    import raychk
    raychk.run(rep, tier, "C15", ["unitnorm"], 1e-14, rule="R4", minimum=4)


def check_r5(rep, objs=None):
    """R5: conversions that build a quaternion from an angle (lift_so3, rot_x/y/z) are well conditioned over the whole circle -- the rounding-bound
    domain of props/roundir.py on the optimized IR of the conversions, independent of how the source spells them."""
    import roundir
    roundir.run_conversions(rep, "R5")


def check(rep, tier, replay=None):
    rep.explanations.append(
        "C15 (sign/normalisation clauses only): the canonical hemisphere q_w >= 0 is shown to be an inductive invariant by reading "
        "the shape of the value stored to every q_w cell off the optimized IR of each producing operation; ownership of the rotation "
        "sub-range and the normalising constructors are AST rules.  Drift bounds and long-chain accuracy are numerical and not decided.")
    rep.trusted.update(["clang++-16 front end and -O2 pipeline", "lib/ir.py"])
    rep.assumptions.append("(n+1)*1e-14 norm drift, (n+1)*1e-13 accuracy and odeint integration are NOT decided")
    check_r1(rep, tier)
    d = fe.ast_dumps(["Impl", "smooth::SO2", "SO3"])
    rep.unit("umbrella TU filtered Impl / SO2,SO3 classes")
    check_r2(rep, A.index(d["Impl"]))
    check_r3(rep, d["smooth::SO2"] + d["SO3"])
    check_r4(rep, tier)
    check_r5(rep, d["smooth::SO2"] + d["SO3"])
    import roundir
    rep.explanations.append(
        "R6 (props/roundir.py: run_norm_amplification): with one operand's rotation coefficients scaled off the unit sphere, the squared norm of the result is read off the optimized IR; "
        "its sensitivity to the operand's squared norm must not exceed 1 for inverse, composition, *= and rplus -- a necessary condition of the linear drift bound (n + 1) 1e-14: an "
        "operation that multiplies the accumulated defect makes it grow geometrically.")
    roundir.run_norm_amplification(rep, "R6")
