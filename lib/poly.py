"""Polynomial / rational-function abstract domain over the optimized IR of loop-free witness functions.

Every SSA value of a witness is abstracted, path by path, into an exact rational function of the *input cells*
(loads from the const parameters at constant offsets).  +, -, *, /, fneg, fmuladd and numeric constants are exact in
this domain; anything else (sqrt, sin, loads with unknown provenance, loops) is Unsupported -> analysis-broken.
Identities are decided modulo the representation constraints of the inputs (unit quaternion / unit complex number),
by rewriting w^2 -> 1 - x^2 - y^2 - z^2.  Conditional branches split the analysis into paths; a branch whose
condition reduces to a constant is decided, others are explored both ways (an identity must hold on every path).
No input is ever chosen or executed: the result is a polynomial identity over all real inputs.
"""
import re
from fractions import Fraction

import ir


class Unsupported(Exception):
    pass


class OutOfRange(Exception):
    """a load from an input argument beyond its extent (definite defect of the analysed code: it reads outside the object it was given)"""


class Narrowing(Exception):
    """a value is converted to a narrower floating-point type inside the witness (definite precision loss, not an abstraction limit)"""


# ---- polynomials: {monomial: Fraction}, monomial = tuple of (var, exp) sorted by var ----------------------------

def p_const(c):
    c = Fraction(c)
    return {(): c} if c != 0 else {}


def p_var(v):
    return {((v, 1),): Fraction(1)}


def p_add(a, b, sb=1):
    out = dict(a)
    for m, c in b.items():
        nc = out.get(m, 0) + sb * c
        if nc == 0:
            out.pop(m, None)
        else:
            out[m] = nc
    return out


def m_mul(m1, m2):
    d = dict(m1)
    for v, e in m2:
        d[v] = d.get(v, 0) + e
    return tuple(sorted(d.items()))


def p_mul(a, b):
    out = {}
    for m1, c1 in a.items():
        for m2, c2 in b.items():
            m = m_mul(m1, m2)
            nc = out.get(m, 0) + c1 * c2
            if nc == 0:
                out.pop(m, None)
            else:
                out[m] = nc
    return out


def p_is_const(a):
    return all(m == () for m in a)


def p_show(a, limit=6):
    if not a:
        return "0"
    ts = []
    for m, c in sorted(a.items(), key=lambda kv: (len(kv[0]), kv[0]))[:limit]:
        mon = "*".join("%s%s" % (v, "^%d" % e if e > 1 else "") for v, e in m)
        ts.append(("%s" % c) + ("*" + mon if mon else ""))
    return " + ".join(ts) + (" + ..." if len(a) > limit else "")


class Constraints:
    """rewrite rules  var^2 -> polynomial  (unit-norm constraints solved for the square of one coordinate)"""

    def __init__(self):
        self.rules = {}

    def unit(self, vars_):
        """sum of squares of vars_ == 1, solved for the last variable"""
        self.__dict__.setdefault("units", []).append(list(vars_))
        rhs = p_const(1)
        for v in vars_[:-1]:
            rhs = p_add(rhs, p_mul(p_var(v), p_var(v)), -1)
        self.rules[vars_[-1]] = rhs

    def reduce(self, p):
        changed = True
        guard = 0
        while changed:
            changed = False
            guard += 1
            if guard > 60:
                raise Unsupported("constraint reduction does not terminate")
            out = {}
            for m, c in p.items():
                hit = None
                for v, e in m:
                    if v in self.rules and e >= 2:
                        hit = (v, e)
                        break
                if hit is None:
                    out[m] = out.get(m, 0) + c
                    continue
                changed = True
                v, e = hit
                rest = tuple((vv, ee) for vv, ee in m if vv != v)
                if e - 2 > 0:
                    rest = m_mul(rest, ((v, e - 2),))
                term = p_mul({rest: c}, self.rules[v])
                for mm, cc in term.items():
                    out[mm] = out.get(mm, 0) + cc
            p = {m: c for m, c in out.items() if c != 0}
        return p


class RF:
    """rational function num/den (polynomials)"""
    __slots__ = ("n", "d")

    def __init__(self, n, d=None):
        self.n = n
        self.d = d if d is not None else p_const(1)

    @staticmethod
    def const(c):
        return RF(p_const(c))

    def __add__(self, o):
        if self.d == o.d:
            return RF(p_add(self.n, o.n), self.d)
        return RF(p_add(p_mul(self.n, o.d), p_mul(o.n, self.d)), p_mul(self.d, o.d))

    def __sub__(self, o):
        return self + RF(p_mul(o.n, p_const(-1)), o.d)

    def __neg__(self):
        return RF(p_mul(self.n, p_const(-1)), self.d)

    def __mul__(self, o):
        return RF(p_mul(self.n, o.n), p_mul(self.d, o.d) if not (p_is_const(self.d) and p_is_const(o.d)) else p_mul(self.d, o.d))

    def __truediv__(self, o):
        if not o.n:
            raise Unsupported("division by the zero polynomial")
        return RF(p_mul(self.n, o.d), p_mul(self.d, o.n))

    def normal(self, cons):
        n, d = cons.reduce(self.n), cons.reduce(self.d)
        if p_is_const(d) and d:
            c = d[()]
            return RF({m: v / c for m, v in n.items()}, p_const(1))
        return RF(n, d)


def p_subst(p, sigma):
    """substitute constants for variables in a polynomial"""
    out = {}
    for m, c in p.items():
        rest = []
        k = c
        for v, e in m:
            if v in sigma:
                k = k * sigma[v] ** e
            else:
                rest.append((v, e))
        rest = tuple(rest)
        out[rest] = out.get(rest, 0) + k
    return {m: c for m, c in out.items() if c != 0}


def rf_subst(r, sigma):
    return RF(p_subst(r.n, sigma), p_subst(r.d, sigma))


def p_vars(p):
    return {v for m in p for v, _ in m}


def equality_substitution(eqs, cons):
    """exact consequences of the equality tests of a path: {var: constant}, or None when an equality is not of the form var == constant.
    With a unit-norm constraint, one coordinate equal to +-1 forces the others to 0 (real numbers)."""
    sigma = {}
    for a, b in eqs:
        d = (a - b).normal(cons)
        if not (p_is_const(d.d) and d.d):
            return None
        n = d.n
        vs = p_vars(n)
        if len(vs) != 1:
            return None
        v = next(iter(vs))
        lin = n.get(((v, 1),))
        if lin is None or any(m not in ((), ((v, 1),)) for m in n):
            return None
        sigma[v] = -n.get((), Fraction(0)) / lin
    for us in getattr(cons, "units", []):
        for v in us:
            if sigma.get(v) in (Fraction(1), Fraction(-1)):
                for w in us:
                    if w != v:
                        sigma[w] = Fraction(0)
    return sigma


def float_witness(sigma, eqs, cons, variables, u=Fraction(1, 2 ** 53)):
    """a point of the *floating-point* neighbourhood of the equality set: inputs for which the rounded comparisons of the path still hold.
    Coordinates forced to 0 by a unit constraint become s*d_i with s^2 |d|^2 / 2 < u (so that the coordinate compared with +-1 still rounds to
    it); a coordinate compared with 0 becomes 1e-160; every other variable gets a generic value, other unit sets a rational point of the sphere."""
    point = {}
    units = getattr(cons, "units", [])
    fixed_sets = []
    dirs = [Fraction(3, 5), Fraction(-4, 7), Fraction(5, 9), Fraction(-2, 3), Fraction(7, 11)]
    s = Fraction(1, 10 ** 8)
    for us in units:
        one = [v for v in us if sigma.get(v) in (Fraction(1), Fraction(-1))]
        if one:
            fixed_sets.append(us)
            others = [w for w in us if w != one[0]]
            n2 = Fraction(0)
            for i, w in enumerate(others):
                point[w] = s * dirs[i % len(dirs)]
                n2 += point[w] ** 2
            point[one[0]] = sigma[one[0]] * (1 - n2 / 2 - n2 * n2 / 8)
    sphere = {2: [Fraction(3, 5), Fraction(4, 5)], 4: [Fraction(1, 2), Fraction(-1, 2), Fraction(1, 2), Fraction(1, 2)]}
    for us in units:
        if us in fixed_sets:
            continue
        pts = sphere.get(len(us))
        if pts is None:
            return None
        for v, x in zip(us, pts):
            point.setdefault(v, x)
    gen = [Fraction(7, 10), Fraction(-13, 10), Fraction(11, 20), Fraction(9, 5), Fraction(-3, 4), Fraction(17, 10), Fraction(1, 3), Fraction(-5, 6)]
    for i, v in enumerate(sorted(variables)):
        if v in point:
            continue
        if v in sigma:
            point[v] = sigma[v] if sigma[v] != 0 else Fraction(1, 10 ** 160)
        else:
            point[v] = gen[i % len(gen)] + Fraction(i, 97)
    return point


def rf_value(r, point):
    n, d = p_subst(r.n, point), p_subst(r.d, point)
    if p_vars(n) or p_vars(d):
        return None
    dv = d.get((), Fraction(0))
    if dv == 0:
        return None
    return n.get((), Fraction(0)) / dv


def sum_of_squares_sign(p):
    """+1 if every monomial of the polynomial is an even power product with a positive coefficient (and there is no constant <= 0), -1 for the negative
    of such a polynomial, else 0"""
    if not p:
        return 0
    signs = set()
    for m, c in p.items():
        if any(e % 2 for _, e in m):
            return 0
        signs.add(c > 0)
    if len(signs) != 1:
        return 0
    return 1 if signs.pop() else -1


def path_only_at_origin(path, evaluator):
    """True when the path contains a decision that a sum of squares of inputs is <= 0: in real arithmetic it is taken only when those inputs vanish"""
    polys = getattr(evaluator, "key_poly", {})
    for key, val in path.get("decisions", {}).items():
        d = polys.get(key)
        if d is None or not (p_is_const(d.d) and d.d and d.d[()] > 0):
            continue
        sg = sum_of_squares_sign(d.n)
        # key means (d < 0) was decided `val`
        if (sg == 1 and val is True) or (sg == -1 and val is False):
            return True
    return False


def rf_equal(a, b, cons):
    return not cons.reduce(p_add(p_mul(a.n, b.d), p_mul(b.n, a.d), -1))


# ---- path-wise evaluation of one function --------------------------------------------------------------------

class PathEval:
    def __init__(self, ff, cell_var, cons, max_paths=64):
        """cell_var(param index, byte offset, load type) -> variable name or None (not an input cell)"""
        self.ff = ff
        self.f = ff.f
        self.cell_var = cell_var
        self.cons = cons
        self.max_paths = max_paths

    # ---- value-domain hooks (overridden by other abstract domains, e.g. lib/rays.py) ----
    def dom_const(self, c):
        return RF.const(c)

    def dom_input(self, vn):
        return RF(p_var(vn))

    def dom_indeterminate(self, why):
        """value of an undef / NaN operand: a fresh symbol that no identity can absorb (a result that depends on it is reported by the
        comparison of the outputs; a result that does not is unaffected)"""
        self.n_indet = getattr(self, "n_indet", 0) + 1
        self.indeterminate = getattr(self, "indeterminate", [])
        self.indeterminate.append(why)
        return RF(p_var("UNINITIALISED_%d" % self.n_indet))

    def dom_check(self, r):
        if len(r.n) > 6000:
            raise Unsupported("polynomial too large")

    def dom_cmp(self, pred, a, b):
        """truth value of `a pred b`, or None when it is not constant on the domain"""
        a = a.normal(self.cons)
        b = b.normal(self.cons)
        diff = (a - b).normal(self.cons)
        if p_is_const(diff.n) and p_is_const(diff.d) and diff.d:
            v = (diff.n.get((), Fraction(0))) / diff.d[()]
            return {"eq": v == 0, "ne": v != 0, "lt": v < 0, "le": v <= 0, "gt": v > 0, "ge": v >= 0, "rd": True, "no": False}[pred]
        return None

    def dom_key(self, x, y):
        """canonical key of the undecided comparison x < y (None: do not share)"""
        d = (x - y).normal(self.cons)
        key = "lt|%r|%r" % (sorted(d.n.items()), sorted(d.d.items()))
        if not hasattr(self, "key_show"):
            self.key_show = {}
            self.key_poly = {}
        self.key_show[key] = "(%s%s < 0)" % (p_show(d.n, 4), "" if p_is_const(d.d) else " / ...")
        self.key_poly[key] = d
        return key

    def dom_call(self, name, args):
        """value of a call of a pure libm function / intrinsic, or raise Unsupported"""
        if name.startswith("llvm.fabs.") and len(args) == 1:
            # |x|: the sign of x is a decision of the path (shared with every other comparison of x with 0)
            x = args[0]
            r = self.dom_cmp("lt", x, self.dom_const(Fraction(0)))
            if r is None:
                key = self.dom_key(x, self.dom_const(Fraction(0)))
                dec = self._dec_proxy
                if key is None or dec is None:
                    raise Unsupported("fabs of a non-constant value")
                if key not in dec:
                    rkey = self.dom_key(self.dom_const(Fraction(0)), x)
                    if rkey is not None and dec.get(rkey) is True:
                        r = False
                    else:
                        raise _NeedDecision(key)
                else:
                    r = dec[key]
            return -x if r else x
        raise Unsupported("call of %s (outside the polynomial domain)" % name)

    PURE_CALLS = ()

    def allow(self, dec, cond, value):
        """whether the path extension dec + {cond: value} is explored (all of them in the polynomial domain)"""
        return True

    def run(self):
        """list of paths: dict {"stores": {(param, byte offset): RF}, "conds": [(text, bool)]}"""
        results = []
        pending = [dict()]          # decision maps: branch-condition value name -> bool
        seen = set()
        while pending:
            dec = pending.pop()
            key = tuple(sorted(dec.items()))
            if key in seen:
                continue
            seen.add(key)
            try:
                results.append(self._run_path(dec))
            except _NeedDecision as nd:
                if nd.cond in dec:
                    raise Unsupported("decision loop on " + str(nd.cond)[:60])
                for b in (True, False):
                    if not self.allow(dec, nd.cond, b):
                        continue
                    d2 = dict(dec)
                    d2[nd.cond] = b
                    pending.append(d2)
                if len(seen) + len(pending) > 4 * self.max_paths:
                    raise Unsupported("too many paths")
        if len(results) > self.max_paths:
            raise Unsupported("too many paths (%d)" % len(results))
        return results

    def _run_path(self, dec):
        f = self.f
        vals = {}
        stores = {}
        conds = []
        self.ptr_phi = {}
        self.path_eqs = []
        self.path_eq_names = set()
        cur = f.order[0]
        prev = None
        steps = 0
        while True:
            steps += 1
            if steps > 2000:
                raise Unsupported("loop in witness (not fully unrolled)")
            nxt = None
            for ins in f.blocks[cur]:
                op = ins.op
                if op == "phi":
                    if ins.res is None:
                        continue
                    inc = re.findall(r"\[\s*(.+?),\s*(" + ir.NAME + r")\s*\]", ins.text)
                    src = [v.strip() for v, l in inc if l == prev]
                    if not src:
                        raise Unsupported("phi without incoming value for the predecessor taken")
                    vals[ins.res] = ("lazy", src[0]) if not self._is_float_type(ins.text) else self._value(src[0], vals)
                    if re.match(r"^phi ptr ", ins.text):
                        self.ptr_phi[ins.res] = src[0]
                elif op == "store":
                    m = re.match(r"^store (?:volatile )?(\S+) (\S+), ptr (\S+?)(?:,|$)", ins.text)
                    if not m:
                        raise Unsupported("store form: " + ins.text[:60])
                    ty, v, ptr = m.group(1), m.group(2), m.group(3)
                    p = self.pprov(ptr, vals)
                    if p.root[0] == "param" and p.off is not None and ty in ("double", "float"):
                        stores[(p.root[1], p.off)] = self._value(v, vals)
                    elif p.root[0] == "alloca":
                        if ty not in ("double", "float"):
                            continue      # spilled pointers / sizes: pointer provenance is resolved by lib/ir.py, integers never feed values
                        if p.off is None:
                            raise Unsupported("store to a stack slot at a non-constant offset: " + ins.text[:60])
                        vals[("mem", p.root, p.off)] = self._value(v, vals)
                    else:
                        raise Unsupported("store to " + str(p))
                elif op == "br":
                    m = re.match(r"^br i1 (\S+?), label (\S+?), label (\S+)$", ins.text.strip())
                    if m:
                        c = self._cond(m.group(1), vals, dec)
                        conds.append((m.group(1), c))
                        nxt = m.group(2) if c else m.group(3)
                    else:
                        m = re.match(r"^br label (\S+)$", ins.text.strip())
                        nxt = m.group(1)
                elif op == "ret":
                    # decisions taken by selects / integer conversions of comparisons do not show up as branches: list them too
                    shown = {c for c, _ in conds}
                    extra = [(getattr(self, "key_show", {}).get(k, str(k))[:80], v) for k, v in dec.items() if k not in shown]
                    return {"stores": stores, "conds": conds + [e for e in extra if not conds or len(conds) < 4], "eqs": list(self.path_eqs), "decisions": dict(dec)}
                elif op in ("switch", "invoke", "unreachable", "indirectbr"):
                    raise Unsupported("terminator " + op)
                elif op == "call" and ("llvm.memset" in ins.text or "llvm.memcpy" in ins.text):
                    self._mem_intrinsic(ins, vals, stores)
                elif op == "call":
                    m = re.search(r"(" + ir.GNAME + r")\s*\(", ins.text)
                    cal = m.group(1) if m else None
                    if cal is None or not (cal.startswith("@llvm.fmuladd") or cal.startswith("@llvm.lifetime") or cal.startswith("@llvm.assume")
                                           or cal.startswith("@llvm.experimental.noalias") or cal.startswith("@llvm.fabs") or cal.startswith("@llvm.dbg")
                                           or cal.lstrip("@").split(".f64")[0].split(".f32")[0] in self.PURE_CALLS):
                        raise Unsupported("call of %s (not inlined; its memory effects are outside the polynomial domain)" % (cal or "an indirect callee"))
                elif op == "load":
                    # loads are evaluated at their program point: a later store to the same cell must not be visible to them
                    if ins.res is not None and re.match(r"^load (?:volatile )?(double|float)[, ]", ins.text):
                        self._value(ins.res, vals)
                else:
                    continue   # pure instructions are evaluated on demand
            if nxt is None:
                raise Unsupported("block without terminator")
            prev, cur = cur, nxt

    def pprov(self, ptr, vals):
        """pointer provenance on the current path: a pointer that is a phi / select of several objects denotes, on one path, the object of the
        incoming value actually taken (the static analysis of lib/ir.py joins them into a 'multi' root)"""
        p = self.ff.prov(ptr)
        if p.root[0] != "multi" and p.off is not None:
            return p
        over = {}
        self._collect_ptr_choices(ptr.strip(), vals, over, 0)
        if not over:
            return p
        key = tuple(sorted(over.items()))
        cache = self.__dict__.setdefault("_pprov_cache", {})
        if key not in cache:
            sf = ir.FuncFacts(self.ff.mod, self.f)
            for name, chosen in over.items():
                sf._prov[name] = sf.prov(chosen)
            cache[key] = sf
        return cache[key].prov(ptr)

    def _collect_ptr_choices(self, v, vals, over, depth):
        if depth > 60 or v in over:
            return
        ins = self.f.defs.get(v)
        if ins is None:
            return
        if ins.op == "phi":
            ch = self.ptr_phi.get(v)
            if ch is not None:
                over[v] = ch
                self._collect_ptr_choices(ch, vals, over, depth + 1)
        elif ins.op == "select":
            parts = ir.split_top(ins.text[len("select"):])
            if parts[1].strip().startswith("ptr"):
                c = self._cond(parts[0].split()[-1], vals, self._dec_proxy)
                ch = re.sub(r"^ptr\s+", "", (parts[1] if c else parts[2]).strip()).strip()
                over[v] = ch
                self._collect_ptr_choices(ch, vals, over, depth + 1)
        elif ins.op in ("getelementptr", "bitcast", "addrspacecast"):
            m = re.search(r"ptr (" + ir.NAME + r")", ins.text)
            if m:
                self._collect_ptr_choices(m.group(1), vals, over, depth + 1)

    @staticmethod
    def _is_float_type(text):
        return bool(re.match(r"^phi (?:\w+ )*(double|float) ", text))

    def _mem_intrinsic(self, ins, vals, stores):
        args = ir.split_top(self.ff._call_args(ins.text))
        dst = self.pprov(self.ff._arg_value(args[0]), vals)
        ln = ir.parse_const(self.ff._arg_value(args[2]))
        if ln is None or dst.off is None:
            raise Unsupported("memory intrinsic with non-constant extent")
        if "memset" in ins.text:
            if ir.parse_const(self.ff._arg_value(args[1])) != 0:
                raise Unsupported("memset with non-zero value")
            for o in range(dst.off, dst.off + ln, 8):
                if dst.root[0] == "param":
                    stores[(dst.root[1], o)] = self.dom_const(0)
                elif dst.root[0] == "alloca":
                    vals[("mem", dst.root, o)] = self.dom_const(0)
                else:
                    raise Unsupported("memset destination " + str(dst))
        else:
            src = self.pprov(self.ff._arg_value(args[1]), vals)
            if src.off is None:
                raise Unsupported("memcpy with non-constant source")
            for k in range(0, ln, 8):
                v = self._load_cell(src, src.off + k, "double", vals)
                if dst.root[0] == "param":
                    stores[(dst.root[1], dst.off + k)] = v
                elif dst.root[0] == "alloca":
                    vals[("mem", dst.root, dst.off + k)] = v
                else:
                    raise Unsupported("memcpy destination " + str(dst))

    def _load_cell(self, p, off, ty, vals):
        if p.root[0] == "param":
            vn = self.cell_var(p.root[1], off, ty)
            if vn is None:
                raise Unsupported("load from parameter %d offset %d is not an input cell" % (p.root[1], off))
            return self.dom_input(vn)
        if p.root[0] == "alloca":
            k = ("mem", p.root, off)
            if k in vals:
                return vals[k]
            raise Unsupported("load from an uninitialised stack slot")
        if p.root[0] == "global":
            raise Unsupported("load from global " + str(p.root[1]))
        raise Unsupported("load from " + str(p))

    def _note_eq(self, c, value, vals):
        """remember exact equality tests that hold on the current path (x == y decided true, x != y decided false)"""
        ins = self.f.defs.get(c)
        if ins is None or ins.op != "fcmp":
            return
        m = re.match(r"^fcmp (?:\w+ )*?(oeq|one|ueq|une) (?:double|float) (\S+?), (\S+)$", ins.text.strip())
        if not m:
            return
        holds = value if m.group(1)[1:] == "eq" else (not value)
        if holds and c not in self.path_eq_names:
            self.path_eq_names.add(c)
            try:
                self.path_eqs.append((self._value(m.group(2), vals), self._value(m.group(3), vals)))
            except Unsupported:
                pass

    def _cond(self, c, vals, dec):
        if c in dec:
            self._note_eq(c, dec[c], vals)
            return dec[c]
        ins = self.f.defs.get(c)
        if ins is None:
            k = ir.parse_const(c)
            if k is not None:
                return bool(k)
            raise Unsupported("condition " + c)
        if ins.op == "fcmp":
            m = re.match(r"^fcmp (?:\w+ )*?(oeq|one|olt|ole|ogt|oge|ueq|une|ult|ule|ugt|uge|ord|uno) (?:double|float) (\S+?), (\S+)$", ins.text.strip())
            if m:
                pred = m.group(1)[1:]
                a, b = self._value(m.group(2), vals), self._value(m.group(3), vals)
                r = self.dom_cmp(pred, a, b)
                if r is not None:
                    return r
                # share the decision between comparisons of equal abstract values (the same test evaluated twice by two
                # inlined callees must not be decided differently on one path): canonical form "x < y"
                flip = {"lt": (False, False), "gt": (True, False), "ge": (False, True), "le": (True, True)}
                if pred in flip:
                    swap, neg = flip[pred]
                    x, y = (b, a) if swap else (a, b)
                    key = self.dom_key(x, y)
                    if key is not None:
                        if key in dec:
                            return dec[key] != neg
                        # x < y is false on a path on which y < x was decided true (one total order per path)
                        rkey = self.dom_key(y, x)
                        if rkey is not None and dec.get(rkey) is True:
                            return False != neg
                        raise _NeedDecision(key)
                if pred in ("eq", "ne"):
                    k1, k2 = self.dom_key(a, b), self.dom_key(b, a)
                    if k1 is not None and (dec.get(k1) is True or dec.get(k2) is True):
                        return pred == "ne"
                    if k1 is not None and dec.get(k1) is False and dec.get(k2) is False:
                        return pred == "eq"
        raise _NeedDecision(c)

    def _value(self, v, vals, depth=0):
        v = v.strip()
        if v in vals:
            r = vals[v]
            if isinstance(r, tuple) and r and r[0] == "lazy":
                r = self._value(r[1], vals, depth + 1)
                vals[v] = r
            return r
        c = ir.parse_const(v)
        if c is not None:
            if isinstance(c, float) and (c != c or c in (float("inf"), float("-inf"))):
                return self.dom_indeterminate("the constant %s (folded from an uninitialised or invalid operand)" % ("NaN" if c != c else "inf"))
            return self.dom_const(Fraction(c))
        if v in ("undef", "poison"):
            return self.dom_indeterminate("an undef value (read of uninitialised storage)")
        if depth > 3000:
            raise Unsupported("expression too deep")
        ins = self.f.defs.get(v)
        if ins is None:
            raise Unsupported("unknown value " + v)
        op = ins.op
        t = ins.text
        r = None
        if op in ("fadd", "fsub", "fmul", "fdiv"):
            body = re.sub(r"^\w+ (?:(?:fast|nnan|ninf|nsz|arcp|contract|afn|reassoc) )*(?:double|float) ", "", t)
            a, b = [x.strip() for x in body.split(",")[:2]]
            x, y = self._value(a, vals, depth + 1), self._value(b, vals, depth + 1)
            r = {"fadd": lambda: x + y, "fsub": lambda: x - y, "fmul": lambda: x * y, "fdiv": lambda: x / y}[op]()
        elif op == "fneg":
            a = re.findall(ir.NAME + r"|-?\d[\d.e+-]*$", t)
            r = -self._value(t.split()[-1], vals, depth + 1)
        elif op == "call" and "@llvm.fmuladd" in t:
            args = [self.ff._arg_value(a) for a in ir.split_top(self.ff._call_args(t))]
            r = self._value(args[0], vals, depth + 1) * self._value(args[1], vals, depth + 1) + self._value(args[2], vals, depth + 1)
        elif op == "call" and "@llvm.fmuladd" not in t:
            m = re.search(r"(" + ir.GNAME + r")\s*\(", t)
            cal = m.group(1) if m else None
            if cal is None:
                raise Unsupported("indirect call")
            args = [self._value(self.ff._arg_value(a), vals, depth + 1) for a in ir.split_top(self.ff._call_args(t))]
            r = self.dom_call(cal.lstrip("@"), args)
        elif op == "load":
            m = re.match(r"^load (?:volatile )?(\S+), ptr (\S+?)(?:,|$| )", t)
            ty, ptr = m.group(1), m.group(2)
            if ty not in ("double", "float"):
                raise Unsupported("load of type " + ty)
            p = self.pprov(ptr, vals)
            if p.off is None:
                raise Unsupported("load with non-constant offset")
            r = self._load_cell(p, p.off, ty, vals)
        elif op == "select":
            parts = ir.split_top(t[len("select"):])
            cnd = parts[0].split()[-1]
            c = self._cond(cnd, vals, self._dec_proxy)
            r = self._value(parts[1].split()[-1] if c else parts[2].split()[-1], vals, depth + 1)
        elif op in ("zext", "sext") and re.match(r"^[sz]ext i1 (\S+) to i\d+$", t.strip()):
            c = self._cond(re.match(r"^[sz]ext i1 (\S+) to", t.strip()).group(1), vals, self._dec_proxy)
            r = self.dom_const(Fraction((1 if op == "zext" else -1) if c else 0))
        elif op in ("add", "sub", "mul") and re.match(r"^(?:add|sub|mul) (?:nsw |nuw )*i(?:8|16|32|64) ", t.strip()):
            # small integers built from comparison results (branch-free sign idioms); exact in the rationals as long as nothing wraps
            body = re.sub(r"^\w+ (?:nsw |nuw )*i\d+ ", "", t.strip())
            a, b = [x.strip() for x in body.split(",")[:2]]
            x, y = self._value(a, vals, depth + 1), self._value(b, vals, depth + 1)
            r = {"add": lambda: x + y, "sub": lambda: x - y, "mul": lambda: x * y}[op]()
        elif op in ("sitofp", "uitofp"):
            m = re.match(r"^[su]itofp i\d+ (\S+) to (?:double|float)$", t.strip())
            if not m:
                raise Unsupported("instruction " + t[:60])
            r = self._value(m.group(1), vals, depth + 1)
        elif op == "fptrunc":
            raise Narrowing(t.strip())
        elif op == "fpext":
            m = re.search(r"(\S+) to ", t)
            r = self._value(m.group(1), vals, depth + 1)
        elif op == "phi":
            raise Unsupported("phi evaluated out of order")
        else:
            raise Unsupported("instruction " + t[:60])
        self.dom_check(r)
        vals[v] = r
        return r

    # decisions for `select` conditions share the path's decision map
    _dec_proxy = None


class _NeedDecision(Exception):
    def __init__(self, cond):
        self.cond = cond


def evaluate(ff, cell_var, cons, max_paths=64):
    pe = PathEval(ff, cell_var, cons, max_paths)
    # share the decision map with select handling
    orig = pe._run_path

    def run_path(dec):
        pe._dec_proxy = dec
        return orig(dec)
    pe._run_path = run_path
    return pe.run()
