"""C18 -- non-mutating operations are safe to run concurrently (effect analysis).

E1 (A): no `mutable` data member in any smooth:: class; every variable with static storage duration is
        const/constexpr or one of the frozen write-once tables, which are only ever *read* after their own
        initialiser; function-local statics are const (thread-safe initialisation by the ABI); no const_cast.
E2 (I): in the optimized IR of witnesses of every operation family named by the property, no store / memset /
        memcpy destination has provenance in a parameter standing for a shared const input (directly or through
        pointers loaded from it), and no store targets a mutable global.
"""
import json
import os
import re

import astlib as A
import fe
import groups
import ir
import irw
from report import Finding, VERIF

MUTATING_MEMBERS = {"insert", "coeffRef", "resize", "setZero", "makeCompressed", "prune", "reserve", "setFromTriplets",
                    "swap", "conservativeResize", "setIdentity", "push_back", "emplace_back", "clear", "fill", "assign",
                    "uncompress", "data", "valuePtr", "innerIndexPtr", "outerIndexPtr", "coeffs", "finalize", "startVec",
                    "insertBack", "setConstant", "setOnes", "setRandom"}


def load_tables():
    return json.load(open(os.path.join(VERIF, "tables", "static_tables.json")))


def check_staticarg(rep, objs, rule="E1.staticarg", only=None):
    """a function-local static is initialised by the first call only: its initialiser must not depend on the function's arguments (or on *this)"""
    import staticarg
    rep.rule(rule, "function-local statics: the initialiser does not read the enclosing function's parameters or *this (the first call would fix the value for every later call, "
             "and concurrent first calls race on which arguments win)", minimum=1 if only is None else 0)

    def in_repo(n):
        f, _ = A.loc(n)
        return bool(f) and f.startswith(fe.INCLUDE) and (only is None or any(f.endswith(o) for o in only))
    for fname, node, deps in staticarg.scan(objs, in_repo):
        f, l = A.loc(node)
        ok = not deps
        rep.instance(rule, fname, node.get("name"), ok=ok, nontrivial=not ok, sample={"file": fe.rel(f), "line": l, "depends_on": deps})
        if not ok:
            rep.violation(Finding(rule, fname, node.get("name"),
                                  "`static %s %s` in %s is initialised from %s: the initialiser runs in the first call only, so every later call -- with other arguments -- silently "
                                  "reuses the first call's data, and which call is first is a race between threads" % (
                                      node.get("type", {}).get("qualType", "")[:60], node.get("name"), fname, ", ".join(deps)), f, l))


def check_e1(rep, objs):
    T = load_tables()
    allowed = T["write_once_tables"]
    rep.rule("E1.mutable", "classes of smooth:: scanned for mutable data members", minimum=T["min_classes"])
    rep.rule("E1.static", "variables with static storage: const/constexpr or frozen write-once table", minimum=T["min_statics"])
    rep.rule("E1.uses", "every use of a write-once table is a read", minimum=T["min_table_uses"])
    rep.rule("E1.cc", "no const_cast in include/smooth")
    statics = []     # (qname, node, ctx)
    n_classes = 0
    n_cc = 0
    table_ids = {}   # decl id -> table name
    table_names = set(allowed)
    class_fields = {}   # class name -> field types (to see through `static const` objects that own shared mutable state)

    def shares_state(ty, depth=0):
        """a const object of this type can still reach mutable state: it holds a (smart) pointer / reference wrapper / callable"""
        t = ty.replace("const ", "").strip()
        if re.search(r"shared_ptr<|unique_ptr<|reference_wrapper<|std::function<|\*\s*$|\*\s*const", ty):
            return ty
        base = re.sub(r"<.*$", "", t).split("::")[-1].strip(" &")
        if depth < 3 and base in class_fields:
            for ft in class_fields[base]:
                r_ = shares_state(ft, depth + 1)
                if r_:
                    return "%s (member of %s)" % (r_, base)
        return None

    def in_repo(n):
        f, _ = A.loc(n)
        return bool(f) and f.startswith(fe.INCLUDE)

    def visit(n, scope, ctx):
        nonlocal n_classes, n_cc
        k = n.get("kind")
        if k == "NamespaceDecl":
            sc = scope if n.get("isInline") else scope + [n.get("name", "")]
            for c in A.kids(n):
                visit(c, sc, "ns")
            return
        if k in ("CXXRecordDecl", "ClassTemplateSpecializationDecl", "ClassTemplatePartialSpecializationDecl"):
            if k == "ClassTemplateSpecializationDecl" and ctx == "inst":
                return
            if n.get("isImplicit"):
                return
            name = n.get("name", "") + (A.spec_suffix(n) if k != "CXXRecordDecl" else "")
            sc = scope + [name]
            if n.get("completeDefinition") and in_repo(n):
                n_classes += 1
                fields = [c for c in A.kids(n) if c.get("kind") == "FieldDecl"]
                class_fields[n.get("name", "")] = [c.get("type", {}).get("qualType", "") for c in fields]
                muts = [c for c in fields if c.get("mutable")]
                rep.instance("E1.mutable", "::".join(sc), "fields", ok=not muts, nontrivial=bool(fields),
                             sample={"file": fe.rel(A.loc(n)[0]), "line": A.loc(n)[1], "fields": [c.get("name") for c in fields]})
                for c in muts:
                    f, l = A.loc(c)
                    rep.violation(Finding("E1.mutable", "::".join(sc), c.get("name"),
                                          "mutable data member `%s`: const member functions may write it, so concurrent "
                                          "const calls on one shared object race" % c.get("name"), f, l))
            for c in A.kids(n):
                visit(c, sc, "class")
            return
        if k == "ClassTemplateDecl":
            for c in A.kids(n):
                if c.get("kind") == "CXXRecordDecl":
                    visit(c, scope, ctx)
                elif c.get("kind") == "ClassTemplateSpecializationDecl":
                    pass   # implicit instantiations repeat the pattern
            return
        if k == "VarTemplateDecl":
            for c in A.kids(n):
                if c.get("kind") == "VarDecl":
                    visit(c, scope, ctx)
                elif c.get("kind") == "VarTemplateSpecializationDecl":
                    if c.get("name") in table_names:
                        table_ids[c.get("id")] = c.get("name")
            return
        if k in ("FunctionTemplateDecl",):
            seen = False
            for c in A.kids(n):
                if c.get("kind") in A.FUNCS and not seen:
                    visit(c, scope, ctx)
                    seen = True
            return
        if k in A.FUNCS:
            b = A.body(n)
            if b is not None and in_repo(n):
                fname = "::".join(scope + [n.get("name", "")])
                for x in A.walk(b):
                    xk = x.get("kind")
                    if xk == "VarDecl" and x.get("storageClass") == "static":
                        statics.append(("%s::%s" % (fname, x.get("name")), x, "local"))
                    elif xk == "VarDecl" and x.get("tls"):
                        statics.append(("%s::%s" % (fname, x.get("name")), x, "local"))
                    elif xk == "CXXConstCastExpr":
                        f, l = A.loc(x)
                        n_cc += 1
                        rep.violation(Finding("E1.cc", fname, "const_cast", "const_cast: %s" % A.text(x)[:80], f, l))
            return
        if k == "VarDecl":
            if not in_repo(n):
                return
            if ctx == "class" and n.get("storageClass") != "static":
                return
            statics.append(("::".join(scope + [n.get("name", "")]), n, ctx))
            return
        if k == "LinkageSpecDecl":
            for c in A.kids(n):
                visit(c, scope, ctx)

    for o in objs:
        visit(o, [], "ns")

    for qn, n, ctx in statics:
        ty = n.get("type", {}).get("qualType", "")
        is_const = bool(n.get("constexpr")) or ty.startswith("const ") or re.search(r"\bconst$", ty) is not None
        short = qn.split("::")[-1]
        f, l = A.loc(n)
        if is_const:
            via = shares_state(ty) if ctx == "local" or n.get("storageClass") == "static" else None
            if via and not n.get("constexpr"):
                rep.instance("E1.static", qn, "const-with-shared-state", ok=False, sample={"file": fe.rel(f), "line": l, "type": ty[:60]})
                rep.violation(Finding("E1.static", qn, "const-with-shared-state",
                                      "`static %s`: the object is const but owns `%s`, so every call of the enclosing function shares (and may mutate) the state "
                                      "behind it" % (ty[:60], via[:80]), f, l))
                continue
            rep.instance("E1.static", qn, "const", ok=True, nontrivial=False)
            continue
        # qualified suffix match against the frozen table
        match = [t for t in allowed if qn == t or qn.endswith("::" + t) or (ctx != "local" and short == t)]
        if match and ctx != "local":
            has_init = any(c.get("kind") not in ("TypeLoc",) for c in A.kids(n))
            table_ids[n.get("id")] = short
            rep.instance("E1.static", qn, "write-once", ok=has_init,
                         sample={"file": fe.rel(f), "line": l, "type": ty[:60], "reason": allowed[match[0]]})
            if not has_init:
                rep.violation(Finding("E1.static", qn, "init", "write-once table without its own initialiser", f, l))
        else:
            rep.instance("E1.static", qn, "mutable-static", ok=False, sample={"file": fe.rel(f), "line": l, "type": ty[:60]})
            what = "function-local static" if ctx == "local" else "variable with static storage duration"
            rep.violation(Finding("E1.static", qn, "mutable-static",
                                  "%s of non-const type `%s` is shared mutable state reachable from const operations "
                                  "(not in the frozen list of write-once tables)" % (what, ty[:80]), f, l))

    # uses of write-once tables: must be reads
    def classify(parents, node):
        """'read' | 'write' | 'unknown' for a reference expression `node` given its ancestor chain."""
        cur = node
        for p in reversed(parents):
            pk = p.get("kind")
            ks = A.kids(p)
            if pk in A.TRANSPARENT:
                cur = p
                continue
            if pk in ("BinaryOperator", "CompoundAssignOperator"):
                op = p.get("opcode", "")
                if op == "=" or pk == "CompoundAssignOperator":
                    return "write" if ks and ks[0] is cur else "read"
                return "read"
            if pk == "CXXOperatorCallExpr":
                opn = (A.callee_name(ks[0]) or "").replace("operator", "")
                args = ks[1:]
                if opn in ("=", "+=", "-=", "*=", "/="):
                    return "write" if args and args[0] is cur else "read"
                if opn in ("[]", "()"):
                    cur = p
                    continue   # element access: decided by what happens to the element
                return "read"
            if pk == "ArraySubscriptExpr":
                cur = p
                continue
            if pk in ("MemberExpr", "CXXDependentScopeMemberExpr"):
                mname = p.get("member") or p.get("name") or ""
                if mname in MUTATING_MEMBERS:
                    return "write"
                cur = p
                continue
            if pk in ("CallExpr", "CXXMemberCallExpr"):
                if ks and ks[0] is cur:
                    return "read"    # const member call result (mutating names were caught above)
                return "read-arg"
            if pk in ("CXXConstructExpr", "CXXUnresolvedConstructExpr", "CXXTemporaryObjectExpr", "ParenListExpr", "InitListExpr"):
                return "read-arg"
            if pk == "VarDecl":
                ty = p.get("type", {}).get("qualType", "")
                if (p.get("name") or "").startswith("__range"):
                    # range-based for: decided by the declared loop variable
                    fr = next((q for q in reversed(parents) if q.get("kind") == "CXXForRangeStmt"), None)
                    if fr is not None:
                        lv = [v for v in A.walk(fr) if v.get("kind") == "VarDecl" and not (v.get("name") or "").startswith("__")]
                        if lv:
                            lty = lv[0].get("type", {}).get("qualType", "")
                            if "&" not in lty or lty.startswith("const "):
                                return "read"
                            return "write"
                    return "unknown"
                if "&" in ty and not ty.startswith("const "):
                    return "write"     # bound to a non-const reference
                return "read"
            if pk == "CXXForRangeStmt":
                return "read"
            if pk in ("RequiresExpr", "SimpleRequirement", "ReturnStmt", "ConditionalOperator", "UnaryOperator"):
                if pk == "UnaryOperator" and p.get("opcode") in ("++", "--", "&"):
                    return "write"
                return "read"
            if pk in ("CompoundStmt", "DeclStmt", "IfStmt", "ForStmt"):
                return "read"
            cur = p
        return "unknown"

    n_uses = 0
    def scan(n, parents):
        nonlocal n_uses
        k = n.get("kind")
        name = None
        if k == "DeclRefExpr":
            rd = n.get("referencedDecl", {})
            if rd.get("name") in table_names and rd.get("kind") in ("VarDecl", "VarTemplateSpecializationDecl", "VarTemplateDecl"):
                name = rd.get("name")
        elif k in ("UnresolvedLookupExpr",):
            if n.get("name") in table_names:
                name = n.get("name")
        elif k == "DependentScopeDeclRefExpr":
            t = A.ntext(n)
            for tn in table_names:
                if re.search(r"(^|::)" + re.escape(tn) + r"(<|$)", t):
                    name = tn
        if name and in_repo(n):
            # skip the declaration's own initialiser context (lambda inside the VarDecl of the same name)
            own = any(p.get("kind") == "VarDecl" and p.get("name") == name for p in parents)
            verdict = classify(parents, n)
            f, l = A.loc(n)
            fn = next((p.get("name") for p in reversed(parents) if p.get("kind") in A.FUNCS or p.get("kind") == "VarDecl"), "?")
            n_uses += 1
            okv = verdict in ("read", "read-arg")
            rep.instance("E1.uses", name, "%s@%s" % (fn, verdict), ok=okv, nontrivial=True,
                         sample={"file": fe.rel(f), "line": l, "context": A.text(parents[-1])[:90] if parents else ""})
            if verdict == "write":
                rep.violation(Finding("E1.uses", name, fn, "write-once table `%s` is modified after initialisation: %s"
                                      % (name, A.text(parents[-1])[:100] if parents else ""), f, l))
            elif verdict == "unknown":
                rep.broke("unrecognised use of write-once table %s at %s:%s (%s) -- classify it in props/c18.py"
                          % (name, fe.rel(f), l, A.text(parents[-1])[:80] if parents else ""))
        ks = A.kids(n)
        if k == "LambdaExpr":
            ks = [c for c in ks if c.get("kind") != "CXXRecordDecl"]
        if k in ("ClassTemplateDecl",):
            ks = [c for c in ks if c.get("kind") != "ClassTemplateSpecializationDecl"]
        if k in ("FunctionTemplateDecl",):
            fs = [c for c in ks if c.get("kind") in A.FUNCS]
            ks = [c for c in ks if c.get("kind") not in A.FUNCS] + fs[:1]
        if k == "VarTemplateDecl":
            ks = [c for c in ks if c.get("kind") != "VarTemplateSpecializationDecl"]
        parents.append(n)
        for c in ks:
            scan(c, parents)
        parents.pop()

    import sys
    sys.setrecursionlimit(20000)
    for o in objs:
        scan(o, [])
    rep.instance("E1.cc", "include/smooth", "const_cast", ok=n_cc == 0, sample={"count": n_cc})


# ----------------------------------------------------------------------------------------------
# E2
# ----------------------------------------------------------------------------------------------

E2_PRELUDE = groups.PRELUDE + """
#include <vector>
#include <variant>
#include <smooth/manifolds.hpp>
#include <smooth/manifolds/submanifold.hpp>
#include <smooth/manifolds/any.hpp>
#include <smooth/spline/spline.hpp>
#include <smooth/spline/bspline.hpp>
#include <smooth/spline/fit.hpp>
#include <smooth/lie_sparse.hpp>
#include <smooth/diff.hpp>
#include <smooth/optim.hpp>
using namespace smooth;
"""


def e2_witnesses(tier):
    """(name, signature, body, const_params, needs_exceptions)"""
    ws = []
    def add(name, sig, body, cps, exc=False):
        ws.append((name, sig, body, cps, exc))
    # group and tangent functions on shared const objects
    for g in groups.catalogue("quick"):
        pre = "  using GT = %s; using S_ = %s;\n" % (g.ctype, g.scalar)
        add("e2_%s_ops" % g.key, "const %s* a, const %s* b, %s* out" % (g.ctype, g.ctype, g.scalar),
            pre + "  Eigen::Map<Eigen::Matrix<S_, GT::Dof, 1>> o(out);\n  o = ((*a) * b->inverse()).log() + ((*a) - (*b)) + a->Ad() * b->log();\n", [0, 1])
        add("e2_%s_tangent" % g.key, "const %s* t, %s* out" % (g.scalar, g.scalar),
            pre + "  Eigen::Map<const Eigen::Matrix<S_, GT::Dof, 1>> a(t); Eigen::Map<Eigen::Matrix<S_, GT::Dof, GT::Dof>> o(out);\n"
            "  o = GT::dr_exp(a) * GT::dr_expinv(a) + GT::ad(a) + GT::exp(a).Ad();\n", [0])
        if not g.comm and g.key in ("SO3d", "SE2d", "SE3d", "B_SO3d_V2d_SE2d"):
            add("e2_%s_hess" % g.key, "const %s* t, %s* out" % (g.scalar, g.scalar),
                pre + "  Eigen::Map<const Eigen::Matrix<S_, GT::Dof, 1>> a(t); Eigen::Map<Eigen::Matrix<S_, GT::Dof, GT::Dof*GT::Dof>> o(out);\n"
                "  o = GT::d2r_exp(a) + GT::d2r_expinv(a);\n", [0])
    # manifolds
    add("e2_submanifold_rplus", "const SubManifold<SE3d>* m, const Eigen::VectorXd* a, SubManifold<SE3d>* out",
        "  *out = m->rplus(*a);\n", [0, 1])
    add("e2_submanifold_rminus", "const SubManifold<SE3d>* m1, const SubManifold<SE3d>* m2, Eigen::VectorXd* out",
        "  *out = m1->rminus(*m2);\n", [0, 1])
    add("e2_submanifold_dof", "const SubManifold<SE3d>* m, long* out", "  *out = m->dof();\n", [0])
    add("e2_submanifold_traits", "const SubManifold<SO3d>* m1, const SubManifold<SO3d>* m2, Eigen::VectorXd* out",
        "  *out = ::smooth::rminus(::smooth::rplus(*m1, ::smooth::rminus(*m2, *m1)), *m2);\n", [0, 1])
    add("e2_vector_rminus", "const std::vector<SO3d>* a, const std::vector<SO3d>* b, Eigen::VectorXd* out",
        "  *out = ::smooth::rminus(*a, *b);\n", [0, 1])
    add("e2_vector_rplus", "const std::vector<SE2d>* a, const Eigen::VectorXd* t, std::vector<SE2d>* out",
        "  *out = ::smooth::rplus(*a, *t);\n", [0, 1])
    add("e2_vector_dof", "const std::vector<SE2d>* a, long* out", "  *out = ::smooth::dof(*a);\n", [0])
    add("e2_variant_rminus", "const std::variant<SO3d, SE2d>* a, const std::variant<SO3d, SE2d>* b, Eigen::VectorXd* out",
        "  *out = ::smooth::rminus(*a, *b);\n", [0, 1], True)
    add("e2_variant_rplus", "const std::variant<SO3d, SE2d>* a, const Eigen::VectorXd* t, std::variant<SO3d, SE2d>* out",
        "  *out = ::smooth::rplus(*a, *t);\n", [0, 1], True)
    add("e2_any_rminus", "const AnyManifold* a, const AnyManifold* b, Eigen::VectorXd* out",
        "  *out = a->rminus(*b);\n", [0, 1], True)
    add("e2_any_rplus", "const AnyManifold* a, const Eigen::VectorXd* t, AnyManifold* out",
        "  *out = a->rplus(*t);\n", [0, 1], True)
    add("e2_any_dof", "const AnyManifold* a, long* out", "  *out = a->dof();\n", [0], True)
    add("e2_any_wrappers", "const AnyManifold* a, long* out",
        "  AnyManifold x(SO3d::Identity()); AnyManifold y(SE2d::Identity()); AnyManifold z(Eigen::Vector3d::Zero().eval());\n"
        "  *out = x.dof() + y.dof() + z.dof() + a->dof();\n", [0], True)
    # splines
    for K, G in ((3, "SO3d"), (5, "SE2d"), (1, "SE3d")):
        add("e2_spline%d_%s_eval" % (K, G), "const Spline<%d, %s>* s, const double* t, %s* g, double* vel, double* acc" % (K, G, G),
            "  Eigen::Matrix<double, %s::Dof, 1> v, a;\n  *g = (*s)(*t, v, a);\n"
            "  Eigen::Map<Eigen::Matrix<double, %s::Dof, 1>> mv(vel), ma(acc); mv = v; ma = a;\n" % (G, G), [0, 1])
    add("e2_spline_misc", "const Spline<3, SO3d>* s, double* out, SO3d* g",
        "  out[0] = s->t_min(); out[1] = s->t_max(); out[2] = double(s->size()); *g = s->start() * s->end();\n", [0])
    add("e2_spline_arclength", "const Spline<3, Eigen::Vector2d>* s, const double* t, double* out",
        "  Eigen::Map<Eigen::Vector2d> mo(out); mo = s->arclength(*t);\n", [0, 1])
    add("e2_spline_crop", "const Spline<3, SO3d>* s, const double* t, Spline<3, SO3d>* out",
        "  *out = s->crop(t[0], t[1]);\n", [0, 1])
    for K, G in ((3, "SO3d"), (4, "SE2d")):
        add("e2_bspline%d_%s_eval" % (K, G), "const BSpline<%d, %s>* s, const double* t, %s* g, double* vel, double* acc" % (K, G, G),
            "  Eigen::Matrix<double, %s::Dof, 1> v, a;\n  *g = (*s)(*t, v, a);\n"
            "  Eigen::Map<Eigen::Matrix<double, %s::Dof, 1>> mv(vel), ma(acc); mv = v; ma = a;\n" % (G, G), [0, 1])
    # sparse derivative evaluation into a thread-private output
    for G in ("SO3d", "SE2d", "SE3d", "Bundle<SO3d, Eigen::Vector2d, SE2d>"):
        tag = re.sub(r"[^A-Za-z0-9]", "", G)
        add("e2_sparse_%s" % tag, "const Eigen::Matrix<double, Dof<%s>, 1>* a, Eigen::SparseMatrix<double>* sp, Eigen::SparseMatrix<double>* sp2" % G,
            "  using GT = %s;\n  ad_sparse<GT>(*sp, *a); dr_exp_sparse<GT>(*sp, *a); dr_expinv_sparse<GT>(*sp, *a);\n"
            "  d2r_exp_sparse<GT>(*sp2, *a); d2r_expinv_sparse<GT>(*sp2, *a);\n" % G, [0])
    # diff::dr on shared const arguments; minimize with private state
    add("e2_diff_dr", "const SE3d* g, const Eigen::Vector3d* v, Eigen::Vector3d* out, Eigen::Matrix<double, 3, 9>* J",
        "  auto f = [](const auto & x, const auto & y) { return x * y; };\n"
        "  const auto [val, jac] = diff::dr<1, diff::Type::Numerical>(f, wrt(*g, *v));\n  *out = val; *J = jac;\n", [0, 1])
    add("e2_minimize", "const SO3d* target, SO3d* x, double* out",
        "  auto f = [&](const auto & g) -> Eigen::Vector3d { return g - *target; };\n"
        "  const auto res = minimize(f, wrt(*x));\n  out[0] = double(res.iter);\n", [0])
    add("e2_minimize_shared_opts", "const SO3d* target, const MinimizeOptions* opts, SO3d* x, double* out",
        "  auto f = [&](const auto & g) -> Eigen::Vector3d { return g - *target; };\n"
        "  const auto res = minimize(f, wrt(*x), *opts);\n  out[0] = double(res.iter);\n", [0, 1])
    add("e2_fit", "const std::vector<double>* ts, const std::vector<SO3d>* gs, Spline<3, SO3d>* out",
        "  *out = fit_spline(*ts, *gs, spline_specs::FixedDerCubic<SO3d, 2>{});\n", [0, 1])
    return ws


BENIGN_GLOBAL_WRITERS = ("@__cxa_guard", "@_ZGV")


def _sig_of_def(f):
    """(return type, [param first tokens], [sret flags]) of a defined function."""
    m = re.match(r"^define (?:[\w()]+ )*?(\S+) @", f.attrs_line)
    rt = None
    mm = re.search(r"(\S+)\s+" + re.escape(f.name) + r"\(", f.attrs_line)
    if mm:
        rt = mm.group(1)
    return rt, [p[0] for p in f.params], ["sret" in p[1] for p in f.params]


def _sig_of_call(ins):
    t = ins.text
    m = re.search(r"(?:call|invoke)\s+(?:[a-z_]+\s+)*?(\S+)\s+(" + ir.NAME + r")\s*\(", t)
    rt = m.group(1) if m else None
    args = ir.split_top(ir.FuncFacts._call_args(t))
    return rt, [a.split()[0] for a in args], ["sret" in a for a in args]


def classify_roots(prov):
    """-> (set of param indices, [global names], [unresolved descriptions]) reachable as write destination."""
    ps, gs, un = set(), [], []
    for r in ir.flat_roots(prov.root):
        kind = ir.root_kind(r)
        rp = ir.root_param(r)
        if rp is not None:
            ps.add(rp)
        elif kind == "global":
            rr = r
            while rr[0] == "loaded":
                rr = rr[1]
            gs.append(rr[1])
        elif kind in ("alloca", "heap", "null"):
            pass
        else:
            un.append(str(r))
    return ps, gs, un


def guarded_globals(mod, f):
    """Globals whose guard variable is acquired in f (thread-safe initialisation of a function-local / inline static), each with
    its initialisation region: the acquire block and the blocks between its "guard acquired" successor and the matching
    __cxa_guard_release / __cxa_guard_abort (paths that do not come back through the acquire block, so that an enclosing loop does
    not turn the whole loop body into the region).  Only writes inside that region are the one-time initialisation; a write to the same global anywhere
    else in f is an ordinary write to shared mutable state."""
    acq, rel = {}, {}
    for lab in f.order:
        for ins in f.blocks[lab]:
            if ins.op in ("call", "invoke") and "__cxa_guard_" in ins.text:
                m = re.search(r"@_ZGV([\w$.]+)", ins.text)
                if not m:
                    continue
                g = "@_Z" + m.group(1)
                if "__cxa_guard_acquire" in ins.text:
                    acq.setdefault(g, set()).add(lab)
                elif "__cxa_guard_release" in ins.text or "__cxa_guard_abort" in ins.text:
                    rel.setdefault(g, set()).add(lab)
    succ = {l: list(f.succ.get(l, [])) for l in f.order}
    for l in f.order:
        # an invoke is printed on two lines; its continuation line `to label %n unwind label %u` is the block's last instruction
        if f.blocks[l] and f.blocks[l][-1].op == "to":
            for m in re.finditer(r"label (" + ir.NAME + r")", f.blocks[l][-1].text):
                if m.group(1) not in succ[l]:
                    succ[l].append(m.group(1))
    pred = {l: [] for l in f.order}
    for a, ss in succ.items():
        for b in ss:
            pred.setdefault(b, []).append(a)

    def closure(start, edges):
        seen, todo = set(start), list(start)
        while todo:
            x = todo.pop()
            for y in edges.get(x, []):
                if y not in seen:
                    seen.add(y)
                    todo.append(y)
        return seen

    def forward(start, removed, stop):
        seen, todo = set(), [s for s in start if s not in removed]
        while todo:
            x = todo.pop()
            if x in seen:
                continue
            seen.add(x)
            if x in stop:
                continue       # the region ends with the release / abort block
            for y in succ.get(x, []):
                if y not in removed and y not in seen:
                    todo.append(y)
        return seen

    out = {}
    for g, labs in acq.items():
        if g not in rel:
            out[g] = set(f.order)      # release not visible in this function (initialisation in a callee): keep the whole function
            continue
        region = set(labs)
        for a in labs:
            for s in succ.get(a, []):
                # the successor taken when the guard was acquired is the one that reaches the release without coming back
                # through the acquire block; the other one ("already initialised") reaches it only around an enclosing loop
                r = forward([s], {a}, rel[g])
                if r & rel[g]:
                    region |= r
        out[g] = region & (closure(labs, succ) & closure(rel[g], pred))
    return out


def summarize_param_writes(mod, cache, fname, vfuncs=None):
    """For a defined function: parameter indices through which (transitively, via loaded pointers and callees, incl.
    every signature-compatible virtual target of indirect calls) memory may be written; global writes; unresolved notes."""
    if fname in cache:
        return cache[fname]
    cache[fname] = {"params": set(), "globals": [], "unres": [], "indirect": 0}   # recursion guard
    f = mod.funcs[fname]
    ff = ir.FuncFacts(mod, f)
    res = {"params": set(), "globals": [], "unres": [], "indirect": 0}
    guarded = guarded_globals(mod, f)
    for w in ff.writes():
        ps, gs, un = classify_roots(w["prov"])
        res["params"] |= ps
        for g in gs:
            if g in guarded and w["instr"].block in guarded[g]:
                continue
            res["globals"].append((g, w["instr"].text[:120], fname))
        for u in un:
            res["unres"].append("%s: write with unresolved destination %s: %s" % (fname, u, w["instr"].text[:100]))

    def apply_callee(sub, args, how, blk=None):
        def in_init(g):
            return g in guarded and (blk is None or blk in guarded[g])

        for pi in sub["params"]:
            if pi < len(args):
                a = args[pi]
                if a.startswith("%") or a.startswith("@"):
                    ps, gs, un = classify_roots(ff.prov(a))
                    res["params"] |= ps
                    for g in gs:
                        if not in_init(g):
                            res["globals"].append((g, how, fname))
                    for u in un:
                        res["unres"].append("%s: %s writes through argument %d of unresolved provenance %s" % (fname, how, pi, u))
        res["globals"] += [g for g in sub["globals"] if not in_init(g[0])]
        res["unres"] += sub["unres"]
        res["indirect"] += sub["indirect"]

    for cal, args, ins in ff.calls():
        if cal is None:
            res["indirect"] += 1
            if vfuncs is None:
                vfuncs = vtable_functions(mod)
            csig = _sig_of_call(ins)
            for vf in sorted(vfuncs):
                if re.search(r"D[012]Ev$", vf):
                    continue   # destructors are not reachable from const operations on shared objects
                if _sig_of_def(mod.funcs[vf]) != csig:
                    continue
                apply_callee(summarize_param_writes(mod, cache, vf, vfuncs), args, "virtual target %s" % vf, ins.block)
            continue
        if cal.startswith("@llvm.") or cal in ir.PURE_FUNCS or cal in ir.ALLOC_FUNCS or cal in ir.FREE_FUNCS \
                or cal in ir.NORETURN_FUNCS or cal in ir.BENIGN_FUNCS or cal in ("@memcpy", "@memset", "@memmove") \
                or cal.startswith(ir.IO_PREFIXES):
            continue
        if cal in mod.funcs:
            apply_callee(summarize_param_writes(mod, cache, cal, vfuncs), args, "callee %s" % cal, ins.block)
        else:
            res["unres"].append("%s: call to external function %s with unknown effects" % (fname, cal))
    cache[fname] = res
    return res


def vtable_functions(mod):
    out = set()
    for g, info in mod.globals.items():
        if g.startswith("@_ZTV"):
            for m in re.finditer(r"ptr (" + ir.GNAME + ")", info["line"]):
                if m.group(1) in mod.funcs:
                    out.add(m.group(1))
    return out


def check_e2(rep, tier):
    ir.KEEP_CONST_GEP = True   # writes through constant expressions into globals (function-local statics) resolve to the global
    ws = e2_witnesses(tier)
    rep.rule("E2", "operation-family witnesses: no write reaches a shared const input or a mutable global", minimum=40)
    W0 = irw.IRW("c18", E2_PRELUDE, chunk=3, exceptions=True)
    for name, sig, body, cps, exc in ws:
        W0.add(name, sig, body, cps=cps)
    facts = W0.build()
    rep.unit("%d E2 witness functions" % len(ws))
    caches = {}
    for name, (ff, meta, mod) in sorted(facts.items()):
        cache = caches.setdefault(id(mod), {})
        summ = summarize_param_writes(mod, cache, "@" + name)
        cps = set(meta["cps"])
        bad = sorted(summ["params"] & cps)
        mut_globals = []
        seen_g = set()
        for g, t, fn in summ["globals"]:
            if mod.globals.get(g, {}).get("const") or g.startswith("@_ZGV") or g in seen_g:
                continue
            seen_g.add(g)
            mut_globals.append((g, t, fn))
        unres = sorted(set(summ["unres"]))
        ok = not bad and not mut_globals
        rep.instance("E2", name, "effects", ok=ok and not unres,
                     sample={"const_params": sorted(cps), "params_written": sorted(summ["params"]),
                             "globals_written": sorted(seen_g)[:5], "indirect_calls": summ["indirect"]})
        for u in unres[:3]:
            rep.broke(u)
        if bad:
            detail = ""
            for w in ff.writes():
                if classify_roots(w["prov"])[0] & set(bad):
                    detail = w["instr"].text[:140]
                    break
            rep.violation(Finding("E2", name, "param%s" % bad,
                                  "operation writes memory reachable from its shared const input parameter(s) %s: %s"
                                  % (bad, detail or "(in a callee)")))
        for g, t, fn in mut_globals[:3]:
            rep.violation(Finding("E2", name, "global:%s" % g[:80], "operation writes mutable global %s in %s: %s" % (g[:120], fn[:80], t)))


def check(rep, tier, replay=None):
    rep.explanations.append(
        "C18 is a pure effect property: E1 excludes shared mutable state syntactically (mutable members, non-const statics "
        "other than frozen write-once tables that are only read); E2 confirms on the optimized IR of operation-family "
        "witnesses that no store reaches a const input or a mutable global.  Both hold for every schedule because they are "
        "facts about the code.")
    rep.trusted.update(["clang++-16 front end and -O2 pipeline", "lib/ir.py provenance analysis",
                        "tables/static_tables.json (write-once tables with reasons)"])
    rep.assumptions.append("MinimizeOptions::strat state is per-options by design; sharing one options object across threads is outside the property")
    rep.assumptions.append("console output (iostream calls reachable under opts.verbose) writes only stream state and is outside the property")
    rep.assumptions.append("C++11 thread-safe initialisation of function-local and inline statics (ABI guard variables)")
    objs = fe.ast_dump("smooth::")
    rep.unit("umbrella TU (%d headers), filter smooth::" % len(fe.umbrella_headers()))
    check_e1(rep, objs)
    check_staticarg(rep, objs)
    check_e2(rep, tier)
