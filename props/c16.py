"""C16 -- Map views are interchangeable with values and write only their own memory.

M1 (W)  no mutating expression compiles on Map<const G> / const G; positive twins compile.
M1i(I)  non-mutating operations contain no store/memset/memcpy into their const inputs.
M2 (I)  write-sets of mutating operations == [0, RepSize*sizeof(Scalar)); sub-part views write exactly the
        documented sub-range; sub-ranges disjoint and covering; const overloads read the same offsets.
M3 (I)  construction/assignment between value / Map / const Map copies word k to word k; cast<S> converts in place.
M5 (A)  no const_cast in include/smooth; no mutable field / extra field in group & Map classes.
M6 (I, thorough) vectorised build: accesses through buffer parameters assume no more than alignof(Scalar).
"""
import re

import astlib as A
import fe
import groups
import ir
import irw
import wit
from report import Finding


def S(g):
    return g.scalar


def decls(g):
    return ("using S_ = %s; using GT = %s;\n" % (g.scalar, g.ctype))


def ctx(g):
    return ("  S_ buf[GT::RepSize] = {}; S_ tb[GT::Dof] = {}; const S_* cp = buf; S_* p = buf;\n"
            "  smooth::Map<const GT> cm(cp); smooth::Map<GT> m(p); GT g; g.setIdentity(); const GT & cg = g;\n"
            "  Eigen::Map<const Eigen::Matrix<S_, GT::Dof, 1>> t(tb);\n"
            "  (void)cm; (void)m; (void)cg; (void)t;\n")


def m1_witnesses(g):
    """[(id, statement on const object, statement on mutable twin)]"""
    out = []
    for objc, objm, tag in (("cm", "m", "map"), ("cg", "g", "val")):
        out += [
            ("%s_%s_setIdentity" % (g.key, tag), "%s.setIdentity();" % objc, "%s.setIdentity();" % objm),
            ("%s_%s_setRandom" % (g.key, tag), "%s.setRandom();" % objc, "%s.setRandom();" % objm),
            ("%s_%s_assign" % (g.key, tag), "%s = g;" % objc, "%s = g;" % objm),
            ("%s_%s_muleq" % (g.key, tag), "%s *= g;" % objc, "%s *= g;" % objm),
            ("%s_%s_pluseq" % (g.key, tag), "%s += t;" % objc, "%s += t;" % objm),
            ("%s_%s_coeffs" % (g.key, tag), "%s.coeffs()(0) = S_(1);" % objc, "%s.coeffs()(0) = S_(1);" % objm),
            ("%s_%s_data" % (g.key, tag), "%s.data()[0] = S_(1);" % objc, "%s.data()[0] = S_(1);" % objm),
        ]
        for pt in g.parts + g.extra_parts:
            if pt.kind == "group":
                out.append(("%s_%s_%s_setId" % (g.key, tag, pt.tag), "%s.%s.setIdentity();" % (objc, pt.acc),
                            "%s.%s.setIdentity();" % (objm, pt.acc)))
                out.append(("%s_%s_%s_assign" % (g.key, tag, pt.tag), "%s.%s = %s::Identity();" % (objc, pt.acc, pt.ctype),
                            "%s.%s = %s::Identity();" % (objm, pt.acc, pt.ctype)))
            elif pt.kind == "vec":
                out.append(("%s_%s_%s_elem" % (g.key, tag, pt.tag), "%s.%s(0) = S_(1);" % (objc, pt.acc),
                            "%s.%s(0) = S_(1);" % (objm, pt.acc)))
                out.append(("%s_%s_%s_setZero" % (g.key, tag, pt.tag), "%s.%s.setZero();" % (objc, pt.acc),
                            "%s.%s.setZero();" % (objm, pt.acc)))
            elif pt.kind == "quat":
                out.append(("%s_%s_%s_coeff" % (g.key, tag, pt.tag), "%s.%s.coeffs()(0) = S_(1);" % (objc, pt.acc),
                            "%s.%s.coeffs()(0) = S_(1);" % (objm, pt.acc)))
    out.append(("%s_ctor_from_constptr" % g.key, "smooth::Map<GT> mm(cp); (void)mm;", "smooth::Map<GT> mm(p); (void)mm;"))
    out.append(("%s_ctor_from_cmap_data" % g.key, "smooth::Map<GT> mm(cm.data()); (void)mm;", "smooth::Map<GT> mm(m.data()); (void)mm;"))
    out.append(("%s_base_coeffs_hole" % g.key,
                "static_cast<const smooth::LieGroupBase<smooth::Map<const GT>>&>(cm).coeffs()(0) = S_(1);",
                "m.coeffs()(0) = S_(1);"))
    return out


def run_m1(rep, gs):
    rep.rule("M1", "mutating expression on Map<const G>/const G must not compile; mutable twin must", minimum=100)
    neg, pos = [], []
    for g in gs:
        for wid, sneg, spos in m1_witnesses(g):
            neg.append(wit.Wit("n_" + wid, ctx(g) + "  " + sneg, decls(g), what=sneg, group=g.key))
            pos.append(wit.Wit("p_" + wid, ctx(g) + "  " + spos, decls(g), what=spos, group=g.key))
    pch = wit.PCH(groups.PRELUDE, "c16")
    failed, unattr, raw = wit.compile_batch(groups.PRELUDE, pos, name="c16pos")
    if unattr:
        rep.broke("positive twin batch has unattributable errors: %s" % unattr[:3])
    res = pch.compile_many(neg)
    rep.cmds.append("g++ -std=gnu++20 -fsyntax-only (one TU per negative witness, PCH); positive twins batched")
    rep.trusted.add("g++ 12 front end (overload resolution, constraints, const-correctness)")
    for w, wp, (rc, errs, raw) in zip(neg, pos, res):
        twin_ok = wp.id not in failed
        ok = rc != 0 and len(errs) > 0
        rep.instance("M1", w.group, w.id, ok=ok and twin_ok,
                     sample={"negative": w.what, "twin": wp.what, "first_error": (errs[0][-160:] if errs else None)})
        if not twin_ok:
            rep.broke("positive twin %s does not compile (witness pair is not testing const-ness): %s"
                      % (wp.id, failed[wp.id][:1]))
        elif not ok:
            rep.violation(Finding("M1", w.group, w.id,
                                  "mutating expression compiles on a const view/object: `%s`" % w.what,
                                  "include/smooth/lie_group_base.hpp", None))



def run_m8(rep, gs):
    """M8: operations documented to return a new element return an owning value (never a second view of the operand's storage),
    whatever the storage of the operand: cast<S>() (same and different scalar), inverse(), operator*, exp / log results, operator=."""
    rep.rule("M8", "cast / inverse / product of a Map or value return an owning PlainObject, not a view of the operand", minimum=20)
    pos = []
    for g in gs:
        if g.scalar != "double":
            continue
        other = "float"
        ct = g.ctype
        cast_same = ct
        cast_other = ct.replace("double", "float")
        for src, tag in (("smooth::Map<%s>" % ct, "map"), ("smooth::Map<const %s>" % ct, "cmap"), (ct, "val")):
            d = ("using Src_%s_%s = %s;\n" % (g.key, tag, src)
                 + "static_assert(std::is_same_v<decltype(std::declval<const Src_%s_%s &>().template cast<double>()), %s>, \"cast<double>() of %s is not an owning value\");\n" % (g.key, tag, cast_same, tag)
                 + "static_assert(std::is_same_v<decltype(std::declval<const Src_%s_%s &>().template cast<float>()), %s>, \"cast<float>() of %s is not an owning value\");\n" % (g.key, tag, cast_other, tag)
                 + "static_assert(std::is_same_v<decltype(std::declval<const Src_%s_%s &>().inverse()), %s>, \"inverse() of %s is not an owning value\");\n" % (g.key, tag, ct, tag)
                 + "static_assert(std::is_same_v<decltype(std::declval<const Src_%s_%s &>() * std::declval<const Src_%s_%s &>()), %s>, \"product of %s is not an owning value\");\n" % (g.key, tag, g.key, tag, ct, tag))
            pos.append(wit.Wit("own_%s_%s" % (g.key, tag), "", d, what="cast<double|float>(), inverse(), operator* of %s return %s by value" % (src, ct), group=g.key))
    failed, unattr, raw = wit.compile_batch(groups.PRELUDE, pos, name="c16m8")
    if unattr:
        rep.broke("M8 batch has unattributable errors: %s" % unattr[:2])
    for w in pos:
        bad = w.id in failed
        rep.instance("M8", w.group, w.id, ok=not bad, sample={"obligation": w.what})
        if bad:
            rep.violation(Finding("M8", w.group, w.id, "%s -- %s" % (failed[w.id][0][-170:], w.what), "include/smooth/lie_group_base.hpp", None))

# ----------------------------------------------------------------------------------------------

def part_src_type(g, pt):
    if pt.kind == "vec":
        return "Eigen::Map<const Eigen::Matrix<S_, %d, 1>>" % pt.size
    if pt.kind == "group":
        return "smooth::Map<const %s>" % pt.ctype
    return "Eigen::Map<const Eigen::Quaternion<S_>>"


def build_ir_witnesses(gs, tier):
    W = irw.IRW("c16", groups.PRELUDE + "#include <new>\n", chunk=10)
    for g in gs:
        k = g.key
        pre = "  using S_ = %s; using GT = %s;\n" % (g.scalar, g.ctype)
        tmap = "  Eigen::Map<const Eigen::Matrix<S_, GT::Dof, 1>> t(tan);\n"
        # --- M2 whole-element mutations, destination Map and value
        for dst, dsig, dexpr in (("map", "%s* buf" % g.scalar, "  smooth::Map<GT> d(buf);\n"),
                                 ("val", "%s* buf" % g.ctype, "  GT & d = *buf;\n")):
            sig = "%s, const %s* src, const %s* tan" % (dsig, g.scalar, g.scalar)
            sm = "  smooth::Map<const GT> s(src);\n"
            ops = {
                "setIdentity": "  d.setIdentity();\n",
                "assign": sm + "  d = s;\n",
                "muleq": sm + "  d *= s;\n",
                "pluseq": tmap + "  d += t;\n",
                "assign_exp": tmap + "  d = GT::exp(t);\n",
                "assign_inverse": sm + "  d = s.inverse();\n",
                "assign_product": sm + "  d = s * s;\n",
            }
            for op, body in ops.items():
                W.add("m2_%s_%s_%s" % (k, dst, op), sig, pre + dexpr + body, rule="M2", g=g, dst=dst, op=op,
                      expect=(0, g.rep * g.ssize), const_params=[1, 2])
            # --- sub-part views
            for pt in g.parts + g.extra_parts:
                st = part_src_type(g, pt)
                pops = {"assign": "  d.%s = %s(src);\n" % (pt.acc, st)}
                if pt.kind == "group":
                    pops["setIdentity"] = "  d.%s.setIdentity();\n" % pt.acc
                    pops["muleq"] = "  d.%s *= %s(src);\n" % (pt.acc, st)
                if pt.kind == "vec":
                    pops["setZero"] = "  d.%s.setZero();\n" % pt.acc
                for op, body in pops.items():
                    W.add("m2_%s_%s_part_%s_%s" % (k, dst, pt.tag, op), "%s, const %s* src" % (dsig, g.scalar),
                          pre + dexpr + body, rule="M2p", g=g, dst=dst, op=op, part=pt,
                          expect=(pt.off * g.ssize, pt.size * g.ssize), const_params=[1])
        # --- const overload reads the same offset
        for pt in g.parts + g.extra_parts:
            rd = {"vec": "cm.%s" % pt.acc, "group": "cm.%s.coeffs()" % pt.acc, "quat": "cm.%s.coeffs()" % pt.acc}[pt.kind]
            W.add("m2_%s_constread_%s" % (k, pt.tag), "const %s* src, %s* out" % (g.scalar, g.scalar),
                  pre + "  smooth::Map<const GT> cm(src); Eigen::Map<Eigen::Matrix<S_, %d, 1>> o(out);\n  o = %s;\n" % (pt.size, rd),
                  rule="M2r", g=g, part=pt)
            W.add("m2_%s_mutread_%s" % (k, pt.tag), "%s* src, %s* out" % (g.scalar, g.scalar),
                  pre + "  smooth::Map<GT> cm(src); Eigen::Map<Eigen::Matrix<S_, %d, 1>> o(out);\n  o = %s;\n" % (pt.size, rd),
                  rule="M2r", g=g, part=pt)
        # --- M3 verbatim copies between storage kinds
        srcs = {"val": ("const %s* src" % g.ctype, "  const GT & s = *src;\n"),
                "map": ("%s* src" % g.scalar, "  smooth::Map<GT> s(src);\n"),
                "cmap": ("const %s* src" % g.scalar, "  smooth::Map<const GT> s(src);\n")}
        dsts = {"val_assign": ("%s* dst" % g.ctype, "  *dst = s;\n"),
                "val_construct": ("%s* dst" % g.ctype, "  new (dst) GT(s);\n"),
                "map_assign": ("%s* dst" % g.scalar, "  smooth::Map<GT> d(dst); d = s;\n")}
        for sk, (ssig, sdecl) in srcs.items():
            for dk, (dsig, dbody) in dsts.items():
                W.add("m3_%s_%s_to_%s" % (k, sk, dk), "%s, %s" % (dsig, ssig), pre + sdecl + dbody,
                      rule="M3", g=g, conv=None)
        other = "float" if g.scalar == "double" else "double"
        oty = g.ctype.replace(g.scalar, other)
        for so in (g.scalar, other):
            ot = g.ctype if so == g.scalar else oty
            W.add("m3_%s_cast_%s" % (k, so), "%s* dst, const %s* src" % (so, g.scalar),
                  pre + "  smooth::Map<const GT> s(src); smooth::Map<%s> d(dst);\n  d = s.template cast<%s>();\n" % (ot, so),
                  rule="M3", g=g, conv=(None if so == g.scalar else ("fptrunc" if so == "float" else "fpext")),
                  dst_ssize=(8 if so == "double" else 4))
        # --- M1i non-mutating operations: const inputs are never written
        for ak, (asig, adecl) in {"cmap": ("const %s* a, const %s* b" % (g.scalar, g.scalar),
                                           "  smooth::Map<const GT> ca(a), cb(b);\n"),
                                  "val": ("const %s* a, const %s* b" % (g.ctype, g.ctype),
                                          "  const GT & ca = *a; const GT & cb = *b;\n")}.items():
            outm = "  smooth::Map<GT> o(out);\n"
            nm = {
                "log": "  Eigen::Map<Eigen::Matrix<S_, GT::Dof, 1>> o(out); o = ca.log();\n",
                "inverse": outm + "  o = ca.inverse();\n",
                "compose": outm + "  o = ca * cb;\n",
                "Ad": "  Eigen::Map<Eigen::Matrix<S_, GT::Dof, GT::Dof>> o(out); o = ca.Ad();\n",
                "matrix": "  Eigen::Map<Eigen::Matrix<S_, GT::Dim, GT::Dim>> o(out); o = ca.matrix();\n",
                "rminus": "  Eigen::Map<Eigen::Matrix<S_, GT::Dof, 1>> o(out); o = ca - cb;\n",
                "chain": "  Eigen::Map<Eigen::Matrix<S_, GT::Dof, 1>> o(out); o = (ca * cb.inverse()).log();\n",
                "rplus": outm + "  o = ca + (cb - ca);\n",
            }
            for op, body in nm.items():
                W.add("m1_%s_%s_%s" % (k, ak, op), "%s, %s* out" % (asig, g.scalar), pre + adecl + body,
                      rule="M1i", g=g, op=op, const_params=[0, 1])
    return W


def check_ir(rep, gs, tier):
    W = build_ir_witnesses(gs, tier)
    facts = W.build()
    rep.cmds.append(fe.clangxx() + " " + " ".join(fe.IR_FLAGS))
    rep.trusted.add("clang++-16 -O2 pipeline (IR faithfully represents the program's memory effects)")
    rep.unit("%d generated witness functions (extern \"C\"), %d TUs" % (len(W.wits), (len(W.wits) + W.chunk - 1) // W.chunk))
    rep.rule("M2", "whole-element mutation writes exactly [0,RepSize*sizeof(Scalar)) of its own buffer, nothing else", minimum=100)
    rep.rule("M2p", "sub-part view writes exactly its documented sub-range", minimum=50)
    rep.rule("M2r", "const and mutable sub-part overloads read the documented offsets", minimum=30)
    rep.rule("M2d", "sub-ranges of one group are pairwise disjoint and cover [0,RepSize)", minimum=5)
    rep.rule("M3", "cross-storage construction/assignment/cast copies word k to word k", minimum=80)
    rep.rule("M7", "in-place *= / += read all operands before the first write to the destination (alias-safe)", minimum=15)
    rep.rule("M1i", "non-mutating operations never write their const inputs", minimum=100)
    hdr = {"map": "include/smooth/detail/macro.hpp"}
    measured_parts = {}
    for fname, (ff, meta, mod) in sorted(facts.items()):
        g = meta["g"]
        rule = meta["rule"]
        try:
            ws = ff.writes()
        except ir.Unresolved as e:
            rep.broke("%s: %s" % (fname, e))
            continue
        bad_prov = [w for w in ws if ir.root_kind(w["prov"].root) in ("unknown", "callret", "multi")]
        if bad_prov:
            rep.broke("%s: %d write(s) with unresolved destination, e.g. %s" % (fname, len(bad_prov), bad_prov[0]["instr"].text[:120]))
            continue
        if rule in ("M2", "M2p"):
            lo, n = meta["expect"]
            rs, problems = irw.write_ranges(ff, 0)
            if problems:
                rep.broke("%s: %s" % (fname, problems[0]))
                continue
            cov = irw.covered(rs)
            exp = set(range(lo, lo + n))
            foreign = irw.foreign_writes(ff, {0})
            ok = cov == exp and not foreign
            inst = "%s/%s/%s" % (meta["dst"], meta.get("part").acc if meta.get("part") else "whole", meta["op"])
            rep.instance(rule, g.ctype, inst, ok=ok,
                         sample={"witness": fname, "written_bytes": _ranges(cov), "expected_bytes": [lo, lo + n]})
            if foreign:
                w = foreign[0]
                rep.violation(Finding(rule, g.ctype, inst, "writes outside its own buffer: destination %s (%s)"
                                      % (w["prov"], w["instr"].text[:100]), None, None, detail={"witness": fname}))
            elif cov != exp:
                extra = sorted(cov - exp)
                missing = sorted(exp - cov)
                rep.violation(Finding(rule, g.ctype, inst,
                                      "write-set %s differs from the documented region [%d,%d): extra bytes %s, missing bytes %s"
                                      % (_ranges(cov), lo, lo + n, _ranges(set(extra)), _ranges(set(missing))),
                                      None, None, detail={"witness": fname}))
            if rule == "M2p" and meta["op"] == "assign" and meta["dst"] == "map" and any(meta["part"] is q for q in g.parts):
                measured_parts.setdefault(g.key, {})[meta["part"].acc] = (cov, meta["part"].kind)
            if meta["op"] in ("muleq", "pluseq") and meta["dst"] == "map":
                las = irw.loads_after_stores(ff, 0, set(meta["const_params"]))
                rep.instance("M7", g.ctype, inst, ok=not las, sample={"witness": fname})
                if las:
                    rep.violation(Finding("M7", g.ctype, inst,
                                          "in-place operation reads an operand after it has started writing its destination "
                                          "(load `%s` may follow store `%s`): if the operand views the same or an overlapping region (x *= x, "
                                          "m *= Map over the same buffer) the result is not the value-semantic one; %d such load(s)"
                                          % (las[0][0], las[0][1], len(las)), "include/smooth/lie_group_base.hpp", None, detail={"witness": fname}))
        elif rule == "M2r":
            pt = meta["part"]
            ok = True
            msg = None
            outs = [w for w in ws if w["prov"].root == ("param", 1)]
            if len(outs) != pt.size:
                ok, msg = False, "expected %d stores to the output, found %d" % (pt.size, len(outs))
            for w in outs:
                kidx = w["prov"].off // g.ssize if w["prov"].off is not None else None
                src = _load_source(ff, w["value"])
                if kidx is None or src is None or src.root != ("param", 0) or src.off != (pt.off + kidx) * g.ssize:
                    ok = False
                    msg = "output word %s is read from %s, documented source offset %d" % (kidx, src, (pt.off + (kidx or 0)) * g.ssize)
                    break
            rep.instance("M2r", g.ctype, "%s/%s" % ("const" if "constread" in fname else "mutable", pt.acc),
                         ok=ok, sample={"witness": fname, "offset_scalars": pt.off, "size": pt.size})
            if not ok:
                rep.violation(Finding("M2r", g.ctype, "%s/%s" % ("const" if "constread" in fname else "mutable", pt.acc),
                                      "sub-part accessor reads the wrong region: " + msg, None, None, detail={"witness": fname}))
        elif rule == "M3":
            conv = meta.get("conv")
            dss = meta.get("dst_ssize", g.ssize)
            outs = [w for w in ws if w["prov"].root == ("param", 0)]
            foreign = irw.foreign_writes(ff, {0})
            ok = not foreign
            msg = None
            seen = set()
            copied = {}
            for w in outs:
                if w["kind"] == "memcpy":
                    sp = w["src"]
                    if sp.root != ("param", 1) or sp.off != w["prov"].off or conv:
                        ok, msg = False, "memcpy from %s to offset %s" % (sp, w["prov"].off)
                    else:
                        for b in range(w["prov"].off, w["prov"].off + (w["size"] or 0), dss):
                            seen.add(b // dss)
                    continue
                if w["prov"].off is None:
                    ok, msg = False, "non-constant destination offset"
                    break
                kidx = w["prov"].off // dss
                src = _load_source(ff, w["value"], conv)
                nwords = max(1, (w["size"] or dss) // dss)
                if nwords > 1 and conv is None and src is not None and src.root == ("param", 1) and src.off == kidx * g.ssize \
                        and _load_width(ff, w["value"]) == w["size"]:
                    seen.update(range(kidx, kidx + nwords))      # one wide load/store pair copies several consecutive words verbatim
                    continue
                if src is None or src.root != ("param", 1) or src.off != kidx * g.ssize:
                    ok = False
                    msg = "destination word %d receives %s (expected source word %d%s)" % (
                        kidx, src if src is not None else "a computed value `%s`" % _def_text(ff, w["value"]), kidx,
                        " through " + conv if conv else "")
                    break
                seen.add(kidx)
            if ok and seen != set(range(g.rep)):
                ok, msg = False, "words copied %s, expected 0..%d" % (sorted(seen), g.rep - 1)
            inst = fname[len("m3_" + g.key) + 1:]
            rep.instance("M3", g.ctype, inst, ok=ok, sample={"witness": fname, "words": g.rep, "conversion": conv})
            if not ok:
                rep.violation(Finding("M3", g.ctype, inst, "copy between storage kinds is not verbatim: %s" % (msg or "foreign write"),
                                      None, None, detail={"witness": fname}))
        elif rule == "M1i":
            cps = set(meta["const_params"])
            badw = [w for w in ws if ir.root_param(w["prov"].root) in cps]
            inst = fname[len("m1_" + g.key) + 1:]
            rep.instance("M1i", g.ctype, inst, ok=not badw, sample={"witness": fname, "writes": len(ws)})
            # LLVM's own inference, when present, must agree
            for cp in cps:
                ptxt = ff.f.params[cp][1]
                if badw and "readonly" in ptxt:
                    rep.broke("%s: engine sees a write through param %d but LLVM marked it readonly" % (fname, cp))
            if badw:
                rep.violation(Finding("M1i", g.ctype, inst, "non-mutating operation writes through its const input: %s"
                                      % badw[0]["instr"].text[:120], None, None, detail={"witness": fname}))
    # disjointness / cover from the measured sub-part write sets
    for g in gs:
        mp = measured_parts.get(g.key)
        if not mp:
            continue
        items = [(a, c) for a, (c, kind) in mp.items() if kind != "quat"]
        if not items:
            continue
        ok = True
        msg = None
        for i in range(len(items)):
            for j in range(i + 1, len(items)):
                if items[i][1] & items[j][1]:
                    ok = False
                    msg = "%s and %s overlap on bytes %s" % (items[i][0], items[j][0], _ranges(items[i][1] & items[j][1]))
        union = set().union(*[c for _, c in items])
        if ok and union != set(range(g.rep * g.ssize)):
            ok = False
            msg = "sub-parts cover %s of [0,%d)" % (_ranges(union), g.rep * g.ssize)
        rep.instance("M2d", g.ctype, "parts", ok=ok, sample={"parts": {a: _ranges(c) for a, c in items}})
        if not ok:
            rep.violation(Finding("M2d", g.ctype, "parts", msg))


def _ranges(s):
    s = sorted(s)
    out = []
    for b in s:
        if out and out[-1][1] == b:
            out[-1][1] = b + 1
        else:
            out.append([b, b + 1])
    return out


def _def_text(ff, v):
    ins = ff.f.defs.get(v)
    return ins.text[:80] if ins else v


def _load_width(ff, v):
    ins = ff.f.defs.get(v)
    if ins is None or ins.op != "load":
        return None
    m = re.match(r"^load (?:volatile )?(.*?), ptr ", ins.text)
    try:
        return ff.mod.types.size_align(m.group(1))[0]
    except Exception:
        return None


def _load_source(ff, v, conv=None):
    """If SSA value v is `load` from a pointer (optionally through fpext/fptrunc), the pointer's provenance."""
    ins = ff.f.defs.get(v)
    if ins is None:
        return None
    if ins.op in ("fpext", "fptrunc"):
        if conv is None or ins.op != conv:
            return None
        m = re.search(r"(" + ir.NAME + r") to ", ins.text)
        if not m:
            return None
        return _load_source(ff, m.group(1), None)
    if conv is not None:
        return None
    if ins.op != "load":
        return None
    m = re.match(r"^load (?:volatile )?(.*?), ptr (\S+?)(?:,|$| )", ins.text)
    return ff.prov(m.group(2))


# ----------------------------------------------------------------------------------------------

def check_ast(rep):
    rep.rule("M5", "no const_cast / mutable field in group and Map classes; Map adds only its storage member", minimum=30)
    objs = fe.ast_dump("smooth::")
    n_cc = 0
    for top in objs:
        for x in A.walk(top):
            k = x.get("kind")
            if k == "CXXConstCastExpr":
                f, l = A.loc(x)
                if f and f.startswith(fe.INCLUDE):
                    n_cc += 1
                    rep.violation(Finding("M5", fe.rel(f), "const_cast@%s" % l, "const_cast in library code: %s" % A.text(x)[:80], f, l))
    idx = A.index(objs)
    group_classes = [d for d in idx if d.kind in ("CXXRecordDecl", "ClassTemplateSpecializationDecl", "ClassTemplatePartialSpecializationDecl")
                     and d.pattern and d.file and d.file.startswith(fe.INCLUDE) and d.node.get("completeDefinition")
                     and re.search(r"(^|::)(SO2|SO3|SE2|SE3|C1|Galilei|SE_K_3|Bundle)(Base)?(<.*>)?$|(^|::)Map<.*>$|LieGroupBase$", d.qname)]
    for d in group_classes:
        fields = [c for c in A.kids(d.node) if c.get("kind") == "FieldDecl"]
        muts = [c for c in fields if c.get("mutable")]
        names = [c.get("name") for c in fields]
        ok = not muts
        is_storage_class = bool(re.search(r"(^|::)Map<.*>$|(^|::)(SO2|SO3|SE2|SE3|C1|Galilei|SE_K_3|Bundle)$", d.qname))
        if is_storage_class and names != ["m_coeffs"]:
            ok = False
            rep.violation(Finding("M5", d.qname, "fields", "storage class has fields %s, expected exactly [m_coeffs] "
                                  "(value and view must run the same code on the same data)" % names, d.file, d.line))
        if (not is_storage_class) and names:
            ok = False
            rep.violation(Finding("M5", d.qname, "fields", "CRTP base class has data members %s" % names, d.file, d.line))
        for c in muts:
            rep.violation(Finding("M5", d.qname, "mutable:" + c.get("name", ""), "mutable data member in a group class", d.file, d.line))
        rep.instance("M5", d.qname, "fields", ok=ok, sample={"file": fe.rel(d.file), "line": d.line, "fields": names})
    rep.instance("M5", "include/smooth", "const_cast", ok=n_cc == 0, nontrivial=True, sample={"count": n_cc})
    # every accessor that hands out a view into the storage must be in the witness tables (props/groups.py)
    rep.rule("M0", "every view-returning accessor of the group classes is covered by write-set / read-offset witnesses", minimum=10)
    covered_names = {"SO3Base": {"quat"}, "SE2Base": {"r2", "so2"}, "SE3Base": {"r3", "so3"}, "GalileiBase": {"r3_v", "r3_p", "r1_t", "so3"},
                     "SE_K_3Base": {"r3", "so3"}, "BundleBase": {"part"}, "SO2Base": set(), "C1Base": set(), "LieGroupBase": set()}
    for d in idx:
        if d.kind in ("CXXMethodDecl",) and d.pattern and d.file and d.file.startswith(fe.INCLUDE) and d.parent is not None:
            cls = d.parent.qname.split("::")[-1]
            if cls not in covered_names:
                continue
            rt = d.node.get("type", {}).get("qualType", "")
            ret = rt.split("(")[0]
            if "Map<" in ret or "MapDispatch<" in ret:
                nm = d.qname.split("::")[-1]
                ok = nm in covered_names[cls]
                rep.instance("M0", d.parent.qname, nm, ok=ok, nontrivial=False, sample={"file": fe.rel(d.file), "line": d.line, "returns": ret[:60]})
                if not ok:
                    rep.broke("accessor %s::%s (%s:%s) returns a view into the storage but has no write-set witness in props/groups.py"
                              % (cls, nm, fe.rel(d.file), d.line))
    rep.unit("umbrella TU (%d headers), filter smooth::" % len(fe.umbrella_headers()))


def check(rep, tier, replay=None):
    gs = groups.catalogue(tier)
    rep.explanations.append(
        "C16: compile-fail witnesses (const views reject every mutating expression), write-set / copy facts read from the "
        "optimized IR of generated API-level witness functions (hold for every coefficient content and interleaving because "
        "they are facts about the code), and AST rules on the storage classes.")
    rep.assumptions.append("documented memory layouts (detail/*.hpp 'Memory layout' comments, direct-product order for Bundle) are the oracle for sub-part ranges")
    rep.assumptions.append("the 4-ulp 'same results' clause is structural here: value and Map run the same Impl code on the same words (M3 + M5); no numeric claim")
    run_m1(rep, gs)
    run_m8(rep, gs)
    check_ir(rep, gs, tier)
    check_ast(rep)
