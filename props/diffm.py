"""C08 semantic rules on engine M: detail::dr_numerical<K> and the dispatcher diff::dr<K, D> are abstractly executed on abstract arguments.

Arguments are a tuple of (a) Eigen vectors with *concrete rational coordinates* (so that the step sizes are concrete), (b) abstract group
elements of dof 2 (free-group words; rplus(g, v) = g exp(v), and exp(v) exp(-v) cancels).  The function f is uninterpreted: f(args) is a term
named by the current values of the arguments.  sqrt(epsilon) = 2^-26 and its square root 2^-13 are exact.

D.num1  dr_numerical<1>: (a) every argument holds its original value afterwards (and at every evaluation of f all arguments except the perturbed
        coordinate are at their original values); (b) column I0 + j of the Jacobian is rminus(f(x with coordinate j of argument i moved by its
        step), f(x)) / step, for every coordinate of every argument; (c) the returned value is f(x); (d) the step of a vector coordinate is
        at least 1e-5 * sqrt(eps) for every coordinate value (rule L7 of C09 uses this part).
D.num2  dr_numerical<2>: (a) restoration as above -- the four perturbations of a Hessian entry are undone in LIFO order, which is what makes
        them cancel on a non-commutative group; (b) first-order columns as above; (c) entry (I0 + k0, j nx + I1 + k1) of the Hessian is
        component j of (rminus(F11, F01) - rminus(F10, F00)) / eps0 / eps1 with the documented perturbation points.
D.disp  diff::dr<K, D>: K = 0 returns only f(x); Analytic returns f(x), f.jacobian(x...), f.hessian(x...) verbatim; Numerical goes to
        dr_numerical<K>; Default takes the callable's own derivatives exactly when it provides them for that order, else the numerical ones."""
import re
from fractions import Fraction

import astlib as A
import fe
import mach
import mmodels
import splinem
import manim
from mach import AbstractViolation, Cell, ItemRef, Machine, PyFunc, Tup, Unab, Vec, is_num, show_val, simp
from manim import TVec, vec_values
from report import Finding


EPS = Fraction(1, 2 ** 26)


def vkey(vals):
    return "[" + ", ".join(show_val(simp(x)) for x in vals) + "]"


def gexp_vec(v):
    """exp of a tangent vector as a free-group atom with sign canonicalisation (exp(-v) = exp(v)^-1)"""
    vals = [simp(x) for x in v]
    if all(isinstance(x, Fraction) and x == 0 for x in vals):
        return splinem.ONE
    lead = next(x for x in vals if not (isinstance(x, Fraction) and x == 0))
    neg = isinstance(lead, Fraction) and lead < 0
    if neg:
        vals = [-x for x in vals]
    return splinem.FG((("exp%s" % vkey(vals), -1 if neg else 1),))


class RVec:
    """rminus(F1, F0) / scale: a symbolic residual difference (vector valued)"""

    def __init__(self, terms, scale=Fraction(1)):
        self.terms = dict(terms)         # {(F1, F0): coefficient}
        self.scale = scale

    def show(self):
        return "(" + " + ".join("%s*rminus(%s, %s)" % (c, a, b) for (a, b), c in sorted(self.terms.items())) + ")/%s" % self.scale

    def __deepcopy__(self, memo):
        return RVec(self.terms, self.scale)

    def key(self):
        return tuple(sorted((k, Fraction(c) / self.scale) for k, c in self.terms.items() if c != 0))

    def op_div(self, M, a, b):
        if isinstance(a, RVec) and is_num(b) and isinstance(simp(b), Fraction):
            if simp(b) == 0:
                raise AbstractViolation("difference quotient with a zero step")
            return RVec(a.terms, a.scale * simp(b))
        raise Unab("division involving %s" % show_val(a))

    def op_mul(self, M, a, b):
        v, k = (a, b) if isinstance(a, RVec) else (b, a)
        if is_num(k) and isinstance(simp(k), Fraction) and simp(k) != 0:
            return RVec(v.terms, v.scale / simp(k))
        raise Unab("product involving %s" % show_val(v))

    def op_sub(self, M, a, b):
        if isinstance(a, RVec) and isinstance(b, RVec):
            out = {k: Fraction(c) / a.scale for k, c in a.terms.items()}
            for k, c in b.terms.items():
                out[k] = out.get(k, 0) - Fraction(c) / b.scale
            return RVec(out, Fraction(1))
        raise Unab("difference involving %s" % show_val(a))

    def op_add(self, M, a, b):
        if isinstance(a, RVec) and isinstance(b, RVec):
            out = {k: Fraction(c) / a.scale for k, c in a.terms.items()}
            for k, c in b.terms.items():
                out[k] = out.get(k, 0) + Fraction(c) / b.scale
            return RVec(out, Fraction(1))
        raise Unab("sum involving %s" % show_val(a))

    def m_eval(self, M, a, t):
        return self

    def index(self, M, idx):
        j = int(simp(idx[0]))
        return Comp(self, j)


class Comp:
    def __init__(self, v, j):
        self.v, self.j = v, j

    def show(self):
        return "%s[%d]" % (self.v.show(), self.j)

    def __deepcopy__(self, memo):
        return self


class Mat:
    """output matrix: records the value written to every column / entry"""

    def __init__(self, name, rows, cols):
        self.name, self.rows, self.cols = name, int(rows), int(cols)
        self.colv = {}
        self.entry = {}

    def show(self):
        return "%s(%dx%d)" % (self.name, self.rows, self.cols)

    def __deepcopy__(self, memo):
        return self          # moved into the result

    def m_col(self, M, a, t):
        k = int(simp(a[0]))
        if not (0 <= k < self.cols):
            raise AbstractViolation("column %d of the %d x %d matrix %s" % (k, self.rows, self.cols, self.name))
        return mach.FnRef(lambda: self.colv.get(k), lambda v, k=k: self.colv.__setitem__(k, M.rv(v)))

    def index(self, M, idx):
        r, c = int(simp(idx[0])), int(simp(idx[1]))
        if not (0 <= r < self.rows and 0 <= c < self.cols):
            raise AbstractViolation("entry (%d, %d) of the %d x %d matrix %s" % (r, c, self.rows, self.cols, self.name))
        return mach.FnRef(lambda: self.entry.get((r, c)), lambda v, r=r, c=c: self.entry.__setitem__((r, c), M.rv(v)))

    def m_setZero(self, M, a, t):
        return None

    def m_rows(self, M, a, t):
        return Fraction(self.rows)

    def m_cols(self, M, a, t):
        return Fraction(self.cols)


class FModel:
    """the callable: uninterpreted, optionally with its own jacobian / hessian"""

    def __init__(self, has_jac=False, has_hess=False):
        self.has_jac, self.has_hess = has_jac, has_hess
        self.calls = []

    def show(self):
        return "<f>"

    def __deepcopy__(self, memo):
        return self

    def m_jacobian(self, M, a, t):
        if not self.has_jac:
            raise AbstractViolation("f.jacobian is called although the callable provides no jacobian")
        return mmodels.Term("jacobian(%s)" % ", ".join(state_of(x) for x in a))

    def m_hessian(self, M, a, t):
        if not self.has_hess:
            raise AbstractViolation("f.hessian is called although the callable provides no hessian")
        return mmodels.Term("hessian(%s)" % ", ".join(state_of(x) for x in a))


def state_of(v):
    if isinstance(v, (Vec, manim.Seg)):
        return vkey(vec_values(v))
    if isinstance(v, splinem.FG):
        return v.show()
    return show_val(v)


class DiffMachine(Machine):
    def __init__(self, decls, f, args, K, **kw):
        super().__init__(decls=decls, type_factory=self.types, **kw)
        self.f, self.K = f, K
        self.args0 = [state_of(a) for a in args]
        self.dofs = [len(a.items) if isinstance(a, Vec) else 2 for a in args]
        self.global_env = mach.Env()
        self.global_env.bind("K", Cell(Fraction(K), True))
        self.log = []
        fn = self.funcs
        fn["apply"] = PyFunc(self.std_apply, lazy=True)
        fn["wrt_copy_if_const"] = PyFunc(self.copy_if_const, lazy=True)
        fn["epsilon"] = PyFunc(lambda M, v: Fraction(1, 2 ** 52))
        fn["dof"] = PyFunc(lambda M, v: Fraction(len(v[0].items) if isinstance(v[0], Vec) else 2))
        fn["rplus"] = PyFunc(self.rplus)
        fn["rminus"] = PyFunc(self.rminus)
        fn["Unit"] = PyFunc(self.unit)
        fn["static_for"] = PyFunc(self.static_for, lazy=True)
        fn["name:*"] = PyFunc(self.other_name, lazy=True)
        fn["wrt_Dof"] = PyFunc(lambda M, v: Fraction(-1))
        fn["make_tuple"] = PyFunc(lambda M, v: Tup([Cell(x) for x in v]))
        fn["make_pair"] = fn["make_tuple"]
        fn["min"] = PyFunc(lambda M, v: min(simp(x) for x in v))
        fn["requires"] = PyFunc(self.concept, lazy=True)

    # -- models -----------------------------------------------------------------------------------------
    def types(self, M, tyn, args, env):
        if tyn.startswith(("Eigen::Matrix<Scalar,Ny,Nx>", "Eigen::Matrix<Scalar,Nx,")) and args is not None and len(args) == 2:
            r, c = (simp(self.eval(a, env)) for a in args)
            return Mat("H" if tyn.startswith("Eigen::Matrix<Scalar,Nx,") else "J", r, c)
        if tyn in ("Result", "constResult") and args is not None and len(args) == 1:
            return self.eval(args[0], env)
        if tyn.startswith(("Eigen::Matrix<Scalar,Ny,1>", "constEigen::Matrix<Scalar,Ny,1>")) and args is not None and len(args) == 1:
            return self.eval(args[0], env)
        return NotImplemented

    def other_name(self, M, n, env, _):
        t = (n or "").replace(" ", "")
        if "tuple_size_v" in t:
            return Fraction(len(self.dofs))
        m = re.match(r"^Dof<(\w+)>$", t)
        if m:
            if m.group(1) == "Result":
                return Fraction(-1)
            return Fraction(-1)
        m = re.search(r"is_base_of_v<Eigen::MatrixBase<(\w+)>,\1>", t)
        if m:
            var = {"W": "w", "W0": "w0", "W1": "w1"}.get(m.group(1))
            r = env.find(var) if var else None
            if r is None:
                raise Unab("type predicate %s" % t)
            return isinstance(self.rv(r), Vec)
        if t.split("::")[-1] in ("Numerical", "Analytic", "Default", "Autodiff", "Ceres") and t.split("::")[0] in ("Type", "diff", "smooth", t):
            return t.split("::")[-1]
        if t == "D":
            return NotImplemented
        if "diffable_order1" in t:
            return self.f.has_jac
        if "diffable_order2" in t:
            return self.f.has_jac and self.f.has_hess
        return NotImplemented

    def concept(self, M, text, env, _=None):
        if "diffable_order2" in text:
            return self.f.has_jac and self.f.has_hess
        if "diffable_order1" in text:
            return self.f.has_jac
        raise Unab("concept / requires expression %s" % text[:60])

    def copy_if_const(self, M, args_, env, name):
        x = M.eval(args_[0], env)
        if getattr(self, "const_args", False) and isinstance(x, Tup):
            return Tup([Cell(M.copyval(c)) for c in x.items])      # const arguments: a working copy
        return M.ev(args_[0], env)

    def static_for(self, M, args, env, name):
        m = re.search(r"static_for<(.*)>$", name or "")
        n = int(simp(self.eval(("ref", m.group(1), None), env)))
        fn = self.eval(args[0], env)
        for i in range(n):
            self.apply(fn, [Cell(Fraction(i), True)], None, env)

    def std_apply(self, M, args, env, name):
        fn = M.eval(args[0], env)
        x = M.eval(args[1], env)
        if not isinstance(x, Tup):
            raise Unab("std::apply over %s" % show_val(x))
        if isinstance(fn, FModel):
            st = [state_of(M.rv(c)) for c in x.items]
            self.log.append(("f", tuple(st)))
            return mmodels.Term("f(%s)" % ", ".join(st))
        if isinstance(fn, (mach.Closure, PyFunc)):
            return M.apply(fn, list(x.items), None, None)
        raise Unab("std::apply of %s" % show_val(fn))

    def unit(self, M, v):
        n, j = int(simp(v[0])), int(simp(v[1]))
        if not (0 <= j < n):
            raise AbstractViolation("Unit(%d, %d)" % (n, j))
        return TVec([Fraction(1 if i == j else 0) for i in range(n)], "e%d" % j)

    def rplus(self, M, v):
        x, a = v
        vals = vec_values(a)
        if vals is None:
            raise Unab("rplus with %s" % show_val(a))
        if isinstance(x, Vec):
            if len(vals) != len(x.items):
                raise AbstractViolation("rplus of a vector of size %d and a tangent of size %d" % (len(x.items), len(vals)))
            return TVec([M.arith("+", p, q) for p, q in zip(x.items, vals)], "w")
        if isinstance(x, splinem.FG):
            if len(vals) != 2:
                raise AbstractViolation("rplus of a group element of dof 2 and a tangent of size %d" % len(vals))
            return x.mul(gexp_vec(vals))
        raise Unab("rplus on %s" % show_val(x))

    def rminus(self, M, v):
        a, b = v
        if isinstance(a, mmodels.Term) and isinstance(b, mmodels.Term):
            return RVec({(a.name, b.name): Fraction(1)})
        raise Unab("rminus of %s and %s" % (show_val(a), show_val(b)))


def collect(dumps):
    decls = {}
    seen = set()
    for objs in dumps.values():
        for x in A.index(objs):
            if x.pattern and x.kind in A.FUNCS and A.body(x.node) is not None and x.file and x.file.startswith(fe.INCLUDE):
                ident = (x.file, x.line)
                if ident in seen:
                    continue
                seen.add(ident)
                decls.setdefault(x.qname.split("::")[-1], []).append(x)
    return decls


def make_args(kind):
    if kind == "vector":
        return [TVec([Fraction(0), Fraction(1, 10 ** 20), Fraction(1, 2), Fraction(-40)], "w")]
    if kind == "group":
        return [splinem.atom("G")]
    if kind == "vector, group":
        return [TVec([Fraction(3), Fraction(0)], "w"), splinem.atom("G")]
    if kind == "group, vector, group":
        return [splinem.atom("G"), TVec([Fraction(1, 3)], "w"), splinem.atom("H")]
    raise ValueError(kind)


def step_of(arg, j, base):
    if isinstance(arg, Vec):
        s = base * abs(simp(arg.items[j]))
        return s if s != 0 else base
    return base


def perturbed(args, i, j, step):
    """state strings of the arguments with coordinate j of argument i moved by step"""
    out = []
    for k, a in enumerate(args):
        if k != i:
            out.append(state_of(a))
        elif isinstance(a, Vec):
            vals = list(a.items)
            vals[j] = simp(vals[j]) + step
            out.append(vkey(vals))
        else:
            e = [Fraction(0), Fraction(0)]
            e[j] = step
            out.append(a.mul(gexp_vec(e)).show())
    return tuple(out)


def check_num(rep, decls, K, step_rule=None):
    """step_rule: None -- the step floor is not judged (C08 states its accuracy clause for coordinates that are 0 or of magnitude 0.1..10);
    a rule id -- only the step floor of the first-order loop is judged, under that id (C09's L7)"""
    rule = step_rule or "D.num%d" % K
    fn = [d for d in decls.get("dr_numerical", [])]
    if len(fn) != 1:
        rep.broke("%s: dr_numerical not found (%d)" % (rule, len(fn)))
        return
    fn = fn[0]
    base = EPS if K == 1 else Fraction(1, 2 ** 13)
    for kind in (("vector",) if step_rule else ("vector", "group", "vector, group", "group, vector, group", "const vector, group")):
        inst = "arguments (%s)" % kind
        const_args = kind.startswith("const ")
        kind = kind.replace("const ", "")
        args0 = make_args(kind)

        def thunk():
            args = make_args(kind)
            f = FModel()
            M = DiffMachine(decls, f, args, K)
            M.const_args = const_args
            cells = [Cell(a) for a in args]
            res = M.run_function(fn, [Cell(f), Cell(Tup(cells))])
            return M, cells, res
        try:
            M, cells, res = thunk()
        except Unab as ex:
            rep.broke("%s: dr_numerical<%d> (%s) is outside the abstract machine: %s" % (rule, K, kind, ex))
            return
        except AbstractViolation as ex:
            rep.instance(rule, "dr_numerical", inst, ok=False, sample={})
            rep.violation(Finding(rule, "dr_numerical", inst, "dr_numerical<%d> on %s: %s" % (K, inst, ex), *A.loc(fn.node)))
            continue
        res = M.rv(res)
        dofs = [len(a.items) if isinstance(a, Vec) else 2 for a in args0]
        nx = sum(dofs)
        orig = tuple(state_of(a) for a in args0)
        bad = None
        items = [M.rv(x) for x in res.items] if isinstance(res, (Tup, Vec)) else None
        if items is None or len(items) != K + 1:
            bad = "returns %s, not (value, Jacobian%s)" % (show_val(res), ", Hessian" if K == 2 else "")
        elif not (isinstance(items[0], mmodels.Term) and items[0].name == "f(%s)" % ", ".join(orig)):
            bad = "the returned value is %s, not f at the original arguments" % show_val(items[0])
        else:
            final = tuple(state_of(c.get()) for c in cells)
            if final != orig:
                k = next(i for i in range(len(orig)) if final[i] != orig[i])
                bad = "argument %d holds %s afterwards; it started as %s (perturbations are not undone, or not in the reverse order needed on a non-commutative group)" % (k, final[k], orig[k])
        if bad is None:
            # first-order columns
            J = items[1]
            f0 = "f(%s)" % ", ".join(orig)
            I0 = 0
            for i, a in enumerate(args0):
                for j in range(dofs[i]):
                    st = step_of(a, j, base)
                    if step_rule and isinstance(a, Vec) and st < Fraction(1, 10 ** 5) * base:
                        bad = bad or ("the step of a vector coordinate of magnitude %s is %s * base: below the rounding unit of O(1) function values, the difference quotient is exactly 0"
                                      % (float(abs(simp(a.items[j]))), float(st / base)))
                    want = RVec({("f(%s)" % ", ".join(perturbed(args0, i, j, st)), f0): Fraction(1)}, st)
                    got = J.colv.get(I0 + j) if isinstance(J, Mat) else None
                    if not isinstance(got, RVec) or got.key() != want.key():
                        bad2 = "column %d of the Jacobian (coordinate %d of argument %d) is %s; expected %s" % (I0 + j, j, i, show_val(got), want.show())
                        if bad is None or "step of a vector coordinate" in bad:
                            bad = bad2 if bad is None else bad
                        if bad == bad2:
                            break
                I0 += dofs[i]
                if bad and "column" in bad:
                    break
        step_finding = bad is not None and "step of a vector coordinate" in bad
        if step_rule and not step_finding:
            bad = None          # everything else is C08's business
        if bad is None and K == 2 and not step_rule:
            H = items[2]
            ny = 1
            f0 = "f(%s)" % ", ".join(orig)
            I0 = 0
            for i0, a0 in enumerate(args0):
                I1 = 0
                for i1, a1 in enumerate(args0):
                    for k0 in range(dofs[i0]):
                        e0 = step_of(a0, k0, base)
                        for k1 in range(dofs[i1]):
                            e1 = step_of(a1, k1, base)
                            p01 = perturbed(args0, i1, k1, e1)
                            # F11: argument i1 moved by e1 first, then argument i0 by e0 (same argument: both applied in that order)
                            args01 = apply_pert(args0, i1, k1, e1)
                            p11 = perturbed(args01, i0, k0, e0)
                            p10 = perturbed(args0, i0, k0, e0)
                            want = {("f(%s)" % ", ".join(p11), "f(%s)" % ", ".join(p01)): Fraction(1) / (e0 * e1)}
                            kk = ("f(%s)" % ", ".join(p10), f0)
                            want[kk] = want.get(kk, 0) - Fraction(1) / (e0 * e1)
                            for jout in range(2):          # the abstract result has two coordinates
                                got = H.entry.get((I0 + k0, jout * nx + I1 + k1)) if isinstance(H, Mat) else None
                                gv = got.v if isinstance(got, Comp) else None
                                if not (isinstance(got, Comp) and got.j == jout and isinstance(gv, RVec) and gv.key() == RVec(want).key()):
                                    bad = "Hessian entry (row %d, column %d = %d*nx + %d) is %s; expected component %d of %s" % (
                                        I0 + k0, jout * nx + I1 + k1, jout, I1 + k1, show_val(got), jout, RVec(want).show())
                                    break
                            if bad:
                                break
                        if bad:
                            break
                    I1 += dofs[i1]
                    if bad:
                        break
                I0 += dofs[i0]
                if bad:
                    break
        rep.instance(rule, "dr_numerical", "first-order step" if step_rule else inst, ok=bad is None, sample={})
        if bad:
            rep.violation(Finding(rule, "dr_numerical", "first-order step" if step_rule else inst, "dr_numerical<%d> with %s: %s" % (K, inst, bad), *A.loc(fn.node)))


def apply_pert(args, i, j, step):
    out = []
    for k, a in enumerate(args):
        if k != i:
            out.append(a)
        elif isinstance(a, Vec):
            vals = list(a.items)
            vals[j] = simp(vals[j]) + step
            out.append(TVec(vals, "w"))
        else:
            e = [Fraction(0), Fraction(0)]
            e[j] = step
            out.append(a.mul(gexp_vec(e)))
    return out


def check_dispatch(rep, decls):
    rule = "D.disp"
    cands = [d for d in decls.get("dr", []) if len(A.params(d.node)) == 2 and "K == 0" in A.ntext(A.body(d.node))[:400].replace("0u", "0")]
    cands = [d for d in decls.get("dr", []) if len(A.params(d.node)) == 2 and any(x.get("kind") == "IfStmt" for x in A.walk(A.body(d.node)))]
    if len(cands) != 1:
        rep.broke("D.disp: the dispatcher diff::dr<K, D>(f, x) was not found (%d candidates)" % len(cands))
        return
    fn = cands[0]
    for K in (0, 1, 2):
        for D in ("Analytic", "Default", "Numerical"):
            for has_j, has_h in ((True, True), (True, False), (False, False)):
                if D == "Analytic" and ((K >= 1 and not has_j) or (K == 2 and not has_h)):
                    continue
                if D == "Numerical" and (has_j or has_h):
                    continue
                inst = "K=%d D=%s jacobian=%s hessian=%s" % (K, D, has_j, has_h)
                args = [TVec([Fraction(1), Fraction(2)], "w")]
                f = FModel(has_j, has_h)
                M = DiffMachine(decls, f, args, K)
                M.global_env.bind("D", Cell(D))
                called = []
                M.funcs["dr_numerical"] = PyFunc(lambda M_, a_, env, name, called=called: (called.append(name), mmodels.Term("numerical<%s>" % re.sub(r".*<(.*)>$", r"\1", name or "")))[1], lazy=True)
                M.funcs["dr"] = PyFunc(lambda M_, a_, env, name, fn=fn, M0=M: redispatch(M0, fn, a_, env, name), lazy=True)
                try:
                    res = M.rv(M.run_function(fn, [Cell(f), Cell(Tup([Cell(a) for a in args]))]))
                except Unab as ex:
                    rep.broke("D.disp: diff::dr (%s) is outside the abstract machine: %s" % (inst, ex))
                    return
                except AbstractViolation as ex:
                    rep.instance(rule, "diff::dr", inst, ok=False, sample={})
                    rep.violation(Finding(rule, "diff::dr", inst, "dr<%d, %s>: %s" % (K, D, ex), *A.loc(fn.node)))
                    continue
                x = "[1, 2]"
                analytic = [("f(%s)" % x), "jacobian(%s)" % x, "hessian(%s)" % x][:K + 1]
                use_analytic = D == "Analytic" or (D == "Default" and ((K == 1 and has_j) or (K == 2 and has_j and has_h)))
                if K == 0:
                    want = ["f(%s)" % x]
                elif use_analytic:
                    want = analytic
                else:
                    want = "numerical<%d>" % K
                if isinstance(want, list):
                    got = [show_val(M.rv(v)) for v in res.items] if isinstance(res, (Tup, Vec)) else None
                    ok = got == want
                else:
                    got = show_val(res)
                    ok = got == want or got == "numerical<K>"
                rep.instance(rule, "diff::dr", inst, ok=ok, sample={})
                if not ok:
                    rep.violation(Finding(rule, "diff::dr", inst, "dr<%d, %s> for a callable with jacobian=%s, hessian=%s returns %s; expected %s" % (K, D, has_j, has_h, got, want), *A.loc(fn.node)))


def check_forwarders(rep, decls):
    """D.fwd: the convenience overloads dr<K>(f, x) and dr<K>(f, x, idx) hand every one of their arguments on to the dispatcher with Type::Default"""
    rule = "D.fwd"
    fws = [d for d in decls.get("dr", []) if not any(x.get("kind") in ("IfStmt", "LambdaExpr") for x in A.walk(A.body(d.node)))]
    if len(fws) < 2:
        rep.note("D.fwd: %d plain forwarding overloads of diff::dr found (2 on the tree this rule was written for); an overload with its own logic is outside this rule" % len(fws))
    for fn in fws:
        n = len(A.params(fn.node))
        inst = "dr<K>(%s)" % ", ".join(["f", "x", "idx"][:n])
        f = FModel(True, True)
        args = [TVec([Fraction(1), Fraction(2)], "w")]
        M = DiffMachine(decls, f, args, 1)
        seen = []

        def hook(M_, a_, env, name, seen=seen):
            seen.append((name, [M_.rv(M_.ev(a, env)) for a in a_]))
            return mmodels.Term("inner")
        M.funcs["dr"] = PyFunc(hook, lazy=True)
        idx = mmodels.Term("index_sequence")
        vals = [Cell(f), Cell(Tup([Cell(a) for a in args])), Cell(idx)][:n]
        try:
            res = M.rv(M.run_function(fn, vals))
        except Unab as ex:
            rep.broke("D.fwd: %s is outside the abstract machine: %s" % (inst, ex))
            continue
        except AbstractViolation as ex:
            rep.instance(rule, "diff::dr", inst, ok=False, sample={})
            rep.violation(Finding(rule, "diff::dr", inst, "%s: %s" % (inst, ex), *A.loc(fn.node)))
            continue
        bad = None
        if len(seen) != 1 or show_val(res) != "inner":
            bad = "does not return the result of one call of the dispatcher (%d calls)" % len(seen)
        else:
            name, got = seen[0]
            if "Default" not in (name or ""):
                bad = "calls %s; the overload without a method is documented as Type::Default" % name
            elif len(got) != n:
                bad = "hands %d of its %d arguments on to the dispatcher (%s): %s" % (len(got), n, name, "the index subset is dropped, so the full derivative is returned" if n == 3 else "an argument is dropped")
            elif got[0] is not f:        # (the index sequence is an empty tag object: only its presence matters)
                bad = "hands other objects than its own arguments on to the dispatcher"
        rep.instance(rule, "diff::dr", inst, ok=bad is None, sample={})
        if bad:
            rep.violation(Finding(rule, "diff::dr", inst, "%s %s" % (inst, bad), *A.loc(fn.node)))


def redispatch(M, fn, args, env, name):
    """a recursive call dr<K, OtherType>(f, x) of the dispatcher: executed with D rebound"""
    m = re.search(r"dr<\s*(\w+)\s*,\s*([\w:]+)\s*>", name or "")
    if not m:
        raise Unab("recursive dispatcher call %s" % name)
    dname = m.group(2)
    if dname.startswith("Type::"):
        D = dname.split("::")[-1]
    else:
        D = M.rv(M.eval(("ref", dname, None), env))
    sub = DiffMachine(M.decls, M.f, [], M.K)
    sub.funcs.update({k: v for k, v in M.funcs.items() if k in ("dr_numerical", "dr")})
    sub.global_env.bind("D", Cell(D))
    return sub.run_function(fn, [M.ev(a, env) for a in args])


def check(rep, tier):
    rep.rule("D.num1", "dr_numerical<1>, abstractly executed: arguments restored, Jacobian column I0 + j = rminus(f(x with that coordinate moved by its step), f(x)) / step, value f(x), "
             "vector steps bounded below", minimum=4)
    rep.rule("D.num2", "dr_numerical<2>, abstractly executed: arguments restored (LIFO on non-commutative groups), first-order columns, Hessian entry (I0 + k0, j nx + I1 + k1) from the "
             "documented four evaluations", minimum=4)
    rep.rule("D.disp", "diff::dr<K, D>, abstractly executed: K = 0 value only; Analytic = (f(x), f.jacobian(x...), f.hessian(x...)); Default prefers the callable's derivatives exactly when present", minimum=12)
    decls = collect(fe.ast_dumps(["dr_numerical", "diff::dr"]))
    check_num(rep, decls, 1)
    check_num(rep, decls, 2)
    check_dispatch(rep, decls)
    rep.rule("D.fwd", "the convenience overloads dr<K>(f, x) and dr<K>(f, x, idx), abstractly executed: every argument reaches the dispatcher, with Type::Default", minimum=1)
    check_forwarders(rep, decls)


def check_step_floor(rep, rule_id):
    """C09's L7: the first-order finite-difference step of a vector coordinate never collapses"""
    rep.rule(rule_id, "dr_numerical<1>, abstractly executed on a vector with coordinates 0, 1e-20, 1/2, -40: every step is at least 1e-5 * sqrt(eps)", minimum=1)
    decls = collect(fe.ast_dumps(["dr_numerical"]))
    check_num(rep, decls, 1, step_rule=rule_id)
