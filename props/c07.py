"""C07 -- manifold axioms for every Manifold model (structural clauses, engine M).

The models SubManifold, std::vector<M>, the LieGroup adapter and AnyManifold are abstractly executed over an abstract underlying manifold
(props/manim.py, rules F.sub, F.vec, F.lie, F.any)."""
import manim


def check(rep, tier, replay=None):
    rep.explanations.append(
        "C07: the container / adaptor Manifold models are abstractly executed (engine M) over an uninterpreted underlying manifold whose only law is its own axiom "
        "rminus(rplus(x, v), x) = v: SubManifold for every dof 0..5 and every fixed set (scatter / gather bijection, dof, axiom, cast roles), std::vector<M> for static "
        "and run-time element dofs (consecutive segments, concatenation, dof sum, axiom), the LieGroup adapter in the free group with exp / log as inverse symbols, "
        "AnyManifold (deep, independent copies; delegation to the payload).")
    rep.trusted.update(["clang++-16 front end", "lib/mach.py (abstract machine) with models of Eigen vectors / segments, std::vector, std::unique_ptr"])
    rep.assumptions.append("the axioms of the underlying manifolds themselves (numerical, C02) are the premise, not decided here; std::variant<Ms...> dispatches with std::visit and is not executed")
    rep.unit("umbrella TU filtered SubManifold / AnyManifold / man")
    manim.check(rep, tier)
