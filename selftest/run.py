#!/usr/bin/env python3
"""Self-test harness (NOT a registered check): applies single-instance mutations / behaviour-preserving refactors
from selftest/catalogue.json to a scratch copy of /repo (under /tmp, removed afterwards) and runs the named check
against it.  'fire' entries must exit 1 and name the expected rule; 'silent' entries must exit 0.

usage: selftest/run.py [-j N] [--tier quick|thorough] [id-substring ...]
"""
import json
import os
import shutil
import subprocess
import sys
import tempfile
from concurrent.futures import ThreadPoolExecutor

HERE = os.path.dirname(os.path.abspath(__file__))
VERIF = os.path.dirname(HERE)
REPO = "/repo"


def run_one(m, tier):
    d = tempfile.mkdtemp(prefix="smooth-st-")
    try:
        for sub in ("include", "config"):
            shutil.copytree(os.path.join(REPO, sub), os.path.join(d, sub))
        shutil.copy(os.path.join(REPO, "CMakeLists.txt"), d)
        for ed in m["edits"]:
            p = os.path.join(d, ed["file"])
            s = open(p).read()
            if s.count(ed["old"]) != ed.get("count", 1):
                return m["id"], "STALE", "pattern occurs %d times in %s (expected %d): %r" % (s.count(ed["old"]), ed["file"], ed.get("count", 1), ed["old"][:60])
            s = s.replace(ed["old"], ed["new"])
            open(p, "w").write(s)
        env = dict(os.environ, VERIF_REPO=d, VERIF_EVIDENCE_DIR=os.path.join(d, "evidence"), VERIF_TIER=tier)
        r = subprocess.run([os.path.join(VERIF, "check"), m["property"], "--tier", tier], capture_output=True, text=True, env=env, timeout=3600)
        out = r.stdout + r.stderr
        if m["expect"] == "fire":
            ok = r.returncode == 1 and "VIOLATION property=%s" % m["property"] in out and (("[%s]" % m["rule"]) in out if m.get("rule") else True)
            if ok and m.get("mention"):
                ok = m["mention"] in out
        else:
            ok = r.returncode == 0 and "VIOLATION" not in out
        detail = "\n".join(l for l in out.splitlines() if l.startswith(("VIOLATION", "  [", "ANALYSIS-BROKEN", "SUMMARY")))[:1500]
        return m["id"], "OK" if ok else "FAIL(exit %d)" % r.returncode, detail
    finally:
        shutil.rmtree(d, ignore_errors=True)


def main():
    args = sys.argv[1:]
    j = 2
    tier = "quick"
    sel = []
    i = 0
    while i < len(args):
        if args[i] == "-j":
            j = int(args[i + 1]); i += 2
        elif args[i] == "--tier":
            tier = args[i + 1]; i += 2
        else:
            sel.append(args[i]); i += 1
    cat = json.load(open(os.path.join(HERE, "catalogue.json")))
    ms = [m for m in cat if not sel or any(s in m["id"] or s == m["property"] for s in sel)]
    bad = 0
    with ThreadPoolExecutor(max_workers=j) as ex:
        for mid, status, detail in ex.map(lambda m: run_one(m, tier), ms):
            print("%-40s %s" % (mid, status))
            if status != "OK":
                bad += 1
                print("    " + detail.replace("\n", "\n    "))
    print("%d/%d as expected" % (len(ms) - bad, len(ms)))
    return 1 if bad else 0


if __name__ == "__main__":
    sys.exit(main())
