"""FE -- front end shared by all checks.

Builds, on every run and from /repo's *current working tree*:
  * the generated smooth/version.hpp (from config/version.hpp.in + CMakeLists.txt),
  * the umbrella translation unit (every header under include/smooth the build covers),
  * filtered clang++-16 JSON AST dumps,
  * witness translation units, their compiler diagnostics and optimized LLVM IR.

Nothing here executes library code.  A missing tool / unparsable tree raises Broken, which the
driver turns into exit status 2 (analysis-broken) -- never a pass, never a violation.
"""
import atexit
import json
import os
import re
import shutil
import subprocess
import tempfile
import threading
from concurrent.futures import ThreadPoolExecutor

REPO = os.environ.get("VERIF_REPO", "/repo")
INCLUDE = os.path.join(REPO, "include")
EIGEN = "/usr/include/eigen3"
NCPU = os.cpu_count() or 4

# Headers present on disk that the repository's own build cannot cover in this sandbox
# (their third-party dependencies are not installed).  Everything else must be in the umbrella.
EXCLUDED_HEADERS = {
    "smooth/compat/autodiff.hpp": "autodiff not installed",
    "smooth/compat/ceres.hpp": "ceres not installed",
    "smooth/compat/ros.hpp": "ROS message packages not installed",
}


class Broken(Exception):
    """Analysis cannot be carried out (exit 2)."""


_scratch = None
_scratch_lock = __import__("threading").RLock()


def scratch():
    global _scratch
    with _scratch_lock:
        return _scratch_locked()


def _scratch_locked():
    global _scratch
    if _scratch is None:
        base = os.environ.get("VERIF_SCRATCH_BASE") or tempfile.gettempdir()
        _scratch = tempfile.mkdtemp(prefix="smooth-verif-", dir=base)
        atexit.register(shutil.rmtree, _scratch, True)
    return _scratch


def which(*names):
    for n in names:
        p = shutil.which(n)
        if p:
            return p
    raise Broken("none of %s found on PATH" % (names,))


_tools = {}


def clangxx():
    if "clang" not in _tools:
        _tools["clang"] = which("clang++-16", "clang++-15")
    return _tools["clang"]


def gxx():
    if "gxx" not in _tools:
        _tools["gxx"] = which("g++-12", "g++")
    return _tools["gxx"]


def tool_versions():
    out = {}
    for k, f in (("clang", clangxx), ("g++", gxx)):
        try:
            v = subprocess.run([f(), "--version"], capture_output=True, text=True).stdout.splitlines()[0]
        except Exception as e:  # pragma: no cover
            v = "unavailable: %s" % e
        out[k] = v
    return out


_gen_lock = threading.Lock()


def gen_dir():
    """Directory containing the generated smooth/version.hpp (configure_file emulation)."""
    with _gen_lock:
        return _gen_dir_locked()


def _gen_dir_locked():
    d = os.path.join(scratch(), "gen")
    tgt = os.path.join(d, "smooth", "version.hpp")
    if os.path.exists(tgt):
        return d
    os.makedirs(os.path.dirname(tgt), exist_ok=True)
    try:
        cm = open(os.path.join(REPO, "CMakeLists.txt")).read()
        tpl = open(os.path.join(REPO, "config", "version.hpp.in")).read()
    except OSError as e:
        raise Broken("cannot read build description: %s" % e)
    m = re.search(r"project\s*\(\s*smooth\s+VERSION\s+(\d+)\.(\d+)\.(\d+)", cm)
    if not m:
        raise Broken("project(smooth VERSION x.y.z) not found in CMakeLists.txt")
    ma, mi, pa = m.groups()
    tpl = (tpl.replace("@CMAKE_PROJECT_VERSION_MAJOR@", ma).replace("@CMAKE_PROJECT_VERSION_MINOR@", mi)
           .replace("@CMAKE_PROJECT_VERSION_PATCH@", pa).replace("@CMAKE_PROJECT_VERSION@", "%s.%s.%s" % (ma, mi, pa)))
    if "@" in re.sub(r"//.*", "", tpl):
        raise Broken("unexpanded @VAR@ left in version.hpp.in")
    open(tgt + ".tmp", "w").write(tpl)
    os.replace(tgt + ".tmp", tgt)
    return d


def std_flag():
    cm = open(os.path.join(REPO, "CMakeLists.txt")).read()
    m = re.search(r"set\s*\(\s*CMAKE_CXX_STANDARD\s+(\d+)", cm)
    if not m:
        raise Broken("CMAKE_CXX_STANDARD not found")
    return "-std=gnu++%s" % m.group(1)


def base_flags():
    return [std_flag(), "-I" + INCLUDE, "-I" + gen_dir(), "-isystem", EIGEN, "-w"]


def all_headers():
    hs = []
    for root, _, files in os.walk(os.path.join(INCLUDE, "smooth")):
        for f in files:
            if f.endswith(".hpp") or f.endswith(".h"):
                hs.append(os.path.relpath(os.path.join(root, f), INCLUDE))
    return sorted(hs)


def umbrella_headers():
    return [h for h in all_headers() if h not in EXCLUDED_HEADERS]


import threading
_umb_lock = threading.Lock()


def umbrella_tu(extra=""):
    """Path of the umbrella TU (written once per run; ast dumps run concurrently and must never see a half-written file)."""
    with _umb_lock:
        p = os.path.join(scratch(), "umbrella%s.cpp" % (("_%d" % (abs(hash(extra)) % 10**9)) if extra else ""))
        if not os.path.exists(p):
            src = "#include <cmath>\n#include <Eigen/Core>\n" + "".join("#include <%s>\n" % h for h in umbrella_headers()) + extra
            tmp = p + ".tmp"
            open(tmp, "w").write(src)
            os.replace(tmp, p)
        return p


def run(cmd, timeout=900, **kw):
    return subprocess.run(cmd, capture_output=True, text=True, timeout=timeout, **kw)


def parallel(fn, items, workers=None):
    with ThreadPoolExecutor(max_workers=workers or NCPU) as ex:
        return list(ex.map(fn, items))


# ------------------------------------------------------------------------------------------
# AST
# ------------------------------------------------------------------------------------------

def _normalise_locs(objs):
    """clang's JSON dumper omits file/line when equal to the previously *emitted* location.
    Re-establish them by an in-order walk (dict order == emission order)."""
    lastf = None
    lastl = None
    for top in objs:
        st = [top]
        while st:
            x = st.pop()
            if isinstance(x, dict):
                if "offset" in x:
                    f = x.get("file")
                    if f is not None:
                        lastf = f
                    else:
                        x["file"] = lastf
                    l = x.get("line")
                    if l is not None:
                        lastl = l
                    else:
                        x["line"] = lastl
                vs = [v for v in x.values() if isinstance(v, (dict, list))]
                vs.reverse()
                st.extend(vs)
            elif isinstance(x, list):
                vs = [v for v in x if isinstance(v, (dict, list))]
                vs.reverse()
                st.extend(vs)


def parse_concat_json(s):
    d = json.JSONDecoder()
    i = 0
    n = len(s)
    objs = []
    while True:
        while i < n and s[i] in " \t\r\n":
            i += 1
        if i >= n:
            break
        o, i = d.raw_decode(s, i)
        objs.append(o)
    return objs


def ast_dump(filt, extra_src="", extra_flags=(), tu=None):
    """JSON AST of every declaration whose qualified name contains `filt`, in the umbrella TU
    (optionally followed by `extra_src`, e.g. explicit instantiations)."""
    if tu is None:
        tu = umbrella_tu(extra_src)
    cmd = [clangxx()] + base_flags() + list(extra_flags) + ["-fsyntax-only", "-Xclang", "-ast-dump=json", "-Xclang",
                                                            "-ast-dump-filter=" + filt, tu]
    r = run(cmd)
    if r.returncode != 0:
        raise Broken("clang front end failed on the umbrella TU (filter %s):\n%s" % (filt, r.stderr[-3000:]))
    objs = parse_concat_json(r.stdout)
    _normalise_locs(objs)
    return objs


def ast_dumps(filters, **kw):
    res = parallel(lambda f: ast_dump(f, **kw), filters)
    return dict(zip(filters, res))


_src_cache = {}


def source(path):
    if path not in _src_cache:
        _src_cache[path] = open(path, "rb").read()
    return _src_cache[path]


def rel(path):
    if path and path.startswith(REPO + "/"):
        return path[len(REPO) + 1:]
    return path


# ------------------------------------------------------------------------------------------
# IR
# ------------------------------------------------------------------------------------------

IR_FLAGS = ["-O2", "-DNDEBUG", "-DEIGEN_DONT_VECTORIZE", "-fno-vectorize", "-fno-slp-vectorize",
            "-mllvm", "-inline-threshold=1000000", "-funroll-loops", "-mllvm", "-unroll-threshold=1000000",
            "-mllvm", "-unroll-full-max-count=4096", "-mllvm", "-unroll-max-iteration-count-to-analyze=4096",
            "-S", "-emit-llvm"]


def compile_ir(src_path, out_path, fastmath=False, exceptions=False, vectorize=False, extra=()):
    flags = list(IR_FLAGS)
    if vectorize:
        flags = [f for f in flags if f not in ("-DEIGEN_DONT_VECTORIZE", "-fno-vectorize", "-fno-slp-vectorize")]
    if fastmath:
        flags.append("-ffast-math")
    if not exceptions:
        flags.append("-fno-exceptions")
    cmd = [clangxx()] + base_flags() + flags + list(extra) + ["-o", out_path, src_path]
    r = run(cmd, timeout=1800)
    if r.returncode != 0:
        raise Broken("IR build failed for %s:\n%s" % (src_path, r.stderr[-3000:]))
    return out_path
