"""Ray-series identities (engine R, lib/rays.py) shared by C02, C03, C04.

For a = t * a0 (a0 rational, rotation parts of rational norm) the closed-form path of each witness must reproduce, coefficient by
coefficient in t, the defining series:
  T.exp     matrix(exp(a))            = sum_k hat(a)^k / k!
  T.logexp  log(exp(a))               = a
  T.Adexp   Ad(exp(a))                = sum_k ad(a)^k / k!
  T.drexp   dr_exp(a)                 = sum_k (-1)^k ad(a)^k / (k+1)!
  T.drinv   dr_expinv(a) dr_exp(a)    = I
and every other path (polynomial branch of a small-angle switch) must agree with it to the stated low order.
"""
from fractions import Fraction
from math import factorial

import fe
import groups
import ir
import irw
import poly
import rays
from jet import Series
from report import Finding

ROT3 = [(Fraction(1, 3), Fraction(2, 3), Fraction(2, 3)), (Fraction(2, 7), Fraction(-3, 7), Fraction(6, 7)), (Fraction(-4, 9), Fraction(1, 9), Fraction(8, 9))]
GENERIC = [Fraction(3, 4), Fraction(-2, 5), Fraction(5, 7), Fraction(-1, 3), Fraction(7, 9), Fraction(2, 3), Fraction(-5, 8), Fraction(4, 11), Fraction(-3, 7), Fraction(1, 6)]
TAN_ROT3 = {"SO3": 0, "SE3": 3, "Galilei": 7, "SE_2_3": 6, "SE_1_3": 3, "SE_3_3": 9}


# translation-like tangent coordinates (scaled so that they reach the property's 1e3 at the small-angle switch t ~ 1e-4)
TRANSLATION = {"SE2": range(0, 2), "SE3": range(0, 3), "Galilei": range(0, 6), "SE_2_3": range(0, 6), "SE_1_3": range(0, 3), "SE_3_3": range(0, 9)}


def direction(g, variant=0, _state=None, tscale=1):
    """rational tangent direction for group g: rotation triples of rational norm, generic rationals elsewhere; translation-like
    coordinates multiplied by `tscale`"""
    st = _state if _state is not None else {"rot": variant, "gen": variant}
    if g.members:
        out = []
        for m in g.members:
            out += direction(m, variant, st, tscale)
        return out
    base = g.key[:-1]
    out = []
    for i in range(g.dof):
        sc = tscale if (i in TRANSLATION.get(base, ()) or base.startswith("V")) else 1
        out.append(GENERIC[st["gen"] % len(GENERIC)] * sc)
        st["gen"] += 1
    if base in TAN_ROT3:
        w = ROT3[st["rot"] % len(ROT3)]
        st["rot"] += 1
        o = TAN_ROT3[base]
        scale = Fraction(1) if st["rot"] % 2 else Fraction(3, 2)
        out[o:o + 3] = [x * scale for x in w]
    return out


HESSIAN_GROUPS = ("SO2", "SO3", "SE2", "SE3", "C1")     # Galilei and SE_K_3 do not implement d2r_exp / d2r_expinv


def zero_part(g, a0):
    """direction with the tangent segment of one non-commutative part (or the rotation of a semidirect group) set to zero; None when the
    group has no such part"""
    out = list(a0)
    if g.members:
        off = 0
        for m in g.members:
            if not m.comm and not m.key.startswith("V"):
                for i in range(m.dof):
                    out[off + i] = Fraction(0)
                return out
            off += m.dof
        return None
    base = g.key[:-1]
    if base in TAN_ROT3 and base != "SO3":
        o = TAN_ROT3[base]
        out[o:o + 3] = [Fraction(0)] * 3
        return out
    if base == "SE2":
        out[2] = Fraction(0)
        return out
    return None


def has_hessian(g):
    if g.members:
        return all(has_hessian(m) or m.key.startswith("V") for m in g.members)
    return g.key[:-1] in HESSIAN_GROUPS


IDENT = {
    "d2rminus": ("C05", "d2r_rminus(e) block i == d2r_expinv(e) block i * dr_expinv(e)"),
    "sqnorm": ("C05", "d2r_rminus_squarednorm(e) == J' J + sum_k e_k H_k  (J = dr_rminus(e), H = d2r_rminus(e): chain rule for |.|^2 / 2)"),
    "d2rexp": ("C05", "d2r_exp(a) contracted with b == d/ds dr_exp(a + s b) from the defining series"),
    "d2rinv": ("C05", "d2r_expinv(a) contracted with b == -J^-1 (d/ds dr_exp(a + s b)) J^-1"),
    "exp": ("C02", "matrix(exp(a)) == sum hat(a)^k / k!"),
    "logexp": ("C02", "log(exp(a)) == a"),
    "Adexp": ("C03", "Ad(exp(a)) == sum ad(a)^k / k!"),
    "drexp": ("C04", "dr_exp(a) == sum (-1)^k ad(a)^k / (k+1)!"),
    "drinv": ("C04", "dr_expinv(a) dr_exp(a) == I"),
    "unitnorm": ("C15", "|rotation coefficients of exp(a)|^2 == 1"),
    # layer identities: library function against library function (the right-hand ones are tied to their definitions by the identities above)
    "fw_drexp": ("C04", "smooth::dr_exp<G>(a) (free function through traits::lie<G>) == G::dr_exp(a)"),
    "fw_drinv": ("C04", "smooth::dr_expinv<G>(a) == G::dr_expinv(a)"),
    "lr_drexp": ("C04", "smooth::dl_exp<G>(a) == G::dl_exp(a) == G::dr_exp(-a)"),
    "lr_drinv": ("C04", "smooth::dl_expinv<G>(a) == G::dl_expinv(a) == G::dr_expinv(-a)"),
    "rm_dr": ("C04", "dr_rminus<G>(e) == G::dr_expinv(e)"),
    "rm_sq": ("C04", "dr_rminus_squarednorm<G>(e) == e^T G::dr_expinv(e)"),
    "fw_d2rexp": ("C05", "smooth::d2r_exp<G>(a) == G::d2r_exp(a)"),
    "fw_d2rinv": ("C05", "smooth::d2r_expinv<G>(a) == G::d2r_expinv(a)"),
    "lr_d2rexp": ("C05", "smooth::d2l_exp<G>(a) == G::d2l_exp(a) == -G::d2r_exp(-a)"),
    "lr_d2rinv": ("C05", "smooth::d2l_expinv<G>(a) == G::d2l_expinv(a) == -G::d2r_expinv(-a)"),
}
LAYER2 = {"fw_drexp": ("smooth::dr_exp<GT>(a)", None, "GT::dr_exp(a)"), "fw_drinv": ("smooth::dr_expinv<GT>(a)", None, "GT::dr_expinv(a)"),
          "lr_drexp": ("smooth::dl_exp<GT>(a)", "GT::dl_exp(a)", "GT::dr_exp(-a)"), "lr_drinv": ("smooth::dl_expinv<GT>(a)", "GT::dl_expinv(a)", "GT::dr_expinv(-a)"),
          "rm_dr": ("smooth::dr_rminus<GT>(e)", None, "GT::dr_expinv(a)"),
          "fw_d2rexp": ("smooth::d2r_exp<GT>(a)", None, "GT::d2r_exp(a)"), "fw_d2rinv": ("smooth::d2r_expinv<GT>(a)", None, "GT::d2r_expinv(a)"),
          "lr_d2rexp": ("smooth::d2l_exp<GT>(a)", "GT::d2l_exp(a)", "-GT::d2r_exp(-a)"), "lr_d2rinv": ("smooth::d2l_expinv<GT>(a)", "GT::d2l_expinv(a)", "-GT::d2r_expinv(-a)")}

# where the unit complex number / unit quaternion sits in coeffs()
ROT_COEFFS = {"SO2d": (0, 2), "SO3d": (0, 4), "SE2d": (2, 2), "SE3d": (3, 4)}


def witnesses(gs, names):
    W = irw.IRW("ray_" + "_".join(names), groups.PRELUDE, chunk=2)
    for g in gs:
        if g.scalar != "double":
            continue
        pre = "  using GT = %s;\n  Eigen::Map<const Eigen::Matrix<double, GT::Dof, 1>> a(p0);\n" % g.ctype
        om = lambda n, r, c: "  Eigen::Map<Eigen::Matrix<double, %s, %s>> %s(o%s);\n" % (r, c, n, n[-1])
        sig = "const double* p0, double* o1, double* o2"
        for nm in names:
            if nm == "exp":
                body = om("m1", "GT::Dim", "GT::Dim") + om("m2", "GT::Dim", "GT::Dim") + "  m1 = GT::exp(a).matrix();\n  m2 = GT::hat(a);\n"
                shp = ((g.dim, g.dim), (g.dim, g.dim))
            elif nm == "logexp":
                body = om("m1", "GT::Dof", "1") + om("m2", "GT::Dof", "1") + "  m1 = GT::exp(a).log();\n  m2 = a;\n"
                shp = ((g.dof, 1), (g.dof, 1))
            elif nm == "Adexp":
                body = om("m1", "GT::Dof", "GT::Dof") + om("m2", "GT::Dof", "GT::Dof") + "  m1 = GT::exp(a).Ad();\n  m2 = GT::ad(a);\n"
                shp = ((g.dof, g.dof), (g.dof, g.dof))
            elif nm == "drexp":
                body = om("m1", "GT::Dof", "GT::Dof") + om("m2", "GT::Dof", "GT::Dof") + "  m1 = GT::dr_exp(a);\n  m2 = GT::ad(a);\n"
                shp = ((g.dof, g.dof), (g.dof, g.dof))
            elif nm == "drinv":
                body = om("m1", "GT::Dof", "GT::Dof") + om("m2", "GT::Dof", "GT::Dof") + "  m1 = GT::dr_expinv(a);\n  m2 = GT::dr_exp(a);\n"
                shp = ((g.dof, g.dof), (g.dof, g.dof))
            elif nm in LAYER2 or nm == "rm_sq":
                second = "d2" in nm
                if second and not has_hessian(g):
                    continue
                cols = "GT::Dof * GT::Dof" if second else "GT::Dof"
                ncols = g.dof * g.dof if second else g.dof
                if nm == "rm_sq":
                    if g.dof >= 8:
                        continue      # Eigen evaluates e^T J with its run-time gemv kernel (outside the series domain)
                    body = (om("m1", "1", "GT::Dof") + om("m2", "1", "GT::Dof") + "  const typename GT::Tangent e = a;\n"
                            "  m1 = smooth::dr_rminus_squarednorm<GT>(e);\n  const Eigen::Matrix<double, GT::Dof, GT::Dof> J = GT::dr_expinv(a);\n"
                            "  for (int c = 0; c < GT::Dof; ++c) { double acc = 0; for (int r = 0; r < GT::Dof; ++r) acc += e(r) * J(r, c); m2(0, c) = acc; }\n")
                    shp = ((1, g.dof), (1, g.dof))
                    W.add("ray_%s_%s" % (g.key, nm), sig, pre + body, g=g, name=nm, shape=shp)
                    continue
                lhs, mid, rhs = LAYER2[nm]
                body = om("m1", "GT::Dof", cols) + om("m2", "GT::Dof", cols) + "  const typename GT::Tangent e = a;\n  m1 = %s;\n  m2 = %s;\n" % (lhs, rhs)
                shp = ((g.dof, ncols), (g.dof, ncols))
                W.add("ray_%s_%s" % (g.key, nm), sig, pre + body, g=g, name=nm, shape=shp)
                if mid:
                    body = om("m1", "GT::Dof", cols) + om("m2", "GT::Dof", cols) + "  m1 = %s;\n  m2 = %s;\n" % (mid, rhs)
                    W.add("ray_%s_%s_cls" % (g.key, nm), sig, pre + body, g=g, name=nm, shape=shp)
                continue
            elif nm == "unitnorm":
                if g.key not in ROT_COEFFS:
                    continue
                o, n = ROT_COEFFS[g.key]
                body = om("m1", "1", "1") + om("m2", "1", "1") + "  m1(0, 0) = GT::exp(a).coeffs().template segment<%d>(%d).squaredNorm();\n  m2(0, 0) = 1;\n" % (n, o)
                shp = ((1, 1), (1, 1))
            elif nm in ("d2rminus", "sqnorm"):
                if not has_hessian(g) or g.dof >= 8:
                    continue          # for Dof >= 8 Eigen evaluates the block products with its run-time gemm kernel (outside the series domain)
                if nm == "d2rminus":
                    body = ("  constexpr int N = GT::Dof;\n  Eigen::Map<Eigen::Matrix<double, N, N * N>> m1(o1), m2(o2);\n"
                            "  const typename GT::Tangent e = a;\n  m1 = smooth::d2r_rminus<GT>(e);\n"
                            "  const Eigen::Matrix<double, N, N> J = smooth::dr_expinv<GT>(e);\n  const Eigen::Matrix<double, N, N * N> H = smooth::d2r_expinv<GT>(e);\n"
                            "  for (int i = 0; i < N; ++i) for (int k = 0; k < N; ++k) for (int j = 0; j < N; ++j) {\n"
                            "    double acc = 0; for (int m = 0; m < N; ++m) acc += H(k, N * i + m) * J(m, j);\n    m2(k, N * i + j) = acc;\n  }\n")
                    shp = ((g.dof, g.dof * g.dof), (g.dof, g.dof * g.dof))
                else:
                    body = ("  constexpr int N = GT::Dof;\n" + om("m1", "N", "N") + om("m2", "N", "N")
                            + "  const typename GT::Tangent e = a;\n  m1 = smooth::d2r_rminus_squarednorm<GT>(e);\n"
                            "  const Eigen::Matrix<double, N, N> J = smooth::dr_rminus<GT>(e);\n  const Eigen::Matrix<double, N, N * N> H = smooth::d2r_rminus<GT>(e);\n"
                            "  for (int r = 0; r < N; ++r) for (int c = 0; c < N; ++c) {\n"
                            "    double acc = 0; for (int m = 0; m < N; ++m) acc += J(m, r) * J(m, c) + e(m) * H(r, N * m + c);\n    m2(r, c) = acc;\n  }\n")
                    shp = ((g.dof, g.dof), (g.dof, g.dof))
                W.add("ray_%s_%s" % (g.key, nm), sig, pre + body, g=g, name=nm, shape=shp)
                continue
            elif nm in ("d2rexp", "d2rinv"):
                if not has_hessian(g):
                    continue
                fn = "d2r_exp" if nm == "d2rexp" else "d2r_expinv"
                W.add("ray_%s_%s" % (g.key, nm), "const double* p0, const double* p1, double* o1, double* o2, double* o3",
                      pre + "  Eigen::Map<const Eigen::Matrix<double, GT::Dof, 1>> b(p1);\n"
                      + "  Eigen::Map<Eigen::Matrix<double, GT::Dof, GT::Dof * GT::Dof>> m1(o1);\n" + om("m2", "GT::Dof", "GT::Dof") + om("m3", "GT::Dof", "GT::Dof")
                      + "  m1 = GT::%s(a);\n  m2 = GT::ad(a);\n  m3 = GT::ad(b);\n" % fn, g=g, name=nm, shape=((g.dof, g.dof * g.dof), (g.dof, g.dof)))
                continue
            else:
                raise KeyError(nm)
            W.add("ray_%s_%s" % (g.key, nm), sig, pre + body, g=g, name=nm, shape=shp)
    return W


def d_power_sum(X, Y, coeff, order):
    """d/ds sum_k coeff(k) (X + s Y)^k at s = 0 = sum_k coeff(k) sum_p X^p Y X^(k-1-p); X vanishes at t = 0, Y is constant"""
    n = len(X)
    pw = [rays.mat_id(n)]
    for k in range(1, order + 1):
        pw.append([[x.trunc(order + 1) for x in row] for row in rays.mat_mul(pw[-1], X)])
    acc = [[Series({}, rays.N_IN) for _ in range(n)] for _ in range(n)]
    for k in range(1, order + 2):
        ck = coeff(k)
        if ck == 0:
            continue
        for p_ in range(k):
            term = rays.mat_mul(rays.mat_mul(pw[p_], Y), pw[k - 1 - p_])
            acc = rays.mat_add(acc, rays.mat_scale(term, ck))
    return acc


def contract_hessian(H, b0, n):
    """C(i, k) = sum_j H(k, n*i + j) b0_j   (H(k, n*i + j) = d J(i,k) / d a_j, the horizontally stacked convention)"""
    out = []
    for i in range(n):
        row = []
        for k in range(n):
            s = Series({}, rays.N_IN)
            for j in range(n):
                if b0[j] != 0 and H[k][n * i + j].c:
                    s = s + H[k][n * i + j] * b0[j]
            row.append(s)
        out.append(row)
    return out


def mat_inv_unipotent(J, order):
    """inverse of J = I - E with E vanishing at t = 0"""
    n = len(J)
    E = rays.mat_add(rays.mat_id(n), J, -1)
    return rays.power_sum(E, lambda k: 1, order)


def expected(nm, M1, M2, order):
    """(left, right) matrices of series to compare"""
    if nm == "exp" or nm == "Adexp":
        return M1, rays.power_sum(M2, lambda k: Fraction(1, factorial(k)), order)
    if nm == "drexp":
        return M1, rays.power_sum(M2, lambda k: Fraction((-1) ** k, factorial(k + 1)), order)
    if nm in ("logexp", "d2rminus", "sqnorm", "unitnorm", "rm_sq") or nm in LAYER2:
        return M1, M2
    if nm == "drinv":
        return rays.mat_mul(M1, M2), rays.mat_id(len(M1))
    raise KeyError(nm)


TSCALE = 10 ** 7


def run(rep, tier, prop, names, tol, full_order=8, variants=1, rule=None, minimum=None, what=None):
    rule = rule or ("T." + prop)
    gs = [g for g in groups.catalogue("quick")]
    if prop in ("C02", "C04") and rule.startswith("T.C"):
        gs.append(groups.base("SE_3_3"))      # a second member of the SE_K_3 family: offsets that are only right for K = 2 become visible
    if tier == "thorough":
        gs += [g for g in groups.catalogue("thorough") if g.key in ("SE_1_3d", "B_SE3d_SO2d_V3d_C1d", "B_nested")]
        variants = max(variants, 2)
    rep.rule(rule, (what + ": " if what else "") + "closed-form path reproduces the defining series along rational rays to order %d; on every other path (polynomial branch of a small-angle switch) the first differing term is below %g at the largest t that selects it" % (full_order, tol), minimum=minimum if minimum is not None else len(names) * 4)
    W = witnesses(gs, names)
    facts = W.build()
    rep.cmds.append(fe.clangxx() + " " + " ".join(fe.IR_FLAGS))
    rep.unit("%d ray witnesses" % len(W.wits))
    for fname, (ff, meta, mod) in sorted(facts.items()):
        g, nm = meta["g"], meta["name"]
        (r1, c1), (r2, c2) = meta["shape"]
        hess = nm in ("d2rexp", "d2rinv")
        for variant in list(range(variants)) + ["neg", "zero-part"]:
            if variant == "neg":
                # the mirrored ray: formulas that are only right for one sign of a rotation coordinate (|w| for w, a one-sided branch) show up here
                a0 = [-x for x in direction(g, 0, tscale=TSCALE)]
                b0 = direction(g, 1)[::-1]
            elif variant == "zero-part":
                a0 = zero_part(g, direction(g, 0, tscale=TSCALE))
                if a0 is None:
                    continue
                b0 = direction(g, 1)[::-1]
            elif variant != "neg":
                a0 = direction(g, variant, tscale=TSCALE)
                b0 = direction(g, variant + 1)[::-1]
            inputs = {"a%d" % i: Series({1: a0[i]}, rays.N_IN) for i in range(g.dof)}
            if hess:
                inputs.update({"b%d" % i: Series.const(b0[i], rays.N_IN) for i in range(g.dof)})

            def cell_var(p, off, ty, hess=hess, g=g):
                if (p == 0 or (p == 1 and hess)) and not (0 <= off // 8 < g.dof):
                    raise poly.OutOfRange("element %d of the %d-element tangent argument" % (off // 8, g.dof))
                if p == 0:
                    return "a%d" % (off // 8)
                if p == 1 and hess:
                    return "b%d" % (off // 8)
                return None
            inst = "%s ray %s" % (nm, variant)
            try:
                paths, tstar = rays.evaluate(ff, cell_var, inputs, max_paths=512)
                results = []
                for path in paths:
                    if hess:
                        H = rays.mat_from(path["stores"], 2, r1, c1)
                        X = rays.mat_from(path["stores"], 3, r2, c2)
                        Y = rays.mat_from(path["stores"], 4, r2, c2)
                        L = contract_hessian(H, b0, g.dof)
                        cf = lambda k: Fraction((-1) ** k, factorial(k + 1))
                        dJ = d_power_sum(X, Y, cf, full_order)
                        if nm == "d2rexp":
                            R = dJ
                        else:
                            Ji = mat_inv_unipotent(rays.power_sum(X, cf, full_order), full_order)
                            R = rays.mat_scale(rays.mat_mul(rays.mat_mul(Ji, dJ), Ji), -1)
                    else:
                        M1 = rays.mat_from(path["stores"], 1, r1, c1)
                        M2 = rays.mat_from(path["stores"], 2, r2, c2)
                        L, R = expected(nm, M1, M2, full_order)
                    mm, known = rays.first_mismatch(L, R, full_order)
                    dev = rays.deviation_at(L, R, full_order, tstar) if (mm is not None and tstar > 0) else (0.0, None, 1.0)
                    results.append((mm, known, path, dev))
            except poly.Narrowing as ex:
                rep.instance(rule, g.ctype, inst, ok=False, sample={"witness": fname, "identity": IDENT[nm][1]})
                rep.violation(Finding(rule, g.ctype, inst, "%s: a value is narrowed to a lower floating-point precision inside this double-precision "
                                      "operation (`%s`)" % (IDENT[nm][1], str(ex)[:80]), None, None, detail={"witness": fname}))
                continue
            except poly.OutOfRange as ex:
                rep.instance(rule, g.ctype, inst, ok=False, sample={"witness": fname, "identity": IDENT[nm][1]})
                rep.violation(Finding(rule, g.ctype, inst, "%s: the compiled operation reads %s (a sub-vector is addressed with an offset that is only right for another size of this "
                                      "group family)" % (IDENT[nm][1].split("==")[0].strip(), ex), None, None, detail={"witness": fname}))
                continue
            except (poly.Unsupported, ir.Unresolved) as ex:
                rep.broke("%s (%s): cannot abstract into the series domain: %s" % (fname, inst, ex))
                continue
            full = [r for r in results if r[0] is None and r[1] >= min(full_order, 6)]
            # a path that does not reproduce the series exactly (polynomial branch): its deviation at the largest t that selects it, relative to the
            # largest entry of the exact result there, must stay within the tolerance
            low = [r for r in results if r[0] is not None and (tstar == 0.0 or r[3][0] > tol * max(r[3][2], 1e-300))]
            ok = bool(full) and not low
            rep.instance(rule, g.ctype, inst, ok=ok, sample={"witness": fname, "identity": IDENT[nm][1], "paths": len(results),
                                                             "direction": [str(x) for x in a0], "second_direction": [str(x) for x in b0] if hess else None,
                                                             "orders_known": [r[1] for r in results], "t_switch": tstar})
            if ok:
                continue
            if low:
                mm, known, path, dev = low[0]
            else:
                mm, known, path, dev = max(results, key=lambda r: (r[0][2] if r[0] else -1))
            conds = ", ".join("%s=%s" % c for c in path["conds"][:4]) or "straight-line"
            if mm is None:
                msg = "no path is known to order %d (known to %d)" % (full_order, known)
            else:
                msg = "entry (%d,%d): coefficient of t^%d is %s, the defining series has %s" % (mm[0], mm[1], mm[2], mm[3], mm[4])
                if low:
                    msg += "; at t = %.3g (translation-like coordinates of about %.3g) the result deviates by %.3g relative to its largest entry, tolerance %g" % (
                        tstar, float(TSCALE) * tstar, dev[0] / max(dev[2], 1e-300), tol)
            rep.violation(Finding(rule, g.ctype, inst, "%s fails along a = t*(%s) on path [%s]: %s%s" % (
                IDENT[nm][1], ", ".join(str(x) for x in a0), conds, msg,
                "" if low else " (no path reproduces the defining series to order %d)" % full_order), None, None, detail={"witness": fname}))
