"""Function-local statics whose initialiser depends on the function's arguments.

A local `static` is initialised once, by the first call that reaches it; if its initialiser reads a parameter (directly, or through locals computed from parameters, or through
`*this` members in a member function) every later call silently reuses the first call's data -- the function's result is no longer a function of its own arguments.  This is a
data-flow fact of the source: the rule follows DeclRefExpr -> ParmVarDecl / local VarDecl edges inside the enclosing function (resolved declarations, not names)."""
import astlib as A


def scan(objs, in_repo):
    """[(function qualified name, static VarDecl node, sorted parameter names its initialiser depends on)] over function template patterns and plain functions"""
    out = []
    seen = set()

    def visit(n, scope):
        k = n.get("kind")
        if k in ("NamespaceDecl", "CXXRecordDecl", "ClassTemplateDecl", "ClassTemplatePartialSpecializationDecl", "LinkageSpecDecl", "TranslationUnitDecl"):
            nm = n.get("name")
            for c in A.kids(n):
                if c.get("kind") == "ClassTemplateSpecializationDecl":
                    continue
                visit(c, scope + ([nm] if nm and k != "LinkageSpecDecl" else []))
            return
        if k == "FunctionTemplateDecl":
            for c in A.kids(n):
                if c.get("kind") in A.FUNCS:
                    visit(c, scope)
                    break
            return
        if k in A.FUNCS:
            b = A.body(n)
            if b is None or not in_repo(n):
                return
            ident = A.loc(n)
            if ident in seen:
                return
            seen.add(ident)
            params = {p.get("id"): p.get("name") for p in A.params(n)}
            locals_ = {}
            for x in A.walk(b):
                if x.get("kind") == "VarDecl" and x.get("storageClass") != "static":
                    locals_[x.get("id")] = x
                if x.get("kind") == "ParmVarDecl":        # parameters of lambdas inside the function do not count
                    pass

            memo = {}

            def deps(node, depth=0):
                """names of the enclosing function's parameters that the expression under `node` reads"""
                acc = set()
                for x in A.walk(node):
                    if x.get("kind") == "DeclRefExpr":
                        rd = x.get("referencedDecl", {})
                        rid = rd.get("id")
                        if rid in params:
                            acc.add(params[rid])
                        elif rid in locals_ and depth < 12:
                            if rid not in memo:
                                memo[rid] = set()
                                ini = [c for c in A.kids(locals_[rid]) if not (c.get("kind") or "").endswith(("Attr", "Comment"))]
                                memo[rid] = set().union(*[deps(c, depth + 1) for c in ini]) if ini else set()
                            acc |= memo[rid]
                    elif x.get("kind") == "CXXThisExpr":
                        acc.add("*this")
                return acc
            fname = "::".join([s for s in scope if s] + [n.get("name", "")])
            for x in A.walk(b):
                if x.get("kind") == "VarDecl" and x.get("storageClass") == "static":
                    ini = [c for c in A.kids(x) if not (c.get("kind") or "").endswith(("Attr", "Comment"))]
                    d = set().union(*[deps(c) for c in ini]) if ini else set()
                    out.append((fname, x, sorted(d)))
            return
    for o in objs:
        visit(o, [])
    return out
