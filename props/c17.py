"""C17 -- relations and conversions between groups (two clauses).

G1 (A) SO2::angle / angle_cw / angle_ccw: ranges and congruence modulo 2pi by an exhaustive case analysis over the unit circle
       (8 signed-zero points, 4 open quadrants) of the optimized IR in the sign-case / affine-angle domain of props/anglem.py.
G2 (I+A) normalised, canonical conversions: shared with C15 (R1 on the conversion witnesses, R3).
"""
import anglem
import astlib as A
import c15
import c17e
import fe


def check(rep, tier, replay=None):
    rep.explanations.append(
        "C17 (two clauses): SO2 angle functions decided by an exhaustive case split of the unit circle (8 signed-zero points, 4 open quadrants; a quadrant is subdivided "
        "where a comparison changes inside it): the optimized IR is interpreted over sign classes of the stored (sin, cos) and affine forms s*theta + k*pi, "
        "with atan2's IEEE quadrant table as transfer function -- each part is decided for all its elements at once, no value is sampled; "
        "normalised/canonical conversions shared with C15 (sign shape of q_w in the IR of the conversion witnesses, normalising constructors).")
    rep.trusted.update(["clang++-16 front end", "IEEE-754 / C11 Annex F table of atan2 at signed zeros"])
    rep.assumptions.append("SE_K_3<1> == SE3, SE_K_3<2> in Galilei (composition, inverse), rot_i(t) = exp(t e_i) and the lift/project relations are decided by rules E.P / E.R (the transcendental ones along rays through the identity); Euler / isometry round trips and the C1 factorisation are NOT decided")
    d = fe.ast_dumps(["smooth::SO2", "SO3", "Impl"])
    rep.unit("umbrella TU filtered SO2 / SO3 / Impl")
    anglem.check(rep, "G1")
    c15.check_r3(rep, d["smooth::SO2"] + d["SO3"])
    c15.check_r5(rep, d["smooth::SO2"] + d["SO3"])
    # canonical hemisphere of every conversion that produces an SO3 part
    c15.check_r1(rep, tier, only_conversions=True)
    c17e.run(rep, tier)
