"""C01 -- group operations realise the documented matrix group (exact algebraic identities; rounding not bounded)."""
import algebra


def check(rep, tier, replay=None):
    rep.explanations.append(
        "C01 (algebraic part): matrix(g1*g2) = matrix(g1) matrix(g2), matrix(inverse(g)) = matrix(g)^-1, matrix(Identity) = I and "
        "g*v = matrix action are established as exact polynomial identities modulo the unit-norm constraints, on every control-flow "
        "path (e.g. both outcomes of the canonical-sign flip), from the optimized IR of API-level witnesses.  Associativity and the "
        "two-sided identity/inverse follow because matrix() is injective on the constraint set up to the canonical sign.  "
        "The 1e-12 / 1e-5 rounding clause is NOT decided.")
    rep.trusted.update(["clang++-16 front end and -O2 pipeline (value-preserving without -ffast-math)", "lib/poly.py exact rational arithmetic", "lib/ir.py"])
    rep.assumptions.append("exact real arithmetic; the relative-accuracy clause (1e-12 double / 1e-5 float) is not decided")
    algebra.check_identities(rep, tier, "C01")
