"""C14 -- curve construction meets its specification (thin structural clauses U1, U2)."""
import itertools
import re
from fractions import Fraction

import astlib as A
import fe
import pe
from report import Finding


def seg_name(e):
    s = re.sub(r"\s", "", A.show(e))
    return s.split("::")[-1]


def check_u1(rep, idx):
    """U1 on engine M: detail::dubins and dubins_curve are abstractly executed with the candidate computations dubins_csc / dubins_ccc replaced by scripted
    oracles (rational segment lengths, +infinity for an infeasible word).  For every script the result must be the word of minimal length
    d2 + R (a1 + a3) resp. R (a1 + a2 + a3) among the six Dubins words LSL, LSR, RSL, RSR, RLR, LRL, with the segment kinds of the word the lengths were
    computed for; dubins_curve must realise Left / Right / Straight segments as the unit-speed body velocities (1, 0, +-1/R), (1, 0, 0) for R l resp. l."""
    import itertools
    import mach
    from mach import Cell, PyFunc, Tup, Vec, Unab, AbstractViolation, simp
    rep.rule("U1", "detail::dubins / dubins_curve, abstractly executed with scripted candidate lengths: the result is the shortest of the six Dubins words with its own segment kinds; "
             "segments are realised as unit-speed arcs of curvature +-1/R", minimum=16)
    fns = [d for d in idx if d.kind in A.FUNCS and d.pattern and d.qname.split("::")[-1] == "dubins" and A.body(d.node) is not None]
    if len(fns) != 1:
        rep.broke("U1: detail::dubins not found (%d)" % len(fns))
        return
    d = fns[0]
    WORDS = [("csc", "Left", "Left"), ("csc", "Left", "Right"), ("csc", "Right", "Left"), ("csc", "Right", "Right"), ("ccc", "Right", "Left"), ("ccc", "Left", "Right")]
    R = Fraction(3, 2)
    INF = float("inf")

    def kinds_of(w):
        return [w[1], "Straight", w[2]] if w[0] == "csc" else [w[1], w[2], w[1]]

    def length(w, l):
        if any(isinstance(x, float) for x in l):
            return INF
        return l[1] + R * (l[0] + l[2]) if w[0] == "csc" else R * (l[0] + l[1] + l[2])

    def machine(script, asked):
        def seg(M, n, env, _):
            t = (n or "").split("::")[-1]
            if t in ("Left", "Right", "Straight"):
                return t
            return NotImplemented

        def cand(kind):
            def f(M, v):
                if not (v[0] == "TARGET" and mach.num_equal(v[1], R)):
                    raise AbstractViolation("a candidate is not computed for (target, R)")
                w = (kind, v[2], v[3])
                asked.append(w)
                if w not in script:
                    return Tup([Cell(INF), Cell(INF), Cell(INF)])          # not a Dubins word: infeasible
                return Tup([Cell(x) for x in script[w]])
            return PyFunc(f)
        M = mach.Machine(funcs={"name:*": PyFunc(seg, lazy=True), "dubins_csc": cand("csc"), "dubins_ccc": cand("ccc"), "infinity": PyFunc(lambda M_, v: INF)})
        M.global_env = mach.Env()
        M.ieee_division = True
        return M
    scripts = []
    base = [Fraction(k) for k in (1, 2, 3)]
    for best in range(6):
        sc = {}
        for i, w in enumerate(WORDS):
            bump = Fraction(0) if i == best else Fraction(5 + i)
            sc[w] = [base[0] + bump, base[1], base[2]]
        scripts.append(("shortest is %s" % "".join(k[0] for k in kinds_of(WORDS[best])), sc))
    sc = {w: [INF, INF, INF] for w in WORDS}
    sc[WORDS[4]] = [Fraction(1), Fraction(1), Fraction(1)]
    scripts.append(("only RLR feasible", sc))
    sc = {w: [Fraction(2), Fraction(2), Fraction(2)] for w in WORDS}
    sc[WORDS[1]] = [Fraction(2), Fraction(0), Fraction(2)]         # a CSC word with a zero-length straight part beats CCC with the same angles
    scripts.append(("LSR with zero straight part", sc))
    sc = {w: [Fraction(1), Fraction(4), Fraction(1)] for w in WORDS}       # CSC: 4 + 3 = 7 ; CCC: 1.5 * 6 = 9 -> a CSC word wins; formula mix-ups change the winner
    sc[WORDS[5]] = [Fraction(1), Fraction(2), Fraction(1)]                 # LRL: 1.5 * 4 = 6 wins
    scripts.append(("LRL wins only with the CCC length formula", sc))
    # a CCC word that would win only if its length were computed with the CSC formula a2 + R (a1 + a3), and a CSC word that would win only with the CCC formula
    sc = {w: [Fraction(9), Fraction(9), Fraction(9)] for w in WORDS}
    sc[WORDS[4]] = [Fraction(1), Fraction(2), Fraction(1)]                 # RLR: 1.5 * 4 = 6   (CSC formula would give 5)
    sc[WORDS[0]] = [Fraction(1), Fraction(1), Fraction(2)]                 # LSL: 1 + 1.5 * 3 = 5.5 -> shortest
    scripts.append(("LSL (5.5) beats RLR (6)", sc))
    sc = {w: [Fraction(9), Fraction(9), Fraction(9)] for w in WORDS}
    sc[WORDS[3]] = [Fraction(1), Fraction(4), Fraction(1)]                 # RSR: 4 + 3 = 7     (CCC formula would give 9)
    sc[WORDS[5]] = [Fraction(2), Fraction(1), Fraction(2)]                 # LRL: 1.5 * 5 = 7.5
    scripts.append(("RSR (7) beats LRL (7.5)", sc))
    nviol = 0
    for name, sc in scripts:
        asked = []
        try:
            M = machine(sc, asked)
            r = M.rv(M.run_function(d, [Cell("TARGET"), Cell(R)]))
        except Unab as ex:
            rep.broke("U1: detail::dubins is outside the abstract machine (%s): %s" % (name, ex))
            return
        except AbstractViolation as ex:
            rep.instance("U1", "detail::dubins", name, ok=False, sample={})
            rep.violation(Finding("U1", "detail::dubins", name, "%s: %s" % (name, ex), d.file, d.line))
            continue
        lens = {w: length(w, sc[w]) for w in WORDS}
        best_len = min(lens.values(), key=float)
        winners = [w for w in WORDS if lens[w] == best_len]
        bad = None
        got = None
        while isinstance(r, Vec) and len(r.items) == 1 and isinstance(M.rv(r.items[0]), Vec):
            r = M.rv(r.items[0])          # std::array aggregate written with an extra pair of braces
        if isinstance(r, Vec) and len(r.items) == 3 and all(isinstance(M.rv(x), (Tup, Vec)) and len(M.rv(x).items) == 2 for x in r.items):
            got = [(M.rv(M.rv(x).items[0]), M.rv(M.rv(x).items[1])) for x in r.items]
        if set(asked) != set(WORDS) or len(asked) != 6:
            bad = "the candidates tried are %s; the six Dubins words are LSL, LSR, RSL, RSR, RLR, LRL" % sorted("%s(%s,%s)" % w for w in asked)
        elif got is None:
            bad = "returns %s, not three (segment, length) pairs" % mach.show_val(r)[:120]
        elif not any([g[0] for g in got] == kinds_of(w) and all(mach.num_equal(g[1], x) for g, x in zip(got, sc[w])) for w in winners):
            bad = "returns %s; the shortest word is %s with lengths %s (path lengths: %s)" % (
                [(g[0], str(g[1])) for g in got], "".join(k[0] for k in kinds_of(winners[0])), [str(x) for x in sc[winners[0]]],
                {"".join(k[0] for k in kinds_of(w)): str(v) for w, v in lens.items()})
        rep.instance("U1", "detail::dubins", name, ok=bad is None, sample={})
        if bad:
            nviol += 1
            if nviol <= 3:
                rep.violation(Finding("U1", "detail::dubins", name, "%s: %s" % (name, bad), d.file, d.line))
    # dubins_curve: segment -> body velocity and duration
    cs = [x for x in idx if x.kind in A.FUNCS and x.pattern and x.qname.split("::")[-1] == "dubins_curve" and A.body(x.node) is not None]
    if len(cs) != 1:
        rep.broke("U1: dubins_curve not found")
        return
    c = cs[0]
    for kinds in itertools.product(("Left", "Right", "Straight"), repeat=3):
        if kinds not in (("Left", "Straight", "Right"), ("Right", "Left", "Right"), ("Straight", "Straight", "Left"), ("Left", "Right", "Left"), ("Right", "Straight", "Straight")):
            continue
        ls = [Fraction(2), Fraction(5), Fraction(1, 3)]
        segs = []

        def seg(M, n, env, _):
            t = (n or "").split("::")[-1]
            if t in ("Left", "Right", "Straight"):
                return t
            return NotImplemented

        class Curve:
            def __init__(self):
                self.parts = []

            def show(self):
                return "curve%s" % self.parts

            def iop_add(self, M, v):
                self.parts.append(v)

        def cv(M, v):
            vel = v[0]
            vals = [simp(x) for x in (vel.items if isinstance(vel, Vec) else [])]
            return ("cv", tuple(vals), simp(v[1]))

        def types(M, tyn, args, env):
            if tyn.startswith(("Spline<", "constSpline<")) and not args:
                return Curve()
            if tyn.startswith("Eigen::Vector3d") and args is not None and len(args) == 3:
                return Vec([M.eval(a, env) for a in args], "Vector3d")
            return NotImplemented
        M = mach.Machine(type_factory=types, funcs={"name:*": PyFunc(seg, lazy=True), "ConstantVelocity": PyFunc(cv),
                                                    "dubins": PyFunc(lambda M_, v: Vec([Tup([Cell(k), Cell(l)]) for k, l in zip(kinds, ls)], "desc"))})
        M.global_env = mach.Env()
        inst = "segments %s" % "".join(k[0] for k in kinds)
        try:
            r = M.rv(M.run_function(c, [Cell("TARGET"), Cell(R)]))
        except Unab as ex:
            rep.broke("U1: dubins_curve is outside the abstract machine (%s): %s" % (inst, ex))
            return
        except AbstractViolation as ex:
            rep.instance("U1", "dubins_curve", inst, ok=False, sample={})
            rep.violation(Finding("U1", "dubins_curve", inst, "%s: %s" % (inst, ex), c.file, c.line))
            continue
        want = []
        for k, l in zip(kinds, ls):
            w = {"Left": 1 / R, "Right": -1 / R, "Straight": Fraction(0)}[k]
            want.append(("cv", (Fraction(1), Fraction(0), w), (R * l) if k != "Straight" else l))
        ok = isinstance(r, Curve) and r.parts == want
        rep.instance("U1", "dubins_curve", inst, ok=ok, sample={})
        if not ok:
            rep.violation(Finding("U1", "dubins_curve", inst, "for the description %s the curve is built from %s; unit-speed arcs need %s" % (
                list(zip(kinds, [str(x) for x in ls])), getattr(r, "parts", r), want), c.file, c.line))


def count_rows(stmt, env):
    """number of b(M++) executions of a statement, with symbolic loop trip counts evaluated in env"""
    k = stmt.get("kind")
    ks = A.kids(stmt)
    if k == "CompoundStmt":
        return sum(count_rows(c, env) for c in ks)
    if k == "ForStmt":
        init, _cv, cond, inc, body = (ks + [None] * 5)[:5]
        ce = A.to_expr(cond)
        var = None
        start = Fraction(0)
        for v in A.kids(init) if init is not None and init.get("kind") == "DeclStmt" else []:
            if v.get("kind") == "VarDecl":
                var = v.get("name")
                start = pe.ev(A.to_expr(A.kids(v)[-1]), env)
        if ce[0] == "op" and ce[1] in ("<", "<=", "!=") and ce[2][0] == "ref" and ce[2][1] == var:
            hi = pe.ev(ce[3], env)
            n = hi - start + (1 if ce[1] == "<=" else 0)
            n = max(Fraction(0), n)
        else:
            raise pe.PEError("loop condition %s" % A.show(ce))
        return n * count_rows(body, env)
    if k == "CXXForRangeStmt":
        # trip count of utils::zip(...) = shortest member
        rng = None
        for c in ks:
            if c.get("kind") == "DeclStmt":
                for v in A.kids(c):
                    if (v.get("name") or "").startswith("__range"):
                        rng = A.to_expr(A.kids(v)[-1])
        if rng is None:
            raise pe.PEError("range of range-for not found")
        n = range_len(rng, env)
        return n * count_rows(ks[-1], env)
    if k == "IfStmt":
        c = pe.ev(A.to_expr(ks[0]), env)
        if c:
            return count_rows(ks[1], env)
        return count_rows(ks[2], env) if len(ks) > 2 else Fraction(0)
    n = Fraction(0)
    for x in A.walk(stmt):
        if x.get("kind") == "UnaryOperator" and x.get("opcode") == "++" and x.get("isPostfix"):
            e = A.to_expr(x)
            if e[2][0] == "ref" and e[2][1] == "M":
                n += 1
    return n


INF = Fraction(10 ** 9)


def range_len(e, env):
    if e[0] == "sub" and e[1][0] == "ref":          # range adaptor objects are called through operator()
        e = ("call", e[1][1], e[2])
    if e[0] == "call":
        nm = str(e[1]).split("::")[-1]
        if nm == "zip":
            return min(range_len(a, env) for a in e[2])
        if nm == "iota":
            if len(e[2]) == 1:
                return INF
            return max(Fraction(0), pe.ev(e[2][1], env) - pe.ev(e[2][0], env))
    if e[0] == "ref" and e[1] in ("dt_r", "dx_r"):
        return Fraction(env["N"])
    if e[0] == "op" and e[1] == "|":
        base = range_len(e[2], env)
        r = e[3]
        if r[0] in ("call", "sub", "opcall") or True:
            t = re.sub(r"\s", "", A.show(r))
            m = re.match(r"^drop[\[(](\d+)[\])]$", t)
            if m:
                return max(Fraction(0), base - int(m.group(1)))
            m = re.match(r"^take[\[(](.*)[\])]$", t)
            if m:
                return min(base, Fraction(env["N"]))
    raise pe.PEError("range %s" % A.show(e)[:60])


def check_u2(rep, idx):
    rep.rule("U2", "fit_spline_1d assembles exactly N_eq constraint rows for every specification shape", minimum=1)
    fns = [d for d in idx if d.kind in A.FUNCS and d.pattern and d.qname.split("::")[-1] == "fit_spline_1d" and A.body(d.node) is not None]
    if len(fns) != 1:
        rep.broke("U2: fit_spline_1d not found")
        return
    d = fns[0]
    b = A.body(d.node)
    neq = None
    for x in A.walk(b):
        if x.get("kind") == "VarDecl" and x.get("name") == "N_eq" and A.kids(x):
            neq = A.to_expr(A.kids(x)[-1])
    if neq is None:
        rep.broke("U2: N_eq not found")
        return
    # statements that add rows: top-level loops after the declaration of M
    stmts = A.kids(b)
    start = None
    for i, s in enumerate(stmts):
        if s.get("kind") == "DeclStmt" and any(v.get("name") == "M" for v in A.kids(s)):
            start = i
    if start is None:
        rep.broke("U2: row counter M not found")
        return
    rows = [s for s in stmts[start + 1:] if s.get("kind") in ("ForStmt", "CXXForRangeStmt")]
    bad = None
    cases = 0
    try:
        for L, R, N, Inn in itertools.product((0, 1, 2), (0, 1, 3), (1, 2, 5), (-1, 0, 1, 2)):
            env = {"ss.LeftDeg.size()": L, "ss.RghtDeg.size()": R, "N": N, "SS::InnCnt": Inn, "K": 6}
            want = pe.ev(neq, env)
            got = sum(count_rows(s, env) for s in rows)
            cases += 1
            if got != want and bad is None:
                bad = (L, R, N, Inn, got, want)
    except (pe.PEError, KeyError) as ex:
        rep.broke("U2: cannot count constraint rows of fit_spline_1d symbolically: %s" % ex)
        return
    rep.instance("U2", "fit_spline_1d", "row-count", ok=bad is None, sample={"file": fe.rel(d.file), "line": d.line, "cases": cases, "N_eq": A.show(neq)[:160]})
    if bad:
        rep.violation(Finding("U2", "fit_spline_1d", "row-count",
                              "with %d left / %d right boundary conditions, %d intervals and InnCnt=%d the assembly loops write %s constraint rows but "
                              "N_eq = %s rows are allocated (rows missing or out of bounds)" % bad, d.file, d.line))


# ---- U3: fit_spline re-solves the middle cumulative coefficient so that the segment product is inv(g) * g_next ------------

class FGErr(Exception):
    pass


def iev(e, env):
    """C integer arithmetic (division truncates) for index expressions"""
    t = e[0]
    if t == "num":
        if e[1].denominator != 1:
            raise FGErr("non-integer literal")
        return int(e[1])
    if t == "ref":
        if e[1] in env:
            return env[e[1]]
        raise FGErr("unknown index variable %s" % e[1])
    if t == "neg":
        return -iev(e[1], env)
    if t == "ctor" and len(e[2]) == 1:
        return iev(e[2][0], env)
    if t == "call" and len(e[2]) == 1 and str(e[1]).split("::")[-1].split("<")[0] in ("static_cast", "int", "size_t", "Index"):
        return iev(e[2][0], env)
    if t == "op":
        a, b = iev(e[2], env), iev(e[3], env)
        op = e[1]
        if op == "+":
            return a + b
        if op == "-":
            return a - b
        if op == "*":
            return a * b
        if op == "/":
            if b == 0:
                raise FGErr("division by zero")
            q = abs(a) // abs(b)
            return q if (a >= 0) == (b >= 0) else -q
        if op == "%":
            return a - b * iev(("op", "/", e[2], e[3]), env)
        if op in ("<", "<=", ">", ">=", "==", "!="):
            return int({"<": a < b, "<=": a <= b, ">": a > b, ">=": a >= b, "==": a == b, "!=": a != b}[op])
    raise FGErr("index expression %s" % A.show(e)[:40])


def fg_reduce(w):
    out = []
    for x in w:
        if out and out[-1][0] == x[0] and out[-1][1] == -x[1]:
            out.pop()
        else:
            out.append(x)
    return out


def fg_inv(w):
    return [(s_, -e_) for s_, e_ in reversed(w)]


def check_u3(rep, idx):
    rep.rule("U3", "fit_spline (K > 2): after re-solving the middle coefficient, exp(v_0) ... exp(v_{K-1}) == inverse(g) * g_next in the free group, K = 3..6", minimum=4)
    fns = [d for d in idx if d.kind in A.FUNCS and d.pattern and d.qname.split("::")[-1] == "fit_spline" and A.body(d.node) is not None]
    if len(fns) != 1:
        rep.broke("U3: fit_spline not found (%d)" % len(fns))
        return
    d = fns[0]
    blocks = [x for x in A.walk(A.body(d.node)) if x.get("kind") == "IfStmt" and A.ntext(A.kids(x)[0]).replace("(", "").replace(")", "") in ("K>2", "2<K", "K>=3")]
    if len(blocks) != 1:
        rep.broke("U3: the `if constexpr (K > 2)` interpolation fix-up was not found in fit_spline")
        return
    blk = A.kids(blocks[0])[1]
    # the zip binding names of the enclosing segment loop: (i, dt, g, g_next)
    coefs = None
    for x in A.walk(A.body(d.node)):
        if x.get("kind") == "VarDecl" and "cum" in (x.get("name") or "") and A.kids(x):
            coefs = x.get("name")
    if coefs is None:
        rep.broke("U3: cumulative coefficient matrix not found")
        return

    def fname(e):
        return str(e[1]).split("::")[-1].split("<")[0]

    for K in (3, 4, 5, 6):
        ienv = {"K": K}
        genv = {}
        subst = {}

        def col_index(e):
            # coefs.col(k) / -coefs.col(k)
            sign = 1
            while e[0] == "neg":
                sign, e = -sign, e[1]
            if e[0] == "mcall" and e[2] == "col" and e[1][0] == "ref" and e[1][1] == coefs and len(e[4]) == 1:
                return sign, iev(e[4][0], ienv)
            raise FGErr("tangent argument %s" % A.show(e)[:40])

        def gv(e):
            if e[0] == "ref":
                if e[1] in genv:
                    return list(genv[e[1]])
                return [(e[1], 1)]
            if e[0] == "call":
                f = fname(e)
                if f == "composition":
                    out = []
                    for a in e[2]:
                        out += gv(a)
                    return fg_reduce(out)
                if f == "inverse" and len(e[2]) == 1:
                    return fg_inv(gv(e[2][0]))
                if f == "exp" and len(e[2]) == 1:
                    sg, k = col_index(e[2][0])
                    return [("E%d" % k, sg)]
            if e[0] == "op" and e[1] == "*":
                return fg_reduce(gv(e[2]) + gv(e[3]))
            if e[0] == "mcall" and e[2] == "inverse" and not e[4]:
                return fg_inv(gv(e[1]))
            raise FGErr("group expression %s" % A.show(e)[:50])

        def run(stmts, depth=0):
            for st in stmts:
                k = st.get("kind")
                if k == "DeclStmt":
                    for v in A.kids(st):
                        if v.get("kind") != "VarDecl" or not A.kids(v):
                            continue
                        init = A.to_expr(A.kids(v)[-1])
                        try:
                            ienv[v.get("name")] = iev(init, ienv)
                        except FGErr:
                            genv[v.get("name")] = gv(init)
                elif k == "ForStmt":
                    ks = A.kids(st)
                    run([ks[0]])
                    var = next(v.get("name") for v in A.kids(ks[0]) if v.get("kind") == "VarDecl")
                    inc = A.ntext(ks[3]).replace(" ", "")
                    step = 1 if inc in ("++" + var, var + "++") else (-1 if inc in ("--" + var, var + "--") else None)
                    if step is None:
                        raise FGErr("loop increment %s" % inc)
                    n = 0
                    while iev(A.to_expr(ks[2]), ienv):
                        body = ks[4]
                        run(A.kids(body) if body.get("kind") == "CompoundStmt" else [body])
                        ienv[var] += step
                        n += 1
                        if n > 50:
                            raise FGErr("loop does not terminate")
                elif k in ("BinaryOperator", "CXXOperatorCallExpr", "ExprWithCleanups"):
                    e = A.to_expr(st)
                    if e[0] == "op" and e[1] == "=" and e[2][0] == "ref":
                        genv[e[2][1]] = gv(e[3])
                    elif e[0] == "op" and e[1] == "=" and e[3][0] == "call" and fname(e[3]) == "log" and len(e[3][2]) == 1:
                        sg, kk = col_index(e[2])
                        w = gv(e[3][2][0])
                        subst["E%d" % kk] = w if sg == 1 else fg_inv(w)
                    else:
                        raise FGErr("statement %s" % A.show(e)[:50])
                elif k == "CompoundStmt":
                    run(A.kids(st))
                elif k in ("NullStmt",):
                    pass
                else:
                    raise FGErr("statement kind %s" % k)
        try:
            run(A.kids(blk) if blk.get("kind") == "CompoundStmt" else [blk])
            prod = []
            for k in range(K):
                prod += subst.get("E%d" % k, [("E%d" % k, 1)])
            prod = fg_reduce(prod)
        except (FGErr, pe.PEError, StopIteration) as ex:
            rep.broke("U3: cannot interpret the interpolation fix-up of fit_spline for K=%d: %s" % (K, ex))
            continue
        # the enclosing loop binds (g, g_next); the target is inverse(g) * g_next in whatever names the code uses: it must be the
        # word the fix-up started from (its first group value) -- identify it as the only word made of non-E symbols
        target = [x for x in prod if not x[0].startswith("E")]
        ok = prod == target and len(target) == 2 and target[0][1] == -1 and target[1][1] == 1 and target[0][0] != target[1][0]
        show = " ".join("%s%s" % (s_, "" if e_ == 1 else "^-1") for s_, e_ in prod) or "1"
        rep.instance("U3", "fit_spline", "K=%d" % K, ok=ok, sample={"file": fe.rel(d.file), "line": d.line, "segment_product": show, "resolved": sorted(subst)})
        if not ok:
            f, l = A.loc(blocks[0])
            rep.violation(Finding("U3", "fit_spline", "K=%d" % K,
                                  "for degree %d the product of the segment's exponentials after the fix-up is  %s  in the free group; interpolation of the "
                                  "next data point from the left needs exactly inverse(g) * g_next (E_k = exp(v_k); non-commuting factors were removed in the wrong order "
                                  "or on the wrong side)" % (K, show), f, l))


# ---- U4: reparameterize_spline starts at min(start_vel^2, v2max(0)) and the first segment's initial slope is its square root ------

def check_u4(rep, idx):
    rep.rule("U4", "reparameterize_spline: initial squared speed is min(start_vel^2, v2max(0)); segment slope at its start is sqrt of the current squared speed", minimum=2)
    fns = [d for d in idx if d.kind in A.FUNCS and d.pattern and d.qname.split("::")[-1] == "reparameterize_spline" and A.body(d.node) is not None]
    if len(fns) != 1:
        rep.broke("U4: reparameterize_spline not found (%d)" % len(fns))
        return
    d = fns[0]
    b = A.body(d.node)
    ps = [p.get("name") for p in A.params(d.node)]
    if "start_vel" not in ps:
        rep.broke("U4: parameter start_vel not found")
        return
    # the forward loop constructs Spline<2,double>{dt, {c1, c2}, si}; find it and the variables feeding c1
    ctor = None
    for x in A.walk(b):
        if x.get("kind") in ("CXXTemporaryObjectExpr", "CXXUnresolvedConstructExpr", "InitListExpr", "CXXFunctionalCastExpr", "CXXConstructExpr") and A.ntext(x).startswith("Spline<2,double>{"):
            if len(A.ntext(x)) > 30:
                ctor = x
                break
    if ctor is None:
        rep.broke("U4: construction of the reparameterisation segments not found")
        return
    e = A.to_expr(ctor)
    items = e[1] if e[0] == "init" else (e[2] if e[0] in ("ctor", "call") else None)
    if not items or len(items) != 3:
        rep.broke("U4: segment constructor has an unexpected shape: %s" % A.show(e)[:80])
        return
    dt_e, coef_e, s_e = items
    citems = coef_e[1] if coef_e[0] == "init" else (coef_e[2] if coef_e[0] in ("ctor", "call") else None)
    if not citems or len(citems) != 2:
        rep.broke("U4: segment coefficients have an unexpected shape")
        return
    locs = {}
    for x in A.walk(b):
        if x.get("kind") == "VarDecl" and A.kids(x) and x.get("name"):
            locs.setdefault(x.get("name"), []).append(A.to_expr(A.kids(x)[-1]))
    # slope of a quadratic cumulative Bezier segment of duration dt with first coefficient c1 at its start: 2 c1 / dt
    if dt_e[0] != "ref":
        rep.broke("U4: segment duration is not a variable")
        return
    speed_vars = sorted(A.refs(citems[0]) - {dt_e[1]})
    ok_slope = False
    vi = None
    if len(speed_vars) == 1:
        vi = speed_vars[0]
        try:
            ok_slope = all(2 * pe.ev(citems[0], {dt_e[1]: D_, vi: V_}) / D_ == V_ for D_, V_ in ((3, 5), (7, 2), (Fraction(1, 3), 11)))
        except pe.PEError:
            ok_slope = False
    # vi = sqrt(vi2), vi2 = v2m
    root_of = None
    if vi and len(locs.get(vi, [])) == 1:
        ve = locs[vi][0]
        if ve[0] == "call" and str(ve[1]).split("::")[-1] == "sqrt" and len(ve[2]) == 1 and ve[2][0][0] == "ref":
            root_of = ve[2][0][1]
    cur = None
    if root_of and len(locs.get(root_of, [])) == 1 and locs[root_of][0][0] == "ref":
        cur = locs[root_of][0][1]
    ok_chain = ok_slope and cur is not None
    rep.instance("U4", "reparameterize_spline", "initial slope", ok=ok_chain, sample={"file": fe.rel(d.file), "line": d.line, "speed": vi, "squared": root_of, "state": cur})
    if not ok_chain:
        f, l = A.loc(ctor)
        if vi and not ok_slope:
            rep.violation(Finding("U4", "reparameterize_spline", "initial slope", "the first coefficient %s of a segment does not give it the initial slope %s (2 c1 / dt)" % (A.show(citems[0])[:40], vi), f, l))
        else:
            rep.broke("U4: cannot trace the segment's initial slope back to the squared-speed state (speed=%s, squared=%s, state=%s)" % (vi, root_of, cur))
        return
    inits = locs.get(cur, [])
    if len(inits) != 1:
        rep.broke("U4: squared-speed state %s has %d initialisers" % (cur, len(inits)))
        return
    init = inits[0]
    # identity test: init(start_vel = s, v2max(0) = m) == min(s^2, m)
    others = sorted(A.refs(init) - {"start_vel"})
    ok_init = False
    try:
        vals = []
        for s_, m_ in ((Fraction(1, 2), 9), (3, 100), (Fraction(1, 10), 5), (4, 2), (Fraction(1, 3), Fraction(1, 100))):
            env = {"start_vel": s_}
            key = None
            for y in A.walk(b):
                pass
            # v2max(0) appears as a call / subscript of the bound table at index 0: bind every such spelling
            for spelling in ("v2max(0)", "v2max[0]", "v2max.coeff(0)"):
                env[spelling] = m_
            vals.append(pe.ev(init, env) == min(s_ * s_, m_))
        ok_init = all(vals)
    except pe.PEError as ex:
        rep.broke("U4: initial squared speed %s is outside the evaluator: %s" % (A.show(init)[:50], ex))
        return
    rep.instance("U4", "reparameterize_spline", "initial squared speed", ok=ok_init, sample={"init": A.show(init)[:80]})
    if not ok_init:
        x = next(x for x in A.walk(b) if x.get("kind") == "VarDecl" and x.get("name") == cur)
        f, l = A.loc(x)
        rep.violation(Finding("U4", "reparameterize_spline", "initial squared speed",
                              "the squared-speed state starts at %s; with s'(0) = sqrt of it, the requested bound s'(0) <= start_vel needs min(start_vel^2, v2max(0)) "
                              "(e.g. start_vel = 1/2 gives s'(0) = %s)" % (A.show(init)[:60], "sqrt(1/2)" if pe.ev(init, {"start_vel": Fraction(1, 2), "v2max(0)": 9, "v2max[0]": 9}) == Fraction(1, 2) else "a different value"), f, l))


def check_u5(rep, idx):
    """U5: every evaluation of the input curve inside the backward and the forward pass of reparameterize_spline is at the grid point t_min + i (t_max - t_min) / N of
    the pass's own counter i (so that the time map runs from t_min to t_max, not from 0), and the evaluation that fixes the end speed is at t_max.  The argument
    expressions are resolved through the single-assignment locals of the function and compared by identity testing over exact rationals."""
    rep.rule("U5", "reparameterize_spline: the curve is sampled at t_min + i (t_max - t_min) / N in both passes and at t_max for the end condition", minimum=3)
    fns = [d for d in idx if d.kind in A.FUNCS and d.pattern and d.qname.split("::")[-1] == "reparameterize_spline" and A.body(d.node) is not None]
    if len(fns) != 1:
        rep.broke("U5: reparameterize_spline not found (%d)" % len(fns))
        return
    d = fns[0]
    ps = [p.get("name") for p in A.params(d.node)]
    curve = ps[0]
    b = A.body(d.node)
    parents = {}
    for x in A.walk(b):
        for c in A.kids(x):
            parents[id(c)] = x
    locs = {}
    for x in A.walk(b):
        if x.get("kind") == "VarDecl" and A.kids(x) and x.get("name"):
            locs.setdefault(x.get("name"), []).append(A.to_expr(A.kids(x)[-1]))

    def scoped(name, node):
        """initialiser of the declaration of `name` that is visible at `node` (innermost enclosing block first)"""
        cur = node
        while id(cur) in parents:
            cur = parents[id(cur)]
            if cur.get("kind") == "CompoundStmt":
                for st in A.kids(cur):
                    if st.get("kind") == "DeclStmt":
                        for v in A.kids(st):
                            if v.get("kind") == "VarDecl" and v.get("name") == name and A.kids(v):
                                return A.to_expr(A.kids(v)[-1])
        return None

    def resolve(e, depth=0):
        if depth > 12 or not isinstance(e, (tuple, list)):
            return e
        if isinstance(e, list):
            return [resolve(y, depth) for y in e]
        if e and e[0] == "ref" and e[1] not in loopvars and e[1] in locs:
            init = locs[e[1]][0] if len(locs[e[1]]) == 1 else scoped(e[1], here[0])
            if init is not None:
                return resolve(init, depth + 1)
        if e and e[0] == "lambda":
            return e
        return tuple(resolve(y, depth) if isinstance(y, (tuple, list)) else y for y in e)
    calls = []
    loopvars = set()
    for x in A.walk(b):
        if x.get("kind") in ("CallExpr", "CXXOperatorCallExpr"):
            e = A.to_expr(x)
            args = None
            if e[0] == "call" and e[1] == curve:
                args = e[2]
            elif e[0] == "sub" and e[1][0] == "ref" and e[1][1] == curve:
                args = e[2]
            if args:
                calls.append((x, args[0]))
    if len(calls) < 3:
        rep.broke("U5: %d evaluations of the input curve found (3 confirmed by hand: end condition, backward pass, forward pass)" % len(calls))
        return
    here = [None]
    for node, arg in calls:
        here[0] = node
        # enclosing loop counter, if any
        loopvars = set()
        cur = node
        counter = None
        while id(cur) in parents:
            cur = parents[id(cur)]
            if cur.get("kind") in ("CXXForRangeStmt", "ForStmt", "WhileStmt"):
                for v in A.walk(cur):
                    if v.get("kind") == "VarDecl" and not (v.get("name") or "").startswith("__"):
                        counter = v.get("name")
                        break
                break
        if counter:
            loopvars.add(counter)
        f, l = A.loc(node)
        e = resolve(arg)
        bad = None
        try:
            for (a_, b_, n_, i_) in ((Fraction(2), Fraction(13, 2), 9, 4), (Fraction(-1), Fraction(5), 4, 0), (Fraction(3), Fraction(4), 7, 6)):
                env = {"%s.t_min()" % curve: a_, "%s.t_max()" % curve: b_, "N": n_}
                if counter:
                    env[counter] = i_
                got = pe.ev(e, env)
                want = a_ + i_ * (b_ - a_) / n_ if counter else b_
                if got != want:
                    bad = "for t_min = %s, t_max = %s, N = %d%s the curve is evaluated at %s; the grid point is %s" % (a_, b_, n_, (", i = %d" % i_) if counter else "", got, want)
                    break
        except pe.PEError as ex:
            rep.broke("U5: cannot evaluate the sampling parameter `%s` at %s:%s: %s" % (A.show(arg)[:40], fe.rel(f), l, ex))
            continue
        inst = "sample in %s" % ("the loop over %s @%s" % (counter, l) if counter else "the end condition")
        rep.instance("U5", "reparameterize_spline", "loop sample" if counter else "end sample", ok=bad is None, sample={"file": fe.rel(f), "line": l, "argument": A.show(e)[:80]})
        if bad:
            rep.violation(Finding("U5", "reparameterize_spline", "loop sample" if counter else "end sample",
                                  "%s: %s (the time map must run from t_min to t_max; a curve whose t_min is not 0, e.g. a BSpline, is sampled at the wrong parameters)" % (inst, bad), f, l))


def check(rep, tier, replay=None):
    rep.explanations.append(
        "C14 (thin): U1 exhaustiveness and self-consistency of the six Dubins candidates and the realisation of segments as unit-speed "
        "arcs; U2 the number of constraint rows assembled by fit_spline_1d equals the declared N_eq for every specification shape "
        "(symbolic trip counts).  Interpolation/boundary accuracy, minimality as geometry, fit_bspline and reparameterize_spline are numerical.")
    rep.trusted.update(["clang++-16 front end", "lib/pe.py"])
    rep.assumptions.append("accuracy of the fitted coefficients (incl. the derivative-minimising KKT system) is NOT decided")
    d = fe.ast_dumps(["dubins", "fit_spline", "reparameterize_spline"])
    rep.unit("umbrella TU filtered dubins / fit_spline / reparameterize_spline")
    check_u1(rep, A.index(d["dubins"]))
    check_u2(rep, A.index(d["fit_spline"]))
    check_u3(rep, A.index(d["fit_spline"]))
    check_u4(rep, A.index(d["reparameterize_spline"]))
    check_u5(rep, A.index(d["reparameterize_spline"]))
    import fitm
    fitm.check(rep, tier, d["fit_spline"])
