"""X1 on engine M (shared by C11 and C13): cspline_eval_vs is abstractly executed in a *free Lie algebra*.

Tangent vectors are formal sums of Lie monomials (the control velocities v_1..v_K, brackets, transported monomials) with scalar coefficients that
are polynomials in the symbols B{p}_{j} = p-th u-derivative of the j-th cumulative basis function; group elements are free-group words with
exp(x) exp(-x) = 1; Ad(g) is an uninterpreted linear transport keyed by g.  The whole loop is executed for K = 1..3 and every admissible set
of requested outputs, and the results are compared with the product-rule recursion of g(u) = prod_j exp(B_j(u) v_j):

    w_j = Ad(exp(-B_j v_j)) w_{j-1} + B1_j v_j
    a_j = Ad(..) a_{j-1} + B1_j [w_j, v_j] + B2_j v_j
    j_j = Ad(..) j_{j-1} + 2 B1_j [a_j, v_j] - B1_j^2 [[w_j, v_j], v_j] + B2_j [w_j, v_j] + B3_j v_j

cspline_eval_gs is executed the same way: it must return first(gs) * cspline_eval_vs(differences g_i (-) g_{i-1}, ...) with every output forwarded."""
import re
from fractions import Fraction

import astlib as A
import fe
import mach
import poly
import splinem
from mach import AbstractViolation, Cell, Machine, Opt, PyFunc, Unab, Vec, is_num, show_val, simp, sym
from report import Finding


def rf(v):
    return mach.to_rf(v)


def mkey(m):
    return repr(m)


class LieV:
    """formal Lie polynomial: {monomial: RF}; monomials: 'v3', ('br', m1, m2) with m1 < m2, ('T', key, m)"""

    def __init__(self, t=None):
        self.t = {}
        for m, c in (t or {}).items():
            c = mach.simp(c)
            if not (isinstance(c, Fraction) and c == 0):
                self.t[m] = c

    def show(self):
        def fm(m):
            if isinstance(m, tuple) and m[0] == "br":
                return "[%s, %s]" % (fm(m[1]), fm(m[2]))
            if isinstance(m, tuple) and m[0] == "T":
                return "%s*%s" % (m[1], fm(m[2]))
            return str(m)
        return " + ".join("(%s) %s" % (show_val(c), fm(m)) for m, c in sorted(self.t.items(), key=lambda kv: mkey(kv[0]))) or "0"

    def __deepcopy__(self, memo):
        return LieV(dict(self.t))

    def add(self, o, s=1):
        out = dict(self.t)
        for m, c in o.t.items():
            out[m] = mach.simp(rf(out.get(m, Fraction(0))) + rf(c) * rf(Fraction(s)))
        return LieV(out)

    def scale(self, k):
        return LieV({m: mach.simp(rf(c) * rf(k)) for m, c in self.t.items()})

    def bracket(self, o):
        out = LieV()
        for m1, c1 in self.t.items():
            for m2, c2 in o.t.items():
                if m1 == m2:
                    continue
                if mkey(m1) < mkey(m2):
                    out = out.add(LieV({("br", m1, m2): mach.simp(rf(c1) * rf(c2))}))
                else:
                    out = out.add(LieV({("br", m2, m1): mach.simp(rf(c1) * rf(c2))}), -1)
        return out

    def transport(self, key):
        return LieV({("T", key, m): c for m, c in self.t.items()})

    def equal(self, o):
        if not isinstance(o, LieV):
            return False
        d = self.add(o, -1)
        return not d.t

    def canon(self):
        return "; ".join("%s:%s" % (mkey(m), splinem.rkey(c)) for m, c in sorted(self.t.items(), key=lambda kv: mkey(kv[0])))

    # machine protocol
    def op_add(self, M, a, b):
        if isinstance(a, LieV) and isinstance(b, LieV):
            return a.add(b)
        raise Unab("sum of a tangent and %s" % show_val(b if isinstance(a, LieV) else a))

    def op_sub(self, M, a, b):
        if isinstance(a, LieV) and isinstance(b, LieV):
            return a.add(b, -1)
        if is_num(a) and isinstance(simp(a), Fraction) and simp(a) == 0 and isinstance(b, LieV):
            return b.scale(Fraction(-1))
        raise Unab("difference of a tangent and %s" % show_val(b if isinstance(a, LieV) else a))

    def op_mul(self, M, a, b):
        v, k = (a, b) if isinstance(a, LieV) else (b, a)
        if is_num(k):
            return v.scale(k)
        if isinstance(k, Transport) and isinstance(b, LieV):
            return b.transport(k.key)
        raise Unab("product of a tangent and %s" % show_val(k))

    def op_div(self, M, a, b):
        if isinstance(a, LieV) and is_num(b):
            return a.scale(M.arith("/", Fraction(1), b))
        raise Unab("division of %s by %s" % (show_val(a), show_val(b)))

    def m_eval(self, M, a, t):
        return self

    def m_size(self, M, a, t):
        return Fraction(1)


class AdOp:
    """ad(x): a linear operator; ad(x) * y = [x, y]"""

    def __init__(self, x):
        self.x = x

    def show(self):
        return "ad(%s)" % self.x.show()

    def op_mul(self, M, a, b):
        if isinstance(a, AdOp) and isinstance(b, LieV):
            return a.x.bracket(b)
        if isinstance(a, AdOp) and is_num(b):
            return AdOp(a.x.scale(b))
        if isinstance(b, AdOp) and is_num(a):
            return AdOp(b.x.scale(a))
        raise Unab("product involving %s" % self.show())


class Transport:
    """Ad(g): an uninterpreted linear map keyed by the group element"""

    def __init__(self, key):
        self.key = key

    def show(self):
        return self.key

    def __deepcopy__(self, memo):
        return self

    def m_transpose(self, M, a, t):
        return Transport(self.key + "^T")

    def m_inverse(self, M, a, t):
        return Transport(self.key + "^-1")

    def m_eval(self, M, a, t):
        return self

    def op_mul(self, M, a, b):
        if isinstance(a, Transport) and isinstance(b, LieV):
            return b.transport(a.key)
        raise Unab("product involving the transport %s" % self.key)


def lie_exp(x):
    """exp of a Lie polynomial as a free-group atom with exp(-x) = exp(x)^-1"""
    if not x.t:
        return splinem.ONE
    k1, k2 = x.canon(), x.scale(Fraction(-1)).canon()
    if k1 <= k2:
        return splinem.FG((("exp{%s}" % x.show(), 1),))
    return splinem.FG((("exp{%s}" % x.scale(Fraction(-1)).show(), -1),))


def bsym(p, j, K):
    """p-th u-derivative of the j-th cumulative basis function, a polynomial of degree K in u: identically zero for p > K"""
    return Fraction(0) if p > K else sym("B%d_%d" % (p, j))


class Row:
    def __init__(self, p, K):
        self.p = p
        self.K = K

    def show(self):
        return "U[%d]" % self.p

    def m_data(self, M, a, t):
        return self

    def m_dot(self, M, a, t):
        c = a[0]
        if not (isinstance(c, tuple) and c and c[0] == "col"):
            raise Unab("dot with %s" % show_val(c))
        return bsym(self.p, c[1], self.K)

    def m_transpose(self, M, a, t):
        return self

    def op_mul(self, M, a, b):
        if isinstance(a, Row) and isinstance(b, tuple) and b and b[0] == "col":
            return bsym(a.p, b[1], a.K)
        raise Unab("product with %s" % self.show())


class URows:
    def __init__(self, K):
        self.K = K

    def show(self):
        return "U"

    def index(self, M, idx):
        return Row(int(simp(idx[0])), self.K)


class Bcum:
    def __init__(self, K):
        self.K = K

    def show(self):
        return "Bcum"

    def m_col(self, M, a, t):
        j = int(simp(a[0]))
        if not (0 <= j <= self.K):
            raise AbstractViolation("column %d of a (K+1) x (K+1) basis with K = %d" % (j, self.K))
        return ("col", j)

    def m_cols(self, M, a, t):
        return Fraction(self.K + 1)

    m_rows = m_cols

    def m_cast(self, M, a, t):
        return self


class X1Machine(Machine):
    def __init__(self, decls, K, **kw):
        super().__init__(decls=decls, type_factory=self.types, **kw)
        self.K = K
        self.global_env = g = mach.Env()
        g.bind("K", Cell(Fraction(K), True))
        f = self.funcs
        f["monomial_derivatives"] = PyFunc(lambda M, v: URows(self.K))
        f["Identity"] = PyFunc(lambda M, v: splinem.ONE)
        f["dof"] = PyFunc(lambda M, v: Fraction(1))
        f["exp"] = PyFunc(lambda M, v: lie_exp(self.lie(v[0])))
        f["composition"] = PyFunc(lambda M, v: self.fg(v[0]).mul(self.fg(v[1])))
        f["inverse"] = PyFunc(lambda M, v: self.fg(v[0]).inv())
        f["Ad"] = PyFunc(lambda M, v: Transport("Ad(%s)" % self.fg(v[0]).show()))
        f["ad"] = PyFunc(lambda M, v: AdOp(self.lie(v[0])))
        f["rminus"] = PyFunc(lambda M, v: LieV({"log{%s}" % self.fg(v[1]).inv().mul(self.fg(v[0])).show(): Fraction(1)}))
        f["method:setZero"] = PyFunc(lambda M, o, a, t, env: o.set(LieV()), lazy=True)
        f["method:noalias"] = PyFunc(lambda M, o, a, t, env: o, lazy=True)
        f["method:applyOnTheLeft"] = PyFunc(self.apply_left, lazy=True)
        f["__assert_fail"] = PyFunc(self.assert_fail, lazy=True)
        f["assert"] = f["__assert_fail"]
        f["pairwise_transform"] = PyFunc(lambda M, v: mach.RangeAdaptor("pairwise_transform", lambda M_, r, fn=v[0]: self.pairwise(M_, r, fn)))

    @staticmethod
    def assert_fail(M, args, env, name):
        what = " `%s`" % args[0][1] if args and args[0][0] == "str" else ""
        raise AbstractViolation("the library's own assertion%s fails on the abstract state" % what)

    def pairwise(self, M, r, fn):
        if not isinstance(r, Vec):
            raise Unab("pairwise_transform of %s" % show_val(r))
        return Vec([M.copyval(M.apply(fn, [Cell(r.items[i]), Cell(r.items[i + 1])], None, None)) for i in range(len(r.items) - 1)], "differences")

    def lie(self, v):
        if isinstance(v, LieV):
            return v
        raise Unab("a tangent is expected, got %s" % show_val(v))

    def fg(self, v):
        if isinstance(v, splinem.FG):
            return v
        raise Unab("a group element is expected, got %s" % show_val(v))

    def apply_left(self, M, o, a, t, env):
        cur = M.rv(o)
        tr = M.rv(a[0])
        if not isinstance(tr, Transport) or not isinstance(cur, LieV):
            raise Unab("applyOnTheLeft of %s on %s" % (show_val(tr), show_val(cur)))
        o.set(cur.transport(tr.key))
        return None

    def types(self, M, tyn, args, env):
        if tyn.startswith(("Eigen::Map<constEigen::Vector<", "constEigen::Map<constEigen::Vector<")) and args is not None and len(args) == 1:
            return self.eval(args[0], env)
        if re.match(r"^(const)?(G|Tangent<G>|Scalar<G>|constScalar<G>)$", tyn) and args is not None and len(args) == 1:
            return self.copyval(self.ev(args[0], env))
        return NotImplemented


def expected(K):
    g = splinem.ONE
    w, a, jr = LieV(), LieV(), LieV()
    for j in range(1, K + 1):
        v = LieV({"v%d" % j: Fraction(1)})
        B0, B1, B2, B3 = (bsym(p, j, K) for p in range(4))
        E = lie_exp(v.scale(B0))
        g = g.mul(E)
        key = "Ad(%s)" % E.inv().show()
        w = w.transport(key).add(v.scale(B1))
        wv = w.bracket(v)
        a = a.transport(key).add(wv.scale(B1)).add(v.scale(B2))
        jr = jr.transport(key).add(a.bracket(v).scale(mach.simp(rf(B1) * rf(2)))).add(wv.bracket(v).scale(mach.simp(rf(B1) * rf(B1))), -1).add(wv.scale(B2)).add(v.scale(B3))
    return g, w, a, jr


def collect(dump):
    decls = {}
    seen = set()
    for x in A.index(dump):
        if x.pattern and x.kind in A.FUNCS and A.body(x.node) is not None and x.file and x.file.startswith(fe.INCLUDE):
            ident = (x.file, x.line)
            if ident in seen:
                continue
            seen.add(ident)
            decls.setdefault(x.qname.split("::")[-1], []).append(x)
    return decls


def check(rep, dump):
    rep.rule("X1", "cspline_eval_vs / cspline_eval_gs, abstractly executed in a free Lie algebra for K = 1..3 and every admissible set of outputs: value, velocity, acceleration and "
             "jerk equal the product-rule recursion of prod_j exp(B_j(u) v_j); the control-point form anchors at the first point with differences g_i (-) g_{i-1}", minimum=10)
    decls = collect(dump)
    fns = decls.get("cspline_eval_vs", [])
    if len(fns) != 1:
        rep.broke("X1: cspline_eval_vs not found (%d)" % len(fns))
        return
    d = fns[0]
    nviol = 0
    for K in (1, 2, 3):
        want_g, want_w, want_a, want_j = expected(K)
        for outs in ((True, True, True), (True, True, False), (True, False, False), (False, False, False)):
            inst = "K=%d outputs=%s" % (K, "".join(n for n, o in zip(("vel,", "acc,", "jer"), outs) if o).rstrip(",") or "none")
            try:
                M = X1Machine(decls, K)
                cells = [Cell(mach.UNSET) for _ in range(3)]
                vs = Vec([LieV({"v%d" % j: Fraction(1)}) for j in range(1, K + 1)], "vs")
                r = M.run_function(d, [Cell(vs), Cell(Bcum(K)), Cell(sym("u"))] + [Cell(Opt(c if o else None, n)) for c, o, n in zip(cells, outs, ("vel", "acc", "jer"))])
            except Unab as ex:
                rep.broke("X1: cspline_eval_vs (%s) is outside the abstract machine: %s" % (inst, ex))
                return
            except AbstractViolation as ex:
                rep.instance("X1", "cspline_eval_vs", inst, ok=False, sample={})
                rep.violation(Finding("X1", "cspline_eval_vs", inst, "cspline_eval_vs with %s: %s" % (inst, ex), *A.loc(d.node)))
                continue
            bad = None
            if not (isinstance(r, splinem.FG) and r == want_g):
                bad = "the value is %s; the curve is prod_j exp(B_j v_j) = %s" % (show_val(r), want_g.show())
            else:
                for nm, cell, o, want, what in (("velocity", cells[0], outs[0], want_w, "w_j = Ad(exp(-B_j v_j)) w_{j-1} + B_j' v_j"),
                                                ("acceleration", cells[1], outs[1], want_a, "a_j = Ad a_{j-1} + B_j' [w_j, v_j] + B_j'' v_j"),
                                                ("jerk", cells[2], outs[2], want_j, "j_j = Ad j_{j-1} + 2 B' [a_j, v] - B'^2 [[w_j, v], v] + B'' [w_j, v] + B''' v")):
                    if not o:
                        continue
                    got = cell.get()
                    if got is mach.UNSET or not want.equal(got):
                        bad = "the %s is %s; the body-derivative recursion %s gives %s" % (nm, "left unwritten" if got is mach.UNSET else got.show()[:300], what, want.show()[:300])
                        break
            rep.instance("X1", "cspline_eval_vs", inst, ok=bad is None, sample={})
            if bad:
                nviol += 1
                if nviol <= 3:
                    rep.violation(Finding("X1", "cspline_eval_vs", inst, "cspline_eval_vs, %s: %s" % (inst, bad), *A.loc(d.node)))
    # control-point form
    gs = decls.get("cspline_eval_gs", [])
    if len(gs) != 1:
        rep.broke("X1: cspline_eval_gs not found (%d)" % len(gs))
        return
    dg = gs[0]
    K = 3
    try:
        M = X1Machine(decls, K)
        seen = {}

        def fake_vs(M_, args, env, name):
            vals = [M_.rv(M_.ev(a, env)) for a in args]
            seen["args"] = vals
            seen["name"] = name
            return splinem.atom("P")
        M.funcs["cspline_eval_vs"] = PyFunc(fake_vs, lazy=True)
        pts = Vec([splinem.atom("C%d" % i) for i in range(K + 1)], "gs")
        opts = [Opt(Cell(mach.UNSET), n) for n in ("vel", "acc", "jer")]
        r = M.run_function(dg, [Cell(pts), Cell(Bcum(K)), Cell(sym("u"))] + [Cell(o) for o in opts])
    except Unab as ex:
        rep.broke("X1: cspline_eval_gs is outside the abstract machine: %s" % ex)
        return
    except AbstractViolation as ex:
        rep.instance("X1", "cspline_eval_gs", "anchoring", ok=False, sample={})
        rep.violation(Finding("X1", "cspline_eval_gs", "anchoring", "cspline_eval_gs: %s" % ex, *A.loc(dg.node)))
        return
    bad = None
    args = seen.get("args")
    if not (isinstance(r, splinem.FG) and r == splinem.atom("C0").mul(splinem.atom("P"))):
        bad = "returns %s; the curve through the control points is C0 * cspline_eval_vs(differences)" % show_val(r)
    elif args is None or len(args) != 6:
        bad = "cspline_eval_vs is called with %s arguments: a derivative output is not forwarded" % (len(args) if args else "no")
    else:
        diffs = args[0]
        want = ["log{%s}" % splinem.atom("C%d" % (i - 1)).inv().mul(splinem.atom("C%d" % i)).show() for i in range(1, K + 1)]
        def diff_key(x):
            # g (-) h as this machine's rminus (a LieV atom) or as the free-group model's operator- (the symbol LOG{h^-1 g}): the same tangent
            if isinstance(x, LieV) and len(x.t) == 1 and list(x.t.values()) == [Fraction(1)]:
                return next(iter(x.t))
            if not isinstance(x, (Fraction, LieV)) and hasattr(x, "normal"):
                sv = splinem.poly_is_single_var(x.normal(mach._CONS))
                if sv and sv[1] == 1 and sv[0].startswith("LOG{"):
                    return "log{" + sv[0][4:]
            return show_val(x)
        got = [diff_key(x) for x in (diffs.items if isinstance(diffs, Vec) else [])]
        if got != want:
            bad = "the differences handed to cspline_eval_vs are %s; expected g_i (-) g_{i-1} = %s" % (got, want)
        elif not (isinstance(args[1], Bcum) and mach.num_equal(args[2], sym("u")) and all(isinstance(a, Opt) and a.cell is o.cell for a, o in zip(args[3:], opts))):
            bad = "basis, parameter or optional outputs are not forwarded unchanged (%s)" % [show_val(a) for a in args[1:]]
    rep.instance("X1", "cspline_eval_gs", "anchoring", ok=bad is None, sample={})
    if bad:
        rep.violation(Finding("X1", "cspline_eval_gs", "anchoring", "cspline_eval_gs: %s" % bad, *A.loc(dg.node)))
