"""C03 -- Ad, ad, hat, vee and the Lie bracket are the adjoint representation (exact algebraic identities)."""
import algebra


def check(rep, tier, replay=None):
    rep.explanations.append(
        "C03: every identity is established as an exact polynomial (rational-function) identity between the two sides, "
        "abstracted path by path from the optimized IR of API-level witnesses into a polynomial domain over the input cells and "
        "compared modulo the unit-norm constraints of the group coefficients.  The result quantifies over all real inputs; "
        "floating-point rounding of the handful of operations involved is not modelled.  Ad(exp(a)) = expm(ad(a)) is transcendental and not decided.")
    rep.trusted.update(["clang++-16 front end and -O2 pipeline (value-preserving without -ffast-math)", "lib/poly.py exact rational arithmetic", "lib/ir.py"])
    rep.assumptions.append("exact real arithmetic; rounding error of compositions of a few additions/multiplications is not bounded here")
    algebra.check_identities(rep, tier, "C03")
    algebra.check_bracket_ast(rep)
