"""C10 -- the trust-region step solver returns the regularised least-squares minimiser (structural clauses N1..N5).

The solver is a handful of statements of linear algebra.  They are abstractly interpreted in a *symbolic operator algebra*:
matrices are linear combinations (coefficients polynomial in lambda) of words over {J, J', D = diag(d), Hinv}, vectors are such
words applied to r, scalars are bilinear forms <u, v> canonicalised under transposition (D, Hinv symmetric), optionally divided
by norms.  `Hinv` is only introduced when a factorisation object was constructed from a matrix whose normal form is exactly
H = J'J + lambda D D.  The results are compared with

  N1  the factorised matrix is H = J'J + lambda D^2                         (normal equations (J'J + lambda D'D) dx = -J'r)
  N2  the returned step is Hinv (-J' r) on every path (dense and sparse J)
  N3  dphi = d/dlambda |D dx(lambda)|:  H x = -J'r  =>  D^2 x + H x' = 0  =>  x' = -Hinv D^2 x ,
        phi' = <D x, D x'> / |D x| = -<D^2 x, Hinv D^2 x> / |D x|
  N4  solve_trust_region: lambda = 1/Delta and the pair {solve_linear_ldlt(J, d, r, lambda), lambda}
  N5  colwise_norm: the sparse branch accumulates value^2 into the entry of the iterator's *column* (independent of the
      storage order) and takes the square root; the dense branch is the column-wise norm.

Because the comparison is on normal forms, renaming, re-association, J.adjoint() for J.transpose(), moving signs and
introducing temporaries are all invisible; an expression outside the algebra is analysis-broken (exit 2), not a violation.
"""
import re
from fractions import Fraction

import astlib as A
import fe
import pe
from report import Finding

SYM = {"J": "Jt", "Jt": "J", "D": "D", "Hinv": "Hinv", "D?": "D?", "Linv": "Linvt", "Linvt": "Linv", "P": "Pt", "Pt": "P", "Laminv": "Laminv"}
# Eigen's (Simplicial)LDLT: H = P' L Lam L' P, hence Hinv = P' L'^-1 Lam^-1 L^-1 P; P P' = I
HINV_FACTORS = ("Pt", "Linvt", "Laminv", "Linv", "P")


def canon(w):
    """expand Hinv into the factors of the decomposition and cancel P P' pairs"""
    out = []
    for s_ in w:
        for x in (HINV_FACTORS if s_ == "Hinv" else (s_,)):
            if out and (out[-1], x) in (("P", "Pt"), ("Pt", "P")):
                out.pop()
            else:
                out.append(x)
    return tuple(out)


class Unab(Exception):
    pass


def pmul(a, b):
    out = {}
    for i, x in a.items():
        for j, y in b.items():
            out[i + j] = out.get(i + j, 0) + x * y
    return {k: v for k, v in out.items() if v != 0}


def padd(a, b, s=1):
    out = dict(a)
    for k, v in b.items():
        out[k] = out.get(k, 0) + s * v
    return {k: v for k, v in out.items() if v != 0}


ONE = {0: Fraction(1)}
LAM = {1: Fraction(1)}


def pkey(p):
    return tuple(sorted(p.items()))


class Lin:
    """linear combination of words; kind 'mat' (operator words) or 'vec' (operator words applied to r)"""

    def __init__(self, kind, terms=None):
        self.kind = kind
        self.t = {w: c for w, c in (terms or {}).items() if c}

    def scale(self, c):
        return Lin(self.kind, {w: pmul(k, c) for w, k in self.t.items()})

    def add(self, o, s=1):
        if o.kind != self.kind:
            raise Unab("sum of a %s and a %s" % (self.kind, o.kind))
        out = dict(self.t)
        for w, k in o.t.items():
            out[w] = padd(out.get(w, {}), k, s)
        return Lin(self.kind, out)

    def transpose(self):
        if self.kind != "mat":
            raise Unab("transpose of a vector")
        return Lin("mat", {tuple(SYM[s] for s in reversed(w)): k for w, k in self.t.items()})

    def mul(self, o):
        if self.kind != "mat":
            raise Unab("vector on the left of a product")
        out = {}
        for w1, k1 in self.t.items():
            for w2, k2 in o.t.items():
                out[w1 + w2] = padd(out.get(w1 + w2, {}), pmul(k1, k2))
        return Lin(o.kind, out)

    def key(self):
        acc = {}
        for w, k in self.t.items():
            acc[canon(w)] = padd(acc.get(canon(w), {}), k)
        return (self.kind, tuple(sorted((w, pkey(k)) for w, k in acc.items() if k)))

    def show(self):
        def c(k):
            return "+".join(("%s" % v if p == 0 else "%s*lambda%s" % (v, "" if p == 1 else "^%d" % p)) for p, v in sorted(k.items()))
        return " + ".join("(%s) %s%s" % (c(k), " ".join(w) or "I", " r" if self.kind == "vec" else "") for w, k in sorted(self.t.items())) or "0"


def bilinear(u, v):
    """<u, v> for vectors: canonical dict {word: coeff} with word ~ its transposed reverse"""
    out = {}
    for w1, k1 in u.t.items():
        for w2, k2 in v.t.items():
            w = canon(tuple(SYM[s] for s in reversed(w1)) + w2)
            wt = tuple(SYM[s] for s in reversed(w))
            w = min(w, wt)
            out[w] = padd(out.get(w, {}), pmul(k1, k2))
    return {w: k for w, k in out.items() if k}


def wshow(w):
    """display form of a word: fold the factor sequence of the decomposition back into Hinv"""
    w = list(w)
    out = []
    i = 0
    n = len(HINV_FACTORS)
    while i < len(w):
        if tuple(w[i:i + n]) == HINV_FACTORS:
            out.append("Hinv")
            i += n
        else:
            out.append(w[i])
            i += 1
    return " ".join(out) or "I"


def cshow(k):
    return "+".join(("%s" % v if p_ == 0 else "%s*lambda%s" % (v, "" if p_ == 1 else "^%d" % p_)) for p_, v in sorted(k.items()))


class Scal:
    """numerator bilinear form / product of norms (each a quadratic form)"""

    def __init__(self, num, dens=()):
        self.num = num
        self.dens = tuple(sorted(dens))

    def key(self):
        return (tuple(sorted((w, pkey(k)) for w, k in self.num.items())), self.dens)

    def show(self):
        n = " + ".join("(%s) <r, %s r>" % (cshow(k), wshow(w)) for w, k in sorted(self.num.items())) or "0"
        return n + "".join(" / sqrt(%s)" % " + ".join("(%s) <r, %s r>" % (cshow(dict(k)), wshow(w)) for w, k in d) for d in self.dens)


class NVec:
    """vector `num` divided by the norm of vector `den` (v.normalized() has num = den = v; D (v/|v|) = (D v)/|v|)"""

    def __init__(self, num, den):
        self.num, self.den = num, den


H_EXPECTED = Lin("mat", {("Jt", "J"): ONE, ("D", "D"): LAM})
X_EXPECTED = Lin("vec", {("Hinv", "Jt"): {0: Fraction(-1)}})


def qform_key(lin):
    return tuple(sorted((w, pkey(k)) for w, k in bilinear(lin, lin).items()))


class Interp:
    """abstract interpreter of solve_linear_ldlt's statements"""

    def __init__(self, params):
        self.J, self.d, self.r, self.lam = params[0], params[1], params[2], params[3]
        self.dphi_name = params[4] if len(params) > 4 else None
        self.env = {}
        self.fact = {}         # factorisation variable -> Lin of the matrix it was built from
        self.norm_divs = []    # explicit divisions by the norm of a vector (0/0 where that vector vanishes; v.normalized() returns 0 there)
        self.dphi = None
        self.ret = None
        self.notes = []

    def ev(self, e):
        t = e[0]
        if t == "ref":
            n = e[1]
            if n in self.env:
                if isinstance(self.env[n], tuple) and self.env[n] and self.env[n][0] == "unknown":
                    raise Unab(self.env[n][1])
                return self.env[n]
            if n == self.J:
                return Lin("mat", {("J",): ONE})
            if n == self.r:
                return Lin("vec", {(): ONE})
            if n == self.lam:
                return ("scalar", LAM)
            if n == self.d:
                return ("dvec",)
            raise Unab("name %s" % n)
        if t == "num":
            return ("scalar", {0: Fraction(e[1])})
        if t == "neg":
            return self.neg(self.ev(e[1]))
        if t == "ctor" and len(e[2]) == 1:
            return self.ev(e[2][0])
        if t == "mcall":
            obj, meth, args = e[1], e[2], e[4]
            if meth in ("transpose", "adjoint") and not args:
                v = self.ev(obj)
                if isinstance(v, Lin):
                    return v.transpose()
                raise Unab("transpose of %s" % (v,))
            if meth in ("eval", "noalias", "derived", "matrix", "array") and not args:
                return self.ev(obj)
            if meth == "asDiagonal" and not args:
                v = self.ev(obj)
                dp = self.as_dpoly(v)
                if dp is not None:
                    return Lin("mat", {("D",) * p_: c for p_, c in dp.items()})
                raise Unab("asDiagonal of a vector other than a power of d")
            if meth == "diagonal" and not args:
                return ("diagonal-of", obj)
            if meth in ("array", "matrix", "reshaped", "eval", "derived") and not args:
                return self.ev(obj)
            if meth in ("cwiseAbs2", "square") and not args:
                v = self.ev(obj)
                if self.as_dpoly(v) is not None:
                    return self.dmul(v, v)
            if meth == "cwiseProduct" and len(args) == 1:
                a, b = self.ev(obj), self.ev(args[0])
                if self.as_dpoly(a) is not None and self.as_dpoly(b) is not None:
                    return self.dmul(a, b)
                if b == ("dvec",):
                    a, b = b, a
                if a == ("dvec",) and isinstance(b, Lin) and b.kind == "vec":
                    return Lin("mat", {("D",): ONE}).mul(b)
                if a == ("dvec",) and isinstance(b, NVec):
                    return NVec(Lin("mat", {("D",): ONE}).mul(b.num), b.den)
                raise Unab("cwiseProduct of %s and %s" % (A.show(obj)[:20], A.show(args[0])[:20]))
            if meth == "solve" and len(args) == 1 and obj[0] == "ref" and obj[1] in self.fact:
                b = self.ev(args[0])
                if not isinstance(b, Lin):
                    raise Unab("solve of a non-linear right-hand side")
                if self.fact[obj[1]].key() != H_EXPECTED.key():
                    sym = "inv[%s]" % self.fact[obj[1]].show()
                    SYM.setdefault(sym, sym)
                    return Lin("mat", {(sym,): ONE}).mul(b)
                return Lin("mat", {("Hinv",): ONE}).mul(b)
            if meth == "solve" and len(args) == 1 and obj[0] == "mcall" and obj[1][0] == "ref" and obj[1][1] in self.fact and obj[2] in ("matrixL", "matrixU"):
                b = self.ev(args[0])
                if not (isinstance(b, Lin) and b.kind == "vec") or self.fact[obj[1][1]].key() != H_EXPECTED.key():
                    raise Unab("triangular solve %s" % A.show(e)[:50])
                return Lin("mat", {("Linv" if obj[2] == "matrixL" else "Linvt",): ONE}).mul(b)
            if meth in ("transpositionsP", "permutationP") and not args and obj[0] == "ref" and obj[1] in self.fact:
                return Lin("mat", {("P",): ONE})
            if meth == "vectorD" and not args and obj[0] == "ref" and obj[1] in self.fact:
                return ("lamvec",)
            if meth == "cwiseAbs2" and not args:
                v = self.ev(obj)
                if isinstance(v, Lin) and v.kind == "vec":
                    return ("abs2", v, v)
                raise Unab("cwiseAbs2 of a non-vector")
            if meth == "cwiseQuotient" and len(args) == 1:
                a, b = self.ev(obj), self.ev(args[0])
                if b == ("lamvec",) and isinstance(a, Lin) and a.kind == "vec":
                    return Lin("mat", {("Laminv",): ONE}).mul(a)
                if b == ("lamvec",) and isinstance(a, tuple) and a[0] == "abs2":
                    return ("abs2", a[1], Lin("mat", {("Laminv",): ONE}).mul(a[2]))
                raise Unab("cwiseQuotient %s" % A.show(e)[:50])
            if meth == "sum" and not args:
                v = self.ev(obj)
                if isinstance(v, tuple) and v[0] == "abs2":
                    return Scal(bilinear(v[1], v[2]), ())
                raise Unab("sum of %s" % A.show(obj)[:40])
            if meth == "squaredNorm" and not args:
                v = self.ev(obj)
                if isinstance(v, Lin) and v.kind == "vec":
                    return Scal(bilinear(v, v), ())
                raise Unab("squaredNorm of a non-vector")
            if meth == "normalized" and not args:
                v = self.ev(obj)
                if isinstance(v, Lin) and v.kind == "vec":
                    return NVec(v, v)
                raise Unab("normalized() of %s" % A.show(obj)[:30])
            if meth == "dot" and len(args) == 1:
                return self.dot(self.ev(obj), self.ev(args[0]))
            if meth == "norm" and not args:
                v = self.ev(obj)
                if isinstance(v, Lin) and v.kind == "vec":
                    return ("norm", v)
                raise Unab("norm of %s" % A.show(obj)[:30])
            raise Unab("member call %s" % meth)
        if t == "op" and e[1] in ("*", "+", "-", "/"):
            a, b = self.ev(e[2]), self.ev(e[3])
            if e[1] == "*":
                return self.mul(a, b)
            if e[1] == "/":
                if isinstance(b, tuple) and b[0] == "norm" and isinstance(a, Lin) and a.kind == "vec":
                    self.norm_divs.append(A.show(e)[:70])
                    return NVec(a, b[1])
                if isinstance(b, tuple) and b[0] == "norm" and isinstance(a, Scal):
                    self.norm_divs.append(A.show(e)[:70])
                    return Scal(a.num, a.dens + (qform_key(b[1]),))
                if isinstance(b, tuple) and b[0] == "scalar" and set(b[1]) == {0}:
                    return self.mul(("scalar", {0: 1 / b[1][0]}), a)
                raise Unab("division %s" % A.show(e)[:50])
            if isinstance(a, Lin) and isinstance(b, Lin):
                return a.add(b, 1 if e[1] == "+" else -1)
            raise Unab("sum %s" % A.show(e)[:50])
        raise Unab("expression %s" % A.show(e)[:60])

    @staticmethod
    def as_dpoly(v):
        """element-wise polynomials in the scaling vector d: {power: coefficient polynomial in lambda}"""
        if v == ("dvec",):
            return {1: ONE}
        if isinstance(v, tuple) and v and v[0] == "dpoly":
            return v[1]
        return None

    def dmul(self, a, b):
        x, y = self.as_dpoly(a), self.as_dpoly(b)
        if x is None or y is None:
            return None
        out = {}
        for p1, c1 in x.items():
            for p2, c2 in y.items():
                out[p1 + p2] = padd(out.get(p1 + p2, {}), pmul(c1, c2))
        return ("dpoly", {p_: c for p_, c in out.items() if c})

    def neg(self, v):
        if isinstance(v, tuple) and v and v[0] == "dpoly":
            return ("dpoly", {p_: pmul(c, {0: Fraction(-1)}) for p_, c in v[1].items()})
        if isinstance(v, Lin):
            return v.scale({0: Fraction(-1)})
        if isinstance(v, NVec):
            return NVec(v.num.scale({0: Fraction(-1)}), v.den)
        if isinstance(v, Scal):
            return Scal({w: pmul(k, {0: Fraction(-1)}) for w, k in v.num.items()}, v.dens)
        if isinstance(v, tuple) and v[0] == "scalar":
            return ("scalar", pmul(v[1], {0: Fraction(-1)}))
        raise Unab("negation of %s" % (v,))

    def mul(self, a, b):
        if isinstance(a, tuple) and a[0] == "scalar":
            a, b = b, a
        if isinstance(b, tuple) and b[0] == "scalar" and self.as_dpoly(a) is not None:
            return ("dpoly", {p_: pmul(c, b[1]) for p_, c in self.as_dpoly(a).items()})
        if self.as_dpoly(a) is not None and self.as_dpoly(b) is not None:
            return self.dmul(a, b)          # element-wise (array) product of two scalings
        if isinstance(b, tuple) and b[0] == "scalar":
            if isinstance(a, Lin):
                return a.scale(b[1])
            if isinstance(a, tuple) and a[0] == "scalar":
                return ("scalar", pmul(a[1], b[1]))
            if isinstance(a, Scal):
                return Scal({w: pmul(k, b[1]) for w, k in a.num.items()}, a.dens)
            if isinstance(a, NVec):
                return NVec(a.num.scale(b[1]), a.den)
            raise Unab("scalar product with %s" % (a,))
        if isinstance(a, Lin) and a.kind == "mat":
            if isinstance(b, Lin):
                return a.mul(b)
            if isinstance(b, NVec):
                return NVec(a.mul(b.num), b.den)
        raise Unab("product")

    @staticmethod
    def _unab(m):
        raise Unab(m)

    def dot(self, a, b):
        dens = ()
        if isinstance(a, NVec):
            dens += (qform_key(a.den),)
            a = a.num
        if isinstance(b, NVec):
            dens += (qform_key(b.den),)
            b = b.num
        if not (isinstance(a, Lin) and isinstance(b, Lin) and a.kind == b.kind == "vec"):
            raise Unab("dot of non-vectors")
        return Scal(bilinear(a, b), dens)


def expected_dphi():
    x = X_EXPECTED
    D = Lin("mat", {("D",): ONE})
    Hi = Lin("mat", {("Hinv",): ONE})
    ddx = D.mul(D.mul(x))
    num = bilinear(ddx, Hi.mul(ddx))
    num = {w: pmul(k, {0: Fraction(-1)}) for w, k in num.items()}
    return Scal(num, (qform_key(D.mul(x)),))


def interpret(fn, rep):
    """returns (Interp, list of (path label, returned Lin), problems)"""
    ps = [p.get("name") for p in A.params(fn.node)]
    if len(ps) < 4:
        raise Unab("solve_linear_ldlt has %d parameters" % len(ps))
    results = []

    def run_block(I, stmts, label):
        for i, s in enumerate(stmts):
            k = s.get("kind")
            if k == "DeclStmt":
                for v in A.kids(s):
                    if v.get("kind") != "VarDecl":
                        continue
                    nm = v.get("name")
                    ty = v.get("type", {}).get("qualType", "")
                    ks = A.kids(v)
                    if not ks:
                        continue
                    init = A.to_expr(ks[-1])
                    if "LDLT" in ty or "LLT" in ty or "LU" in ty or "QR" in ty:
                        arg = init
                        if arg[0] == "ctor" and len(arg[2]) == 1:
                            arg = arg[2][0]
                        elif arg[0] == "init" and len(arg[1]) == 1:
                            arg = arg[1][0]
                        m = I.ev(arg)
                        if not (isinstance(m, Lin) and m.kind == "mat"):
                            raise Unab("factorisation of a non-matrix")
                        I.fact[nm] = m
                        I.fact_node = v
                        continue
                    try:
                        I.env[nm] = I.ev(init)
                    except Unab as ex_:
                        # compile-time constants / flags are irrelevant to the algebra; a later use re-raises the reason
                        I.env[nm] = ("unknown", "local %s = %s: %s" % (nm, A.show(init)[:40], ex_))
            elif k == "ForStmt":
                diag_loop(I, s)
            elif k == "IfStmt":
                ks = A.kids(s)
                c = A.to_expr(ks[0])
                ctext = A.ntext(ks[0])
                if c[0] == "mcall" and c[2] == "has_value" or (I.dphi_name and I.dphi_name in ctext and "sparse" not in ctext):
                    run_block(I, block_stmts(ks[1]), label)
                    continue
                if "sparse" in ctext.lower():
                    neg = ctext.startswith("!")
                    I.saw_sparse = True
                    take_then = I.sparse != neg
                    if take_then:
                        run_block(I, block_stmts(ks[1]), label)
                    elif len(ks) > 2:
                        run_block(I, block_stmts(ks[2]), label)
                    if I.ret is not None:
                        return
                    continue
                raise Unab("condition %s" % ctext[:60])
            elif k == "ReturnStmt":
                v = I.ev(A.to_expr(A.kids(s)[0]))
                I.ret = v
                results.append(("/".join(label) or "all", v, I, s))
                return
            elif k in ("BinaryOperator", "CXXOperatorCallExpr", "CompoundAssignOperator", "ExprWithCleanups"):
                e = A.to_expr(s)
                if e[0] == "op" and e[1] == "=" and I.dphi_name and I.dphi_name in A.show(e[2]):
                    I.dphi = (I.ev(e[3]), s)
                elif e[0] == "op" and e[1] in ("+=", "-=") and diag_target(e[2]) in I.env and isinstance(I.env.get(diag_target(e[2])), Lin):
                    # H.diagonal() += c(lambda) * d^p  adds  c * D^p  to H
                    v = I.ev(e[3])
                    dp = I.as_dpoly(v)
                    if dp is None:
                        raise Unab("diagonal update by %s" % A.show(e[3])[:50])
                    upd = Lin("mat", {("D",) * p_: c for p_, c in dp.items()})
                    m_ = diag_target(e[2])
                    I.env[m_] = I.env[m_].add(upd, 1 if e[1] == "+=" else -1)
                elif e[0] == "op" and e[1] in ("=", "+=", "-=") and e[2][0] == "ref" and e[2][1] in I.env:
                    v = I.ev(e[3])
                    cur = I.env[e[2][1]]
                    I.env[e[2][1]] = v if e[1] == "=" else cur.add(v, 1 if e[1] == "+=" else -1)
                else:
                    raise Unab("statement %s" % A.show(e)[:60])
            elif k in ("CallExpr", "CXXMemberCallExpr"):
                # in-place application of a factor of the decomposition: ldlt.matrixL().solveInPlace(w), w = P w
                e = A.to_expr(s)
                ok = False
                if e[0] == "mcall" and e[2] == "solveInPlace" and len(e[4]) == 1 and e[4][0][0] == "ref" and e[4][0][1] in I.env:
                    obj = e[1]
                    if obj[0] == "mcall" and obj[1][0] == "ref" and obj[1][1] in I.fact and obj[2] in ("matrixL", "matrixU"):
                        I.env[e[4][0][1]] = I.ev(("mcall", obj, "solve", None, [e[4][0]]))
                        ok = True
                    elif obj[0] == "ref" and obj[1] in I.fact:
                        I.env[e[4][0][1]] = I.ev(("mcall", obj, "solve", None, [e[4][0]]))
                        ok = True
                if not ok:
                    raise Unab("call statement %s" % A.show(e)[:60])
            elif k in ("NullStmt", "CompoundStmt") or k is None:
                if k == "CompoundStmt":
                    run_block(I, A.kids(s), label)
            elif k in ("TypeAliasDecl", "StaticAssertDecl", "UsingDirectiveDecl"):
                continue
            else:
                raise Unab("statement kind %s" % k)

    def diag_target(t):
        """M for the expressions M.diagonal(), M.diagonal().array(), M.diagonal().noalias()"""
        while t[0] == "mcall" and t[2] in ("array", "noalias", "matrix", "derived") and not t[4]:
            t = t[1]
        if t[0] == "mcall" and t[2] == "diagonal" and not t[4] and t[1][0] == "ref":
            return t[1][1]
        return None

    def block_stmts(n):
        return A.kids(n) if n.get("kind") == "CompoundStmt" else [n]

    def diag_loop(I, loop):
        ks = A.kids(loop)
        var = next((v.get("name") for v in A.kids(ks[0]) if v.get("kind") == "VarDecl"), None) if ks[0] is not None and ks[0].get("kind") == "DeclStmt" else None
        init = next((A.to_expr(A.kids(v)[-1]) for v in A.kids(ks[0]) if v.get("kind") == "VarDecl" and A.kids(v)), None) if var else None
        cond = A.to_expr(ks[2]) if ks[2] is not None else None
        inc = A.ntext(ks[3]) if ks[3] is not None else ""
        if var is None or cond is None:
            raise Unab("loop without a counter")
        upd = [A.to_expr(y) for y in A.walk(ks[4]) if y.get("kind") in ("CompoundAssignOperator", "CXXOperatorCallExpr", "BinaryOperator")]
        upd = [e for e in upd if e[0] == "op" and e[1] in ("+=", "=", "-=")]
        if len(upd) != 1:
            raise Unab("loop with %d updates" % len(upd))
        e = upd[0]
        # named temporaries of the loop body (const auto d_i = d(i);) are substituted into the update
        body_locals = {}
        for v in A.walk(ks[4]):
            if v.get("kind") == "VarDecl" and A.kids(v) and v.get("name") != var and "InnerIterator" not in v.get("type", {}).get("qualType", ""):
                body_locals[v.get("name")] = A.to_expr(A.kids(v)[-1])

        def subst(x, depth=0):
            if depth > 10 or not isinstance(x, (tuple, list)):
                return x
            if isinstance(x, list):
                return [subst(y, depth) for y in x]
            if x and x[0] == "ref" and x[1] in body_locals:
                return subst(body_locals[x[1]], depth + 1)
            if x and x[0] == "lambda":
                return x
            return tuple(subst(y, depth) if isinstance(y, (tuple, list)) else y for y in x)
        e = subst(e)
        tgt = e[2]
        if tgt[0] == "mcall" and tgt[2] == "valueRef" and not tgt[4]:
            its = [v for v in A.walk(loop) if v.get("kind") == "VarDecl" and "InnerIterator" in v.get("type", {}).get("qualType", "")]
            if its and tgt[1][0] == "ref" and tgt[1][1] == its[0].get("name"):
                itinit = A.show(A.to_expr(A.kids(its[0])[-1])) if A.kids(its[0]) else ""
                mats = [n_ for n_ in I.env if isinstance(I.env[n_], Lin) and I.env[n_].kind == "mat" and n_ in itinit]
                if len(mats) == 1:
                    I.diag_problem = ("the diagonal of %s is updated through an iterator over its *stored* entries (`%s %s ...`): a diagonal entry that is "
                                      "structurally absent (J'J of a sparse J with an empty column) is never regularised" % (mats[0], A.show(tgt), e[1]), loop)
                    I.env[mats[0]] = I.env[mats[0]].add(Lin("mat", {("D?",): ONE}))
                    return
        if tgt[0] == "mcall" and tgt[2] in ("coeffRef", "operator()") and tgt[1][0] == "ref" and tgt[1][1] in I.env and len(tgt[4]) == 2:
            m, ij = tgt[1][1], tgt[4]
        elif tgt[0] == "call" and tgt[1] in I.env and len(tgt[2]) == 2:
            m, ij = tgt[1], tgt[2]
        else:
            raise Unab("loop update target %s" % A.show(tgt)[:40])
        on_diag = all(a[0] == "ref" and a[1] == var for a in ij)
        if e[1] != "+=":
            raise Unab("diagonal entries are overwritten, not incremented")
        # value as a polynomial in lambda and d_i: identify c * lambda^p * d_i^q by exact evaluation at several points
        dn, ln = I.d, I.lam

        def val(lam, dv):
            return pe.ev(e[3], {ln: lam, "%s(%s)" % (dn, var): dv, "%s[%s]" % (dn, var): dv, "%s.coeff(%s)" % (dn, var): dv})
        try:
            pts = {(l_, d_): val(l_, d_) for l_ in (2, 3, 5) for d_ in (3, 5, 7)}
        except pe.PEError as ex:
            raise Unab("diagonal increment %s: %s" % (A.show(e[3])[:40], ex))
        is_lam_d2 = all(v == l_ * d_ * d_ for (l_, d_), v in pts.items())
        # range: 0 .. N-1 with unit stride
        full = (init == ("num", 0) and cond[0] == "op" and cond[1] in ("<", "!=") and cond[2][0] == "ref" and cond[2][1] == var
                and (inc.replace(" ", "") in ("++" + var, var + "++", var + "+=1")))
        bound = A.ntext_expr(cond[3]) if hasattr(A, "ntext_expr") else A.show(cond[3]).replace(" ", "")
        okb = bound in ("%s.rows()" % m, "%s.cols()" % m, "%s.size()" % dn, "%s.cols()" % I.J, "%s.rows()" % dn, "N")
        if not okb:
            raise Unab("loop bound %s is not the number of variables" % bound)
        if on_diag and is_lam_d2 and full:
            if not isinstance(I.env.get(m), Lin):
                raise Unab("the matrix %s updated on its diagonal is not understood (%s)" % (m, (I.env.get(m) or ("?", "no value"))[1] if isinstance(I.env.get(m), tuple) else "no value"))
            I.env[m] = I.env[m].add(Lin("mat", {("D", "D"): LAM}))
            return
        I.diag_problem = ("the diagonal update of %s is `%s %s %s` over %s <= %s < %s (diagonal entry: %s, full range: %s, value lambda*d_i^2: %s)"
                          % (m, A.show(tgt)[:30], e[1], A.show(e[3])[:40], A.show(init)[:10] if init else "?", var, bound, on_diag, full, is_lam_d2), loop)
        # the matrix is then NOT the regularised normal matrix: mark it with an extra symbol so that N1 reports it
        I.env[m] = I.env[m].add(Lin("mat", {("D?",): ONE}))

    runs = []
    for sparse in (False, True):
        I = Interp(ps)
        I.diag_problem = None
        I.sparse = sparse
        I.saw_sparse = False
        run_block(I, A.kids(A.body(fn.node)), ["sparse J" if sparse else "dense J"])
        runs.append(I)
        if not I.saw_sparse:
            break
    if len(runs) == 1:
        results[:] = [("all", v, Ip, n_) for _, v, Ip, n_ in results]
    return runs, results


def check(rep, tier, replay=None):
    rep.explanations.append(
        "C10: solve_linear_ldlt / solve_trust_region are abstractly interpreted in a symbolic operator algebra (words over J, J', D, Hinv "
        "with coefficients polynomial in lambda); the factorised matrix, the returned step and dphi are compared in normal form with the "
        "normal equations and with the derivative of |D dx(lambda)| obtained by differentiating them.  In exact arithmetic the minimiser "
        "property, equality of dense and sparse results and |J dx + r| <= |r| (dx minimises a functional whose value at 0 is |r|^2) follow; "
        "backward error, conditioning and the behaviour of the factorisation on singular matrices are numerical and NOT decided.")
    rep.trusted.add("clang++-16 front end; Eigen's LDLT / SimplicialLDLT solve A x = b for the matrix they were constructed from")
    rep.assumptions.append("1e-8 backward error, 1e-6 dense/sparse agreement under conditioning <= 1e8 and rank-deficient inputs are not decided")
    d = fe.ast_dumps(["solve_linear_ldlt", "solve_trust_region", "colwise_norm"])
    rep.unit("umbrella TU filtered solve_linear_ldlt / solve_trust_region / colwise_norm")
    idx = A.index(d["solve_linear_ldlt"])
    fns = [x for x in idx if x.kind in A.FUNCS and x.pattern and x.qname.split("::")[-1] == "solve_linear_ldlt" and A.body(x.node) is not None]
    rep.rule("N1", "factorised matrix is J'J + lambda * diag(d)^2")
    rep.rule("N2", "dx = Hinv (-J'r) on every path (dense and sparse J)")
    rep.rule("N3", "dphi == d/dlambda |D dx(lambda)| in operator normal form")
    rep.rule("N3z", "dphi is finite (zero) where the step vanishes: no explicit division by the norm of a vector that is linear in r", minimum=1)
    rep.rule("N4", "solve_trust_region: lambda = 1/Delta, returns {solve_linear_ldlt(J,d,r,lambda), lambda}")
    rep.rule("N5", "colwise_norm: sparse branch indexes by the iterator's column, squares, takes the root; dense branch is colwise().norm()", minimum=3)
    if len(fns) != 1:
        rep.broke("solve_linear_ldlt not found (%d)" % len(fns))
        return
    fn = fns[0]
    try:
        runs, results = interpret(fn, rep)
    except Unab as ex:
        rep.broke("solve_linear_ldlt is outside the operator algebra: %s" % ex)
        check_n4(rep, d)
        check_n5(rep, d)
        return
    # N1: every factorisation used is of H
    for I in runs:
        lab = "all" if len(runs) == 1 else ("sparse J" if I.sparse else "dense J")
        for nm, m in sorted(I.fact.items()):
            ok = m.key() == H_EXPECTED.key()
            rep.instance("N1", "solve_linear_ldlt", "H (%s, %s)" % (nm, lab), ok=ok, sample={"file": fe.rel(fn.file), "line": fn.line, "normal_form": m.show()})
            if not ok:
                f, l = A.loc(I.diag_problem[1]) if I.diag_problem else (fn.file, fn.line)
                rep.violation(Finding("N1", "solve_linear_ldlt", "H (%s)" % lab, "the matrix handed to the factorisation is %s, not J'J + lambda D D%s"
                                      % (m.show().replace("D?", "<partial diagonal update>"), "; " + I.diag_problem[0] if I.diag_problem else ""), f, l))
        if not I.fact:
            rep.broke("N1: no factorisation object found in solve_linear_ldlt (%s)" % lab)
    # N2
    if not results:
        rep.broke("N2: solve_linear_ldlt has no return on the interpreted paths")
    for label, v, Ip, node in results:
        ok = isinstance(v, Lin) and v.key() == X_EXPECTED.key()
        rep.instance("N2", "solve_linear_ldlt", "dx (%s)" % label, ok=ok, sample={"normal_form": v.show() if isinstance(v, Lin) else str(v)})
        if not ok:
            f, l = A.loc(node)
            rep.violation(Finding("N2", "solve_linear_ldlt", "dx (%s)" % label, "the returned step is %s; the regularised normal equations give %s"
                                  % (v.show() if isinstance(v, Lin) else v, X_EXPECTED.show()), f, l))
    # N3
    want = expected_dphi()
    dphis = [(lab, Ip.dphi) for lab, v, Ip, node in results]
    if not any(dp for _, dp in dphis):
        rep.broke("N3: no assignment to the optional output dphi found")
    for lab, dp in dphis:
        if dp is None:
            rep.broke("N3: dphi is not assigned on path %s" % lab)
            continue
        got, node = dp
        ok = isinstance(got, Scal) and got.key() == want.key()
        rep.instance("N3", "solve_linear_ldlt", "dphi (%s)" % lab, ok=ok, sample={"normal_form": got.show() if isinstance(got, Scal) else str(got)})
        if not ok:
            f, l = A.loc(node)
            rep.violation(Finding("N3", "solve_linear_ldlt", "dphi (%s)" % lab,
                                  "dphi evaluates %s; the derivative of |D dx(lambda)| is -<D^2 x, Hinv D^2 x> / |D x| = %s"
                                  % (got.show() if isinstance(got, Scal) else got, want.show()), f, l))
    # N3z: every vector of the algebra is linear in r, so it vanishes for r = 0 (and for r orthogonal to the range of J: dx = 0).  There dphi is 0; v.normalized() returns the
    # zero vector for v = 0, an explicit division by v.norm() is 0 / 0
    for lab, v, Ip, node in results:
        if Ip.dphi is None:
            continue
        ok = not Ip.norm_divs
        rep.instance("N3z", "solve_linear_ldlt", "dphi at dx = 0 (%s)" % lab, ok=ok, sample={"explicit_divisions_by_a_norm": Ip.norm_divs})
        if not ok:
            f, l = A.loc(Ip.dphi[1])
            rep.violation(Finding("N3z", "solve_linear_ldlt", "dphi at dx = 0 (%s)" % lab,
                                  "`%s` divides by the norm of a vector that is linear in r: for J'r = 0 (r = 0, or r orthogonal to the range of J) the step is zero, the derivative of |D dx| "
                                  "is 0, and this expression is 0 / 0 = NaN (v.normalized() returns the zero vector there)" % Ip.norm_divs[0], f, l))
    check_n4(rep, d)
    check_n5(rep, d)


def check_n4(rep, d):
    def norm(e):
        return A.show(e).replace(" ", "")
    idx2 = A.index(d["solve_trust_region"])
    fns2 = [x for x in idx2 if x.kind in A.FUNCS and x.pattern and x.qname.split("::")[-1] == "solve_trust_region" and A.body(x.node) is not None]
    if len(fns2) != 1:
        rep.broke("solve_trust_region not found")
        return
    f2 = fns2[0]
    ps = [p.get("name") for p in A.params(f2.node)]
    l2 = {}
    for x in A.walk(A.body(f2.node)):
        if x.get("kind") == "VarDecl" and A.kids(x):
            l2[x.get("name")] = A.to_expr(A.kids(x)[-1])

    def resolve(e, depth=0):
        while e[0] == "ref" and e[1] in l2 and depth < 8:
            e = l2[e[1]]
            depth += 1
        return e

    def is_lambda(e):
        e = resolve(e)
        try:
            return pe.ev(e, {ps[3]: 4}) * 4 == 1 and pe.ev(e, {ps[3]: 7}) * 7 == 1
        except pe.PEError:
            return False

    def is_dx(e):
        e = resolve(e)
        return (e[0] == "call" and str(e[1]).split("::")[-1].split("<")[0] == "solve_linear_ldlt" and len(e[2]) >= 4
                and [norm(a) for a in e[2][:3]] == ps[:3] and is_lambda(e[2][3]))
    rets = [x for x in A.walk_nolambda(A.body(f2.node)) if x.get("kind") == "ReturnStmt"]
    okr = False
    if len(rets) == 1 and len(ps) == 4:
        e = A.to_expr(A.kids(rets[0])[0])
        items = e[1] if e[0] == "init" else (e[2] if e[0] in ("ctor", "call") else [])
        okr = len(items) == 2 and is_dx(items[0]) and is_lambda(items[1])
    rep.instance("N4", "solve_trust_region", "lambda", ok=okr, sample={"file": fe.rel(f2.file), "line": f2.line})
    if not okr:
        rep.violation(Finding("N4", "solve_trust_region", "lambda", "solve_trust_region is not {solve_linear_ldlt(J, d, r, 1/Delta), 1/Delta}", f2.file, f2.line))


def check_n5(rep, d):
    """N5 on engine M: every colwise_norm body is abstractly executed on a sparse matrix of symbols (both storage orders, non-square, with an empty column) and on a
    dense matrix seen through its column reductions; the result must be the vector of Euclidean column norms."""
    import mach
    import mmodels
    from mach import AbstractViolation, Cell, PyFunc, Unab, simp, sym
    idx = A.index(d["colwise_norm"])
    fns = []
    for x in idx:
        if x.kind in A.FUNCS and x.pattern and x.qname.split("::")[-1] == "colwise_norm" and A.body(x.node) is not None and x.file and x.file.startswith(fe.INCLUDE):
            if not any(y.file == x.file and y.line == x.line for y in fns):
                fns.append(x)
    if not fns:
        rep.broke("N5: colwise_norm not found")
        return

    def machine(arg):
        def types(M, tyn, args, env):
            if tyn.startswith(("Eigen::Vector<", "constEigen::Vector<", "Eigen::VectorX", "detail::ColwiseVector", "ColwiseVector")):
                if not args:
                    return mmodels.DVec([], "ret")
                v = M.eval(args[0], env)
                if isinstance(v, mach.Vec):
                    return mmodels.DVec(list(v.items), "ret")
                if mach.is_num(v):
                    return mmodels.DVec([mach.UNSET] * int(simp(v)), "ret")
            if "InnerIterator" in tyn:
                vals = [M.eval(a, env) for a in args]
                return mmodels.InnerIt(vals[0], vals[1])
            return NotImplemented

        def fpow(M, args, env, name):
            m = re.search(r"fpow<(\d+)>", name or "")
            v = M.eval(args[0], env)
            r = Fraction(1)
            for _ in range(int(m.group(1)) if m else 2):
                r = M.arith("*", r, v)
            return r

        def traitname(M, n, env, _):
            t = n or ""
            if "is_base_of" in t and "Sparse" in t:
                return isinstance(arg, mmodels.Sparse)
            if "SparseMatrixLike" in t or "is_sparse" in t:
                return isinstance(arg, mmodels.Sparse)
            return NotImplemented
        M = mach.Machine(type_factory=types, funcs={"fpow": PyFunc(fpow, lazy=True), "name:*": PyFunc(traitname, lazy=True),
                                                   "Zero": PyFunc(lambda M_, v: mmodels.DVec([Fraction(0)] * int(simp(v[0])), "Zero")),
                                                   "sqrt": PyFunc(lambda M_, v: mmodels.usym("sqrt", v[0])),
                                                   "abs2": PyFunc(lambda M_, v: M_.arith("*", v[0], v[0]))})
        M.global_env = mach.Env()
        return M

    entries = {(0, 0): sym("m00"), (2, 0): sym("m20"), (1, 1): sym("m11"), (0, 3): sym("m03"), (1, 3): sym("m13"), (2, 3): sym("m23")}      # column 2 is empty
    scen = [("sparse column-major 3x4", lambda: mmodels.Sparse(3, 4, dict(entries), False, "M")), ("sparse row-major 3x4", lambda: mmodels.Sparse(3, 4, dict(entries), True, "M")),
            ("dense 3x4", lambda: mmodels.DenseCols("M", 3, 4))]
    for name, mk in scen:
        arg = mk()
        want = None
        if isinstance(arg, mmodels.Sparse):
            want = []
            for c in range(4):
                acc = Fraction(0)
                for (r_, c_), v in sorted(entries.items()):
                    if c_ == c:
                        acc = mach.simp(mach.to_rf(acc) + mach.to_rf(v) * mach.to_rf(v))
                want.append(mmodels.usym("sqrt", acc))
        else:
            want = [sym("norm(col %d of M)" % c) for c in range(4)]
        results = []
        reasons = []
        for fn in fns:
            try:
                r = machine(arg).run_function(fn, [Cell(mk())])
                results.append((fn, r))
            except Unab as ex:
                reasons.append("%s:%s: %s" % (fe.rel(fn.file), fn.line, ex))
            except AbstractViolation as ex:
                results.append((fn, ("violation", str(ex))))
        if not results:
            rep.broke("N5: no colwise_norm body could be executed for a %s argument (%s)" % (name, "; ".join(reasons)[:300]))
            continue
        for fn, r in results:
            bad = None
            if isinstance(r, tuple) and r and r[0] == "violation":
                bad = r[1]
            else:
                vals = r.items if isinstance(r, mach.Vec) else None
                if vals is None or len(vals) != 4 or not all(v is not mach.UNSET and mach.num_equal(v, w) for v, w in zip(vals, want)):
                    bad = "returns %s; the Euclidean norms of the 4 columns are %s" % (mach.show_val(r)[:260], [mach.show_val(w) for w in want])
            rep.instance("N5", "colwise_norm", name, ok=bad is None, sample={"file": fe.rel(fn.file), "line": fn.line})
            if bad:
                rep.violation(Finding("N5", "colwise_norm", name, "colwise_norm of a %s matrix: %s" % (name, bad), fn.file, fn.line))
