"""C20 -- polynomial, quadrature and search utilities equal their definitions (constexpr tables, K = 0..10; LGR 1..16)."""
import tables


def check(rep, tier, replay=None):
    rep.explanations.append(
        "C20: every constexpr coefficient table of polynomial/basis.hpp for K=0..10 is compared, inside the compiler's constant "
        "evaluator, with the mathematical definition computed independently with exact rationals (Bernstein closed form, "
        "Cox-de Boor cardinal B-spline pieces, three-term recurrences), plus partition of unity, cumulative-basis shape, "
        "monomial_derivative(s)/monomial_integral closed forms, Lagrange Kronecker property and LGR exactness.  Identities are in "
        "coefficient space and therefore hold for every evaluation point.")
    rep.assumptions.append("integrate_absolute_polynomial and binary_interval_search take runtime arguments and are NOT decided here")
    second = tier == "thorough"
    tables.run(rep, "W.basis", tables.basis_witnesses(10), "coefficient tables == definitions; cumulative shape; partition of unity (K=0..10)", 120, second)
    tables.run(rep, "W.util", tables.utility_witnesses(10), "monomial_derivative(s), monomial_integral, lagrange_basis, lgr_nodes", 80, second)
    rep.unit("2 batched static_assert TUs over polynomial/basis.hpp, polynomial/quadrature.hpp")
