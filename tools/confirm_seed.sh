#!/bin/bash
# usage: confirm_seed.sh <seed dir with patch.diff + demo.cpp> <result json> [extra g++ flags for the demo]
# Confirms, in a scratch worktree outside /repo and /verif, that the change compiles, the existing suite passes with it,
# and the demonstration passes without / fails with the change.
set -u
SEED="$1"; OUT="$2"; shift 2; XFLAGS="$*"
mkdir -p /tmp/confirm
WT=${CONFIRM_WT:-/tmp/confirm/wt}
exec 9>/tmp/confirm/lock_$(echo "$WT" | tr / _)
flock 9            # one confirmation at a time per scratch worktree (CONFIRM_WT selects another one, e.g. the author's)
T=/tmp/confirm/run_$$
mkdir -p $T
if [ ! -d "$WT" ]; then git -C /repo worktree add --detach "$WT" HEAD >/dev/null 2>&1; fi
cd "$WT" && git checkout -q -- . && git checkout -q --detach "$(git -C /repo rev-parse HEAD)"
[ -d _build ] || cmake -G Ninja -B _build -DBUILD_TESTS=ON -DCMAKE_BUILD_TYPE=RelWithDebInfo -DCMAKE_CXX_FLAGS=-Wno-error >/dev/null 2>&1
INC="-I$WT/include -I$WT/_build/include -I/usr/include/eigen3"
g++ -std=gnu++20 -O1 -pthread $XFLAGS $INC "$SEED/demo.cpp" -o $T/demo_clean 2>$T/demo_clean.err; C0=$?
timeout 600 $T/demo_clean >$T/demo_clean.out 2>&1; R0=$?
git apply "$SEED/patch.diff"; AP=$?
g++ -std=gnu++20 -O1 -pthread $XFLAGS $INC "$SEED/demo.cpp" -o $T/demo_patched 2>$T/demo_patched.err; C1=$?
timeout 600 $T/demo_patched >$T/demo_patched.out 2>&1; R1=$?
cmake --build _build -j${CONFIRM_JOBS:-16} >$T/build.log 2>&1; B=$?
ctest --test-dir _build -j${CONFIRM_JOBS:-16} --timeout 900 >$T/ctest.log 2>&1; CT=$?
SUMMARY=$(grep -E "tests passed|tests failed" $T/ctest.log | tail -1)
git checkout -q -- .
python3 - "$OUT" <<PY
import json,sys
json.dump({"patch_applies": $AP==0, "demo_compiles_clean": $C0==0, "demo_exit_clean": $R0, "demo_compiles_patched": $C1==0, "demo_exit_patched": $R1,
           "suite_builds_with_patch": $B==0, "ctest_exit_with_patch": $CT, "ctest_summary": """$SUMMARY""",
           "demo_output_patched_tail": open('$T/demo_patched.out').read()[-600:]}, open(sys.argv[1],'w'), indent=1)
PY
cat "$OUT"
rm -rf $T
