"""Result collection, evidence files, known findings, exit protocol.

Exit codes: 0 held (maybe KNOWN-FINDING lines) / 1 VIOLATION / 2 analysis-broken.
"""
import json
import os
import sys
import time

import fe

VERIF = os.path.dirname(os.path.dirname(os.path.abspath(__file__)))
EVID = os.environ.get("VERIF_EVIDENCE_DIR") or os.path.join(VERIF, "evidence")
KNOWN = os.path.join(VERIF, "known_findings.json")


def load_known():
    try:
        return json.load(open(KNOWN))
    except FileNotFoundError:
        return {"findings": [], "fixed": []}


class Finding:
    def __init__(self, rule, function, instance, message, file=None, line=None, scalar=None, detail=None):
        self.rule = rule
        self.function = function
        self.instance = str(instance)
        self.message = message
        self.file = fe.rel(file) if file else None
        self.line = line
        self.scalar = scalar
        self.detail = detail or {}

    def key(self):
        k = {"rule": self.rule, "function": self.function, "instance": self.instance}
        if self.scalar:
            k["scalar"] = self.scalar
        return k

    def text(self):
        loc = "%s:%s" % (self.file, self.line) if self.file else "?"
        return "[%s] %s @ %s instance=%s%s: %s" % (self.rule, self.function, loc, self.instance,
                                                   (" scalar=" + self.scalar) if self.scalar else "", self.message)

    def to_json(self):
        d = self.key()
        d.update(file=self.file, line=self.line, message=self.message, detail=self.detail)
        return d


class Report:
    """Collects what one check run analysed and found."""

    def __init__(self, pid, tier):
        self.pid = pid
        self.tier = tier
        self.t0 = time.time()
        self.violations = []   # Finding
        self.notes = []        # str (sub-tolerance, inconclusive)
        self.broken = []       # str
        self.rules = {}        # rule -> {"instances": n, "min": m, "what": str}
        self.samples = []
        self.units = set()
        self.functions = set()
        self.obligations = 0
        self.discharged = 0
        self.nontrivial = set()
        self.assumptions = []
        self.trusted = set()
        self.cmds = []
        self.explanations = []

    # -- recording --------------------------------------------------------------------------
    def rule(self, rule, what, minimum=1):
        self.rules.setdefault(rule, {"instances": 0, "min": minimum, "what": what})
        self.rules[rule]["min"] = minimum
        self.rules[rule]["what"] = what

    def instance(self, rule, function, key, ok=True, nontrivial=True, sample=None):
        """One rule instance analysed (an obligation); ok=True means discharged."""
        r = self.rules.setdefault(rule, {"instances": 0, "min": 1, "what": ""})
        r["instances"] += 1
        self.obligations += 1
        if ok:
            self.discharged += 1
        if function:
            self.functions.add(function)
        if nontrivial:
            self.nontrivial.add((rule, function, str(key)))
        if sample is not None and len([s for s in self.samples if s.get("rule") == rule]) < 4:
            s = {"rule": rule, "function": function, "instance": str(key)}
            s.update(sample)
            self.samples.append(s)

    def violation(self, f):
        self.violations.append(f)

    def note(self, s):
        self.notes.append(s)
        print("NOTE: " + s)

    def broke(self, s):
        self.broken.append(s)
        print("ANALYSIS-BROKEN: " + s)

    def unit(self, u):
        self.units.add(u)

    # -- finishing --------------------------------------------------------------------------
    def finish(self):
        known = load_known()
        kf = [k for k in known.get("findings", []) if k.get("property") == self.pid]
        violated = {v.key().get("rule") for v in self.violations}
        for rname, r in sorted(self.rules.items()):
            if rname in violated:
                continue      # a rule may stop enumerating scenarios after its first violations
            if r["instances"] < r["min"]:
                self.broke("rule %s matched %d instance(s), fewer than the %d confirmed by hand (%s) -- "
                           "an anchor vanished or the rule no longer recognises the code; re-confirm before trusting"
                           % (rname, r["instances"], r["min"], r["what"]))
        new = []
        printed_known = []
        for v in self.violations:
            matched = None
            for k in kf:
                kk = k.get("key", {})
                if all(v.key().get(a) == b for a, b in kk.items()):
                    matched = k
                    break
            if matched:
                printed_known.append((v, matched))
            else:
                new.append(v)
        for v, k in printed_known:
            print("KNOWN-FINDING: property=%s %s" % (self.pid, v.text()))
        code = 0
        replay_paths = []
        if new:
            code = 1
            os.makedirs(os.path.join(EVID, "replay"), exist_ok=True)
            for i, v in enumerate(new):
                p = os.path.join(EVID, "replay", "%s-%d.json" % (self.pid, i))
                json.dump({"property": self.pid, "finding": v.to_json(), "tier": self.tier}, open(p, "w"), indent=1)
                replay_paths.append(p)
                print("VIOLATION property=%s replay=%s" % (self.pid, p))
                print("  " + v.text())
        if self.broken and code == 0:
            code = 2
        wall = time.time() - self.t0
        level = "other"
        cov = {
            "evaluations": self.obligations,
            "distinct_nontrivial": len(self.nontrivial),
            "rule": "every rule instance enumerated from /repo's current source on this run; an instance is "
                    "non-trivial when the rule body had something to compare/decide for it; distinct = distinct "
                    "(rule, qualified function, instance key)",
            "samples": self.samples[:40] or [{"note": "no instances"}],
            "obligations": self.obligations,
            "discharged": self.discharged,
            "checker_cmd": "; ".join(self.cmds[:6]) or "./check %s" % self.pid,
            "trusted_base": sorted(self.trusted) or ["clang++-16 front end", "python3"],
            "explanation": " ".join(self.explanations) or "static rules over AST/IR/witness diagnostics",
            "exhaustive": False,
            "translation_units": sorted(self.units),
            "functions_analysed": sorted(self.functions)[:400],
            "n_functions_analysed": len(self.functions),
            "rules": self.rules,
            "notes": self.notes[:100],
            "known_findings_reported": [v.to_json() for v, _ in printed_known],
            "violations_reported": [v.to_json() for v in new],
            "analysis_broken": self.broken,
            "tools": fe.tool_versions(),
        }
        ev = {
            "property_id": self.pid,
            "tier": self.tier,
            "seed": int(os.environ.get("VERIF_SEED", "0") or 0),
            "level": level,
            "coverage": cov,
            "assumptions": self.assumptions,
            "wall_s": round(wall, 2),
            "violations": len(new),
        }
        os.makedirs(EVID, exist_ok=True)
        tmp = os.path.join(EVID, "%s.json.tmp" % self.pid)
        json.dump(ev, open(tmp, "w"), indent=1)
        os.replace(tmp, os.path.join(EVID, "%s.json" % self.pid))
        print("SUMMARY property=%s tier=%s obligations=%d discharged=%d violations=%d known=%d notes=%d broken=%d wall=%.1fs"
              % (self.pid, self.tier, self.obligations, self.discharged, len(new), len(printed_known),
                 len(self.notes), len(self.broken), wall))
        for rname, r in sorted(self.rules.items()):
            print("  rule %-6s instances=%-4d (min %d)  %s" % (rname, r["instances"], r["min"], r["what"]))
        return code
