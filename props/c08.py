"""C08 -- tangent-space differentiation (structural clauses P1, P2, P3)."""
import re

import astlib as A
import fe
import groups
import pe
import wit
from report import Finding


def check_p2(rep):
    rep.rule("P2", "wrt_copy_if_const copies exactly the arguments that came in as const references", minimum=12)
    kinds = [("smooth::SO3d", "so3"), ("Eigen::Vector3d", "v3"), ("double", "dbl"), ("std::vector<smooth::SE2d>", "vec"),
             ("smooth::Bundle<smooth::SO3d, Eigen::Vector2d>", "bun"), ("Eigen::VectorXd", "vx")]
    pos = []
    prelude = groups.PRELUDE + "#include <vector>\n#include <tuple>\n#include <smooth/manifolds.hpp>\n#include <smooth/wrt.hpp>\n#include <smooth/detail/wrt_impl.hpp>\n"
    for ta, na in kinds:
        for tb, nb in kinds[:3]:
            d = ("using In = std::tuple<const %s &, %s &>;\nusing Out = decltype(smooth::wrt_copy_if_const(std::declval<In>()));\n"
                 "static_assert(std::is_same_v<Out, std::tuple<%s, %s &>>, \"const argument not copied / mutable argument not kept by reference\");\n"
                 "using Out2 = decltype(smooth::wrt_copy_if_const(std::declval<const In &>()));\n"
                 "static_assert(std::is_same_v<Out2, std::tuple<%s, %s &>>, \"lvalue tuple overload\");\n" % (ta, tb, ta, tb, ta, tb))
            pos.append(wit.Wit("cic_%s_%s" % (na, nb), "", d, what="tuple<const %s&, %s&> -> tuple<%s, %s&>" % (ta, tb, ta, tb), group="wrt_copy_if_const"))
    # wrt() itself forwards references (no copies)
    d = ("inline void probe(const smooth::SO3d & a, Eigen::Vector3d & b) {\n  auto w = smooth::wrt(a, b);\n"
         "  static_assert(std::is_same_v<decltype(w), std::tuple<const smooth::SO3d &, Eigen::Vector3d &>>, \"wrt must forward references\");\n}\n")
    pos.append(wit.Wit("wrt_forwards", "", d, what="wrt(const A&, B&) is tuple<const A&, B&>", group="wrt"))
    failed, unattr, raw = wit.compile_batch(prelude, pos, name="c08")
    rep.cmds.append("g++ -std=gnu++20 -fsyntax-only (batched static_assert witnesses on result types)")
    if unattr:
        rep.broke("P2 batch has unattributable errors: %s" % unattr[:2])
    for w in pos:
        bad = w.id in failed
        rep.instance("P2", w.group, w.id, ok=not bad, sample={"obligation": w.what})
        if bad:
            rep.violation(Finding("P2", w.group, w.id, "%s -- %s" % (failed[w.id][0][-150:], w.what), "include/smooth/detail/wrt_impl.hpp", None))


def check_p5(rep):
    """P5: the concepts that make Default mode prefer the callable's own derivatives accept every documented way of returning them"""
    rep.rule("P5", "diffable_order1/2 accept jacobian()/hessian() returned by value (dense, sparse), by const reference and as std::reference_wrapper; reject callables without them", minimum=8)
    prelude = (groups.PRELUDE + "#include <functional>\n#include <Eigen/Sparse>\n#include <smooth/diff.hpp>\n"
               "using V3 = Eigen::Vector3d;\nusing M3 = Eigen::Matrix3d;\nusing H3 = Eigen::Matrix<double, 3, 9>;\n"
               "using W = decltype(smooth::wrt(std::declval<const V3 &>()));\n")
    kinds = [("byval", "M3", "H3", "M3::Identity()", "H3::Zero()"),
             ("cref", "const M3 &", "const H3 &", "J", "H"),
             ("refwrap", "std::reference_wrapper<const M3>", "std::reference_wrapper<const H3>", "std::cref(J)", "std::cref(H)"),
             ("sparse", "Eigen::SparseMatrix<double>", "Eigen::SparseMatrix<double>", "Eigen::SparseMatrix<double>(3, 3)", "Eigen::SparseMatrix<double>(3, 9)")]
    pos = []
    for nm, jt, ht, je, he in kinds:
        d = ("struct F_%s {\n  M3 J = M3::Identity(); H3 H = H3::Zero();\n  V3 operator()(const V3 & x) const { return x; }\n"
             "  %s jacobian(const V3 &) const { return %s; }\n  %s hessian(const V3 &) const { return %s; }\n};\n" % (nm, jt, je, ht, he))
        pos.append(wit.Wit("d1_%s" % nm, "", d + "static_assert(smooth::diff::detail::diffable_order1<F_%s &, W>, \"jacobian() returning %s is not recognised\");\n" % (nm, jt.replace('"', "")),
                           what="diffable_order1 with jacobian() -> %s" % jt, group="diffable_order1"))
        pos.append(wit.Wit("d2_%s" % nm, "", d.replace("F_%s" % nm, "G_%s" % nm) + "static_assert(smooth::diff::detail::diffable_order2<G_%s &, W>, \"hessian() returning %s is not recognised\");\n" % (nm, ht.replace('"', "")),
                           what="diffable_order2 with hessian() -> %s" % ht, group="diffable_order2"))
    d = "struct F_none { V3 operator()(const V3 & x) const { return x; } };\nstatic_assert(!smooth::diff::detail::diffable_order1<F_none &, W>, \"a callable without jacobian() must not be analytic\");\n"
    pos.append(wit.Wit("d1_none", "", d, what="no jacobian() -> not diffable_order1", group="diffable_order1"))
    d = ("struct F_jonly { V3 operator()(const V3 & x) const { return x; } M3 jacobian(const V3 &) const { return M3::Identity(); } };\n"
         "static_assert(smooth::diff::detail::diffable_order1<F_jonly &, W> && !smooth::diff::detail::diffable_order2<F_jonly &, W>, \"jacobian-only callable\");\n")
    pos.append(wit.Wit("d12_jonly", "", d, what="jacobian() only -> order1 but not order2", group="diffable_order2"))
    failed, unattr, raw = wit.compile_batch(prelude, pos, name="c08p5")
    if unattr:
        rep.broke("P5 batch has unattributable errors: %s" % unattr[:2])
    for w in pos:
        bad = w.id in failed
        rep.instance("P5", w.group, w.id, ok=not bad, sample={"obligation": w.what})
        if bad:
            rep.violation(Finding("P5", w.group, w.id, "%s -- %s" % (failed[w.id][0][-160:], w.what), "include/smooth/detail/diff_impl.hpp", None))


def check_p6(rep, idx):
    from fractions import Fraction
    rep.rule("P6", "the index-subset wrapper copies the reduced arguments into the full argument tuple (never moves from them)", minimum=1)
    # P6
    subs = [d for d in idx if d.kind in A.FUNCS and d.pattern and d.qname.split("::")[-1] == "dr" and A.body(d.node) is not None and len(A.params(d.node)) == 3]
    subs = [d for d in subs if any(x.get("kind") == "LambdaExpr" for x in A.walk(A.body(d.node)))]
    if len(subs) != 1:
        rep.broke("P6: dr(f, x, index_sequence) with the wrapping lambda not found (%d)" % len(subs))
    else:
        d = subs[0]
        lam = [x for x in A.walk(A.body(d.node)) if x.get("kind") == "LambdaExpr"]
        folds = [x for l_ in lam for x in A.walk(l_) if x.get("kind") == "CXXFoldExpr"]
        txt = [A.ntext(x) for x in folds if "get<Idx>" in A.ntext(x)]
        if len(txt) != 1:
            rep.broke("P6: the fold that places the reduced arguments was not found")
        else:
            moved = "std::move(" in txt[0] or "std::forward" in txt[0] or "std::exchange" in txt[0] or "swap(" in txt[0]
            f, l = A.loc(folds[0])
            rep.instance("P6", "dr(f, x, index_sequence)", "fold", ok=not moved, sample={"file": fe.rel(f), "line": l, "fold": txt[0][:80]})
            if moved:
                rep.violation(Finding("P6", "dr(f, x, index_sequence)", "fold",
                                      "the wrapper moves from its reduced arguments (`%s`): they are dr_numerical's working copies (or the caller's own objects) and are "
                                      "read again for the next perturbation, so heap-backed arguments lose their value after the first evaluation" % txt[0][:80], f, l))


def check(rep, tier, replay=None):
    rep.explanations.append(
        "C08: detail::dr_numerical<1|2> and the dispatcher diff::dr<K, D> are abstractly executed (engine M, props/diffm.py) on abstract argument tuples -- Eigen "
        "vectors with concrete rational coordinates, free-group elements, an uninterpreted callable -- and the effects are compared with the contract: arguments "
        "restored (LIFO on non-commutative groups), Jacobian columns and Hessian entries built from the documented evaluations with the documented steps and "
        "layout, pass-through of the callable's own derivatives.  P2 / P5 are type-level witnesses (which arguments are copied, which callables count as "
        "providing derivatives); P6 inspects the index-subset wrapper.")
    rep.trusted.update(["clang++-16 front end", "g++ 12 front end (type identities)", "lib/mach.py (abstract machine)"])
    rep.assumptions.append("accuracy of finite differences is numerical and not decided; bounded abstract execution (1-3 arguments, vector sizes 1-4, result dof 2)")
    d = fe.ast_dumps(["diff::dr"])
    rep.unit("umbrella TU filtered diff::dr / dr_numerical; 1 batched static_assert TU")
    import diffm
    diffm.check(rep, tier)
    check_p2(rep)
    check_p5(rep)
    check_p6(rep, A.index(d["diff::dr"]))
