"""A -- utilities over clang's JSON AST (template patterns and instantiations)."""
import re
from fractions import Fraction

import fe

TRANSPARENT = {"ImplicitCastExpr", "ParenExpr", "ExprWithCleanups", "MaterializeTemporaryExpr", "CXXStdInitializerListExpr",
               "CXXBindTemporaryExpr", "ConstantExpr", "FullExpr", "SubstNonTypeTemplateParmExpr"}


def kids(n):
    return n.get("inner", []) or []


def walk(n, skip_lambda_class=True):
    """Pre-order traversal.  The closure class of a LambdaExpr repeats the body; it is skipped."""
    st = [n]
    while st:
        x = st.pop()
        yield x
        ks = kids(x)
        if skip_lambda_class and x.get("kind") == "LambdaExpr":
            ks = [k for k in ks if k.get("kind") != "CXXRecordDecl"]
        st.extend(reversed(ks))


def walk_nolambda(n):
    """Pre-order traversal that does not enter lambda bodies nor type nodes (decltype operands are unevaluated)."""
    st = [n]
    while st:
        x = st.pop()
        yield x
        k = x.get("kind", "")
        if k == "LambdaExpr" or k.endswith("Type"):
            continue
        st.extend(reversed(kids(x)))


def strip(n):
    while n.get("kind") in TRANSPARENT and kids(n):
        n = kids(n)[0]
    return n


def _bare(loc):
    """A location may be split into spellingLoc/expansionLoc for macro expansions."""
    if "offset" in loc:
        return loc
    if "expansionLoc" in loc:
        return loc["expansionLoc"]
    if "spellingLoc" in loc:
        return loc["spellingLoc"]
    return {}


def loc(n):
    r = n.get("range", {})
    b = _bare(r.get("begin", {})) if r else {}
    if not b:
        b = _bare(n.get("loc", {}))
    return b.get("file"), b.get("line")


def text(n):
    r = n.get("range")
    if not r:
        return ""
    b = _bare(r["begin"])
    e = _bare(r["end"])
    f = b.get("file")
    if not f or f != e.get("file") or "offset" not in b or "offset" not in e:
        return ""
    try:
        src = fe.source(f)
    except OSError:
        return ""
    return src[b["offset"]: e["offset"] + e.get("tokLen", 0)].decode("utf8", "replace")


def ntext(n):
    return re.sub(r"\s+", "", text(n))


def text_spelled(n):
    """source text of a node, preferring spelling locations (the tokens of a macro *argument* are spelled at the call site, while the
    expansion location of everything inside a macro is the whole macro invocation)"""
    r = n.get("range")
    if not r:
        return ""

    def sp(loc):
        if "spellingLoc" in loc:
            return loc["spellingLoc"]
        return _bare(loc)
    b, e = sp(r["begin"]), sp(r["end"])
    f = b.get("file")
    if not f or f != e.get("file") or "offset" not in b or "offset" not in e:
        return text(n)
    try:
        src = fe.source(f)
    except OSError:
        return ""
    return src[b["offset"]: e["offset"] + e.get("tokLen", 0)].decode("utf8", "replace")


def unresolved_member_name(n):
    t = re.sub(r"\s+", "", text_spelled(n))
    m = re.search(r"(?:\.|->)(?:template)?(~?\w+)(?:<.*>)?$", t)
    if m:
        return m.group(1)
    m = re.match(r"^(\w+)(?:<.*>)?$", t)
    return m.group(1) if m else (t or None)


# ------------------------------------------------------------------------------------------
# declaration index
# ------------------------------------------------------------------------------------------

SCOPES = {"NamespaceDecl", "CXXRecordDecl", "ClassTemplateDecl", "ClassTemplateSpecializationDecl",
          "ClassTemplatePartialSpecializationDecl", "FunctionTemplateDecl", "LinkageSpecDecl"}
FUNCS = {"FunctionDecl", "CXXMethodDecl", "CXXConstructorDecl", "CXXDestructorDecl", "CXXConversionDecl"}


def spec_suffix(n):
    """Template-argument text of a (partial) specialisation, from the source."""
    t = text(n)
    name = n.get("name", "")
    m = re.search(r"\b(?:struct|class)\s+(?:\w+::)*" + re.escape(name) + r"\s*(<.*?>)\s*(?:final\s*)?(?::[^:]|\{|;)", t, re.S)
    if m:
        return re.sub(r"\s+", "", m.group(1))
    return ""


class Decl:
    __slots__ = ("qname", "node", "kind", "pattern", "file", "line", "parent", "inst_args", "tparams")

    def __init__(self, qname, node, pattern, parent, inst_args=None):
        self.qname = qname
        self.node = node
        self.kind = node.get("kind")
        self.pattern = pattern
        self.file, self.line = loc(node)
        self.parent = parent
        self.inst_args = inst_args
        self.tparams = None       # template parameter names of a function template (declaration order)

    def __repr__(self):
        return "<%s %s %s%s>" % (self.kind, self.qname, "pattern" if self.pattern else "inst", "")


def index(objs):
    """List of Decl for every function / record / variable declared at namespace or class scope.
    `pattern` is False inside implicit/explicit instantiations (ClassTemplateSpecializationDecl children of a
    ClassTemplateDecl and FunctionDecl children of a FunctionTemplateDecl other than the first)."""
    out = []

    def rec(n, prefix, pattern, parent):
        k = n.get("kind")
        name = n.get("name", "")
        if k == "NamespaceDecl":
            if n.get("isInline"):
                np_ = prefix
            else:
                np_ = prefix + [name] if name else prefix
            for c in kids(n):
                rec(c, np_, pattern, parent)
        elif k == "LinkageSpecDecl":
            for c in kids(n):
                rec(c, prefix, pattern, parent)
        elif k == "ClassTemplateDecl":
            first = True
            for c in kids(n):
                ck = c.get("kind")
                if ck == "CXXRecordDecl":
                    rec(c, prefix, pattern, parent)
                elif ck == "ClassTemplateSpecializationDecl":
                    rec(c, prefix, False, parent)
        elif k in ("CXXRecordDecl", "ClassTemplateSpecializationDecl", "ClassTemplatePartialSpecializationDecl"):
            if n.get("isImplicit"):
                return
            suffix = ""
            if k == "ClassTemplatePartialSpecializationDecl" or (k == "ClassTemplateSpecializationDecl" and pattern):
                suffix = spec_suffix(n)
            q = prefix + [name + suffix]
            d = Decl("::".join(q), n, pattern, parent)
            out.append(d)
            for c in kids(n):
                rec(c, q, pattern, d)
        elif k == "FunctionTemplateDecl":
            seen = False
            tps = [c.get("name") for c in kids(n) if c.get("kind") in ("NonTypeTemplateParmDecl", "TemplateTypeParmDecl", "TemplateTemplateParmDecl")]
            for c in kids(n):
                if c.get("kind") in FUNCS:
                    before = len(out)
                    rec(c, prefix, pattern and not seen, parent)
                    for d_ in out[before:]:
                        if d_.node is c:
                            d_.tparams = tps
                    seen = True
        elif k in FUNCS:
            if n.get("isImplicit"):
                return
            q = prefix + [name]
            if k != "FunctionDecl" and parent is None and n.get("parentDeclContextId"):
                # out-of-line member definition: recover the class qualifier from the declarator text
                b = body(n)
                head = text(n)
                if b is not None:
                    head = head[: max(0, len(head) - len(text(b)))]
                ms = list(re.finditer(r"(\w+)\s*<[^<>;{}()]*>\s*::\s*(?:template\s+)?(?:~?\w+|operator\s*[^\s(]+|operator\s*\(\s*\))\s*\(", head, re.S))
                if ms:
                    cls = ms[-1].group(1)
                    q = prefix + [cls, name if not name.startswith(cls + "<") else cls]
            d = Decl("::".join(q), n, pattern, parent)
            out.append(d)
        elif k in ("VarDecl", "FieldDecl", "VarTemplateDecl", "TypeAliasDecl", "TypeAliasTemplateDecl", "FriendDecl"):
            q = prefix + [name]
            out.append(Decl("::".join(q), n, pattern, parent))
            if k == "FriendDecl":
                for c in kids(n):
                    rec(c, prefix, pattern, parent)

    for o in objs:
        # the dump filter yields declarations without their enclosing scopes; recover the prefix from the
        # qualified-name header if present
        rec(o, [], True, None)
    return out


def body(fn):
    for c in kids(fn):
        if c.get("kind") == "CompoundStmt":
            return c
    return None


def params(fn):
    return [c for c in kids(fn) if c.get("kind") == "ParmVarDecl"]


def lambda_body(lam):
    ks = [k for k in kids(lam) if k.get("kind") == "CompoundStmt"]
    return ks[-1] if ks else None


# ------------------------------------------------------------------------------------------
# expression conversion
# ------------------------------------------------------------------------------------------

SCALAR_CTORS = {"Scalar", "S", "double", "float", "T", "_Scalar", "typename G::Scalar", "Scalar_"}


def callee_name(n, rich=False):
    """Name of a call's callee expression (possibly qualified, from source text for dependent names).
    rich: keep explicit template arguments and qualifiers of unresolved names (engine M needs them to pick the instantiation)."""
    n = strip(n)
    k = n.get("kind")
    if k == "UnresolvedLookupExpr":
        if rich:
            t = ntext(n)
            if t:
                return t
        return n.get("name")
    if k == "DeclRefExpr":
        rd = n.get("referencedDecl", {})
        t = ntext(n)
        if t and ("::" in t or (rich and "<" in t)):
            return t
        return rd.get("name")
    if k in ("DependentScopeDeclRefExpr", "UnresolvedMemberExpr"):
        return ntext(n)
    if k in ("MemberExpr",):
        return n.get("name")
    if k == "CXXDependentScopeMemberExpr":
        return n.get("member")
    return ntext(n) or None


def targs_text(n):
    """Explicit template arguments of a member / name expression, as normalised source text list."""
    t = ntext(n)
    # strip everything up to the member name
    m = n.get("member") or n.get("name") or ""
    if isinstance(m, str) and m:
        i = t.rfind(m + "<")
        if i >= 0:
            s = t[i + len(m):]
            depth = 0
            for j, ch in enumerate(s):
                if ch == "<":
                    depth += 1
                elif ch == ">":
                    depth -= 1
                    if depth == 0:
                        return s[1:j]
    return None


def to_expr(n, rich=False):
    n = strip(n)
    k = n.get("kind")
    ks = kids(n)
    if k == "IntegerLiteral":
        return ("num", Fraction(int(n["value"])))
    if k == "FloatingLiteral":
        t = text(n).rstrip("fFlL")
        try:
            v = Fraction(t)
        except Exception:
            v = Fraction(float(n["value"]))
        return ("num", v, "f") if rich else ("num", v)
    if k == "CXXBoolLiteralExpr":
        return ("bool", bool(n.get("value")))
    if k in ("DeclRefExpr",):
        rd = n.get("referencedDecl", {})
        if rich:
            t = ntext(n)
            if t and "<" in t:
                return ("ref", rd.get("name"), rd.get("id"), t)
        return ("ref", rd.get("name"), rd.get("id"))
    if k == "DependentScopeDeclRefExpr":
        return ("ref", ntext(n), None)
    if k == "UnresolvedLookupExpr":
        if rich and "<" in ntext(n):
            return ("ref", n.get("name"), None, ntext(n))
        return ("ref", n.get("name"), None)
    if k == "CXXThisExpr":
        return ("this",)
    if k in ("BinaryOperator", "CompoundAssignOperator"):
        return ("op", n["opcode"], to_expr(ks[0], rich), to_expr(ks[1], rich))
    if k == "CXXRewrittenBinaryOperator":
        return to_expr(ks[0], rich)
    if k == "UnaryOperator":
        op = n["opcode"]
        if op == "-":
            e = to_expr(ks[0], rich)
            if e[0] == "num":
                return ("num", -e[1]) + tuple(e[2:])
            return ("neg", e)
        if op == "+":
            return to_expr(ks[0], rich)
        return ("un", op + ("post" if n.get("isPostfix") else ""), to_expr(ks[0], rich))
    if k in ("CXXUnresolvedConstructExpr", "CXXFunctionalCastExpr", "CStyleCastExpr", "CXXStaticCastExpr",
             "CXXTemporaryObjectExpr", "CXXConstructExpr"):
        ty = n.get("type", {}).get("qualType", "")
        if k == "CXXUnresolvedConstructExpr":
            ty = n.get("typeAsWritten", {}).get("qualType", ty) or ty
        args = [to_expr(c, rich) for c in ks]
        if len(args) == 1 and (ty in SCALAR_CTORS or ty.endswith("Scalar") or k == "CXXConstructExpr") and not (rich and k != "CXXConstructExpr"):
            return args[0]
        return ("ctor", ty, args)
    if k == "ConditionalOperator":
        return ("cond", to_expr(ks[0], rich), to_expr(ks[1], rich), to_expr(ks[2], rich))
    if k == "ArraySubscriptExpr":
        return ("sub", to_expr(ks[0], rich), [to_expr(ks[1], rich)])
    if k == "InitListExpr":
        if rich and len(ks) == 1 and strip(ks[0]).get("kind") == "InitListExpr" and "array<" in n.get("type", {}).get("qualType", ""):
            return to_expr(ks[0], rich)          # std::array{...}: the braces of the wrapped C array member
        return ("init", [to_expr(c, rich) for c in ks])
    if k == "ParenListExpr":
        if len(ks) == 1:
            return to_expr(ks[0], rich)
        return ("init", [to_expr(c, rich) for c in ks])
    if k == "LambdaExpr":
        return ("lambda", n)
    if k in ("MemberExpr", "CXXDependentScopeMemberExpr"):
        base = to_expr(ks[0], rich) if ks else ("this",)
        if rich and n.get("isArrow") and base != ("this",) and not (base[0] == "un" and base[1] == "->"):
            base = ("un", "->", base)
        return ("member", base, n.get("member") or n.get("name"), targs_text(n))
    if k == "UnresolvedMemberExpr":
        cks = [c for c in ks if c.get("kind")]
        base = to_expr(cks[0], rich) if cks and strip(cks[0]).get("kind") != "CXXThisExpr" else ("this",)
        return ("member", base, n.get("name") or unresolved_member_name(n), None)
    if k in ("CallExpr", "CXXMemberCallExpr"):
        cal = strip(ks[0])
        args = [to_expr(c, rich) for c in ks[1:] if c.get("kind") != "CXXDefaultArgExpr"]
        ck = cal.get("kind")
        if ck in ("MemberExpr", "CXXDependentScopeMemberExpr"):
            cks = kids(cal)
            base = to_expr(cks[0], rich) if cks else ("this",)
            if rich and cal.get("isArrow") and base != ("this",) and not (base[0] == "un" and base[1] == "->"):
                base = ("un", "->", base)       # p->f() on a dependent type: the arrow is not yet an operator call
            return ("mcall", base, cal.get("member") or cal.get("name"), targs_text(cal), args)
        if ck == "LambdaExpr":
            return ("call", ("lambda", cal), args)
        if ck == "UnresolvedMemberExpr":
            cks = [c for c in kids(cal) if c.get("kind")]
            base = to_expr(cks[0], rich) if cks and not cks[0].get("implicit") and strip(cks[0]).get("kind") != "CXXThisExpr" else ("this",)
            return ("mcall", base, cal.get("name") or unresolved_member_name(cal), None, args)
        return ("call", callee_name(cal, rich), args)
    if k == "CXXOperatorCallExpr":
        cal = strip(ks[0])
        op = callee_name(cal) or ""
        op = op.replace("operator", "")
        args = [to_expr(c, rich) for c in ks[1:]]
        if op == "()":
            return ("sub", args[0], args[1:])
        if op == "[]":
            return ("sub", args[0], args[1:])
        if len(args) == 2:
            return ("op", op, args[0], args[1])
        if len(args) == 1:
            if op == "-":
                if args[0][0] == "num":
                    return ("num", -args[0][1])
                return ("neg", args[0])
            return ("un", op, args[0])
        return ("opcall", op, args)
    if k == "CXXDefaultArgExpr":
        return ("default",)
    if k == "StringLiteral":
        return ("str", n.get("value"))
    if k == "CXXNullPtrLiteralExpr":
        return ("null",)
    if k == "PackExpansionExpr":
        return ("pack", to_expr(ks[0], rich))
    if k == "CXXFoldExpr":
        op = n.get("opcode", "")
        if not op:
            t = ntext(n)
            m = re.search(r"(\+|-|\*|/|&&|\|\||,|&|\|)\.\.\.|\.\.\.(\+|-|\*|/|&&|\|\||,|&|\|)", t)
            if m:
                op = m.group(1) or m.group(2)
        return ("fold", op, [to_expr(c, rich) for c in ks if c.get("kind")])
    if k == "SizeOfPackExpr":
        return ("sizeofpack", ntext(n))
    return ("other", k, ntext(n))


def refs(e, acc=None):
    """Names referenced in an expression tuple."""
    if acc is None:
        acc = set()
    if isinstance(e, tuple):
        if e and e[0] == "ref":
            acc.add(e[1])
        elif e and e[0] == "lambda":
            return acc
        else:
            for x in e[1:]:
                refs(x, acc)
    elif isinstance(e, list):
        for x in e:
            refs(x, acc)
    return acc


def show(e):
    """Compact printable form of an expression tuple."""
    if not isinstance(e, tuple):
        if isinstance(e, list):
            return "[" + ", ".join(show(x) for x in e) + "]"
        return str(e)
    t = e[0]
    if t == "num":
        return str(e[1])
    if t == "ref":
        return str(e[1])
    if t == "op":
        return "(%s %s %s)" % (show(e[2]), e[1], show(e[3]))
    if t == "neg":
        return "-(%s)" % show(e[1])
    if t == "un":
        return "%s(%s)" % (e[1], show(e[2]))
    if t == "call":
        return "%s(%s)" % (show(e[1]) if isinstance(e[1], tuple) else e[1], ", ".join(show(a) for a in e[2]))
    if t == "mcall":
        return "%s.%s%s(%s)" % (show(e[1]), e[2], "<%s>" % e[3] if e[3] else "", ", ".join(show(a) for a in e[4]))
    if t == "member":
        return "%s.%s" % (show(e[1]), e[2])
    if t == "sub":
        return "%s[%s]" % (show(e[1]), ", ".join(show(a) for a in e[2]))
    if t == "init":
        return "{" + ", ".join(show(a) for a in e[1]) + "}"
    if t == "cond":
        return "(%s ? %s : %s)" % (show(e[1]), show(e[2]), show(e[3]))
    if t == "lambda":
        return "<lambda>"
    if t == "this":
        return "this"
    if t == "ctor":
        return "%s(%s)" % (e[1], ", ".join(show(a) for a in e[2]))
    if t == "other":
        return "<%s:%s>" % (e[1], e[2][:40])
    return str(e)
