#!/usr/bin/env python3
"""install_seed.py <seed dir> <confirm json> <seed id> <property> <what it needs to manifest>
Copies a confirmed seeded change into /verif/seeded/<id>/ and records which rules of the property's check report it
(applies the patch to /repo, runs the quick check with a scratch evidence dir, and undoes the patch straight afterwards)."""
import json
import os
import re
import shutil
import subprocess
import sys

VERIF = os.path.dirname(os.path.dirname(os.path.abspath(__file__)))


def main():
    seed, conf, sid, prop, needs = sys.argv[1:6]
    tier = sys.argv[6] if len(sys.argv) > 6 else "quick"
    dst = os.path.join(VERIF, "seeded", sid)
    os.makedirs(dst, exist_ok=True)
    shutil.copy(os.path.join(seed, "patch.diff"), dst)
    shutil.copy(os.path.join(seed, "demo.cpp"), dst)
    if os.path.exists(os.path.join(seed, "notes.md")):
        shutil.copy(os.path.join(seed, "notes.md"), os.path.join(dst, "author_notes.md"))
    c = json.load(open(conf))
    assert c["patch_applies"] and c["demo_exit_clean"] == 0 and c["demo_exit_patched"] != 0 and c["ctest_exit_with_patch"] == 0, c
    st = subprocess.run(["git", "-C", "/repo", "status", "--porcelain", "--untracked-files=no"], capture_output=True, text=True).stdout.strip()
    assert not st, "repo not clean: " + st
    subprocess.check_call(["git", "-C", "/repo", "apply", os.path.join(dst, "patch.diff")])
    try:
        env = dict(os.environ, VERIF_EVIDENCE_DIR="/tmp/ev_scratch_seed")
        r = subprocess.run([os.path.join(VERIF, "check"), prop, "--tier", tier], capture_output=True, text=True, env=env, timeout=3600)
    finally:
        subprocess.check_call(["git", "-C", "/repo", "checkout", "--", "."])
    out = r.stdout
    rules = sorted(set(re.findall(r"^  \[([\w.]+)\]", out, re.M)))
    lines = [l.strip()[:300] for l in out.splitlines() if l.startswith("  [")][:6]
    meta = {
        "seed_id": sid,
        "property": prop,
        "needs_to_manifest": needs,
        "confirmed": {
            "how": "tools/confirm_seed.sh in a scratch worktree under /tmp: demo built and run without and with the patch; full test suite rebuilt and run with the patch",
            "demo_exit_without_change": c["demo_exit_clean"], "demo_exit_with_change": c["demo_exit_patched"],
            "existing_suite_with_change": c["ctest_summary"],
        },
        "check": {"command": "./check %s --tier %s" % (prop, tier), "exit": r.returncode, "detected": r.returncode == 1,
                  "rules_reporting": rules, "report_lines": lines},
    }
    json.dump(meta, open(os.path.join(dst, "meta.json"), "w"), indent=1)
    print(sid, "detected" if r.returncode == 1 else "MISSED (exit %d)" % r.returncode, rules)


if __name__ == "__main__":
    main()
