"""C20 -- polynomial, quadrature and search utilities equal their definitions (constexpr tables, K = 0..10; LGR 1..16)."""
import tables


def check(rep, tier, replay=None):
    rep.explanations.append(
        "C20: every constexpr coefficient table of polynomial/basis.hpp for K=0..10 is compared, inside the compiler's constant "
        "evaluator, with the mathematical definition computed independently with exact rationals (Bernstein closed form, "
        "Cox-de Boor cardinal B-spline pieces, three-term recurrences), plus partition of unity, cumulative-basis shape, "
        "monomial_derivative(s)/monomial_integral closed forms, Lagrange Kronecker property and LGR exactness.  Identities are in "
        "coefficient space and therefore hold for every evaluation point.")
    rep.assumptions.append("integrate_absolute_polynomial is decided in exact arithmetic (rule I1), not its 1e-9 rounding; binary_interval_search is decided for ranges up to length 8 over a 4-letter alphabet (rule I2), longer ranges are not covered")
    second = tier == "thorough"
    tables.run(rep, "W.basis", tables.basis_witnesses(10), "coefficient tables == definitions; cumulative shape; partition of unity (K=0..10)", 120, second)
    tables.run(rep, "W.util", tables.utility_witnesses(10), "monomial_derivative(s), monomial_integral, lagrange_basis, lgr_nodes", 80, second)
    rep.unit("2 batched static_assert TUs over polynomial/basis.hpp, polynomial/quadrature.hpp")
    check_i1(rep)
    check_i3(rep)
    check_i2(rep, 8 if tier == "thorough" else 7)


# ---- I1: integrate_absolute_polynomial by exhaustive case analysis over the ordering of roots and interval ends ------

def check_i1(rep):
    import itertools
    import re
    from fractions import Fraction
    import astlib as A
    import fe
    import pe
    from report import Finding
    rep.rule("I1", "integrate_absolute_polynomial: in every ordering of the roots relative to [t0,t1] and every sign of (A, B) the result is |sum of signed antiderivative differences|", minimum=25)
    idx = A.index(fe.ast_dump("integrate_absolute_polynomial"))
    fns = [d for d in idx if d.kind in A.FUNCS and d.pattern and d.qname.split("::")[-1] == "integrate_absolute_polynomial" and A.body(d.node) is not None]
    if len(fns) != 1:
        rep.broke("I1: integrate_absolute_polynomial not found")
        return
    fn = fns[0]
    body = A.body(fn.node)

    class Bad(Exception):
        pass
    POS = {"L": -1, "t0": 0, "I": 1, "t1": 2, "R": 3}     # position classes of a point relative to t0 < t1

    def xev(e, env, loc):
        """exact evaluation over rationals: + - * /, sqrt of perfect squares, abs, comparisons, ?: ; locals are expanded from `loc`"""
        t = e[0]
        if t == "num":
            return Fraction(e[1])
        if t == "ref":
            if e[1] in env:
                return Fraction(env[e[1]])
            if e[1] in loc:
                return xev(loc[e[1]], env, loc)
            raise Bad("unknown name %s" % e[1])
        if t == "neg":
            return -xev(e[1], env, loc)
        if t == "ctor" and len(e[2]) == 1:
            return xev(e[2][0], env, loc)
        if t == "cond":
            return xev(e[2], env, loc) if xev(e[1], env, loc) else xev(e[3], env, loc)
        if t == "op":
            a, b = xev(e[2], env, loc), xev(e[3], env, loc)
            op = e[1]
            if op == "/":
                if b == 0:
                    raise Bad("division by zero in a root formula")
                return a / b
            return {"+": lambda: a + b, "-": lambda: a - b, "*": lambda: a * b, "<": lambda: Fraction(int(a < b)), ">": lambda: Fraction(int(a > b)),
                    "<=": lambda: Fraction(int(a <= b)), ">=": lambda: Fraction(int(a >= b)), "==": lambda: Fraction(int(a == b)),
                    "!=": lambda: Fraction(int(a != b)), "&&": lambda: Fraction(int(bool(a) and bool(b))), "||": lambda: Fraction(int(bool(a) or bool(b)))}[op]()
        if t == "call":
            nm = str(e[1]).split("::")[-1]
            args = [xev(a, env, loc) for a in e[2]]
            if nm == "sqrt":
                from math import isqrt
                v = args[0]
                if v < 0:
                    raise Bad("sqrt of a negative number")
                rn, rd = isqrt(v.numerator), isqrt(v.denominator)
                if rn * rn != v.numerator or rd * rd != v.denominator:
                    raise Bad("sqrt of a non-square rational")
                return Fraction(rn, rd)
            if nm in ("abs", "fabs"):
                return abs(args[0])
            if nm == "copysign":
                return abs(args[0]) * (1 if args[1] >= 0 else -1)
            if nm == "min":
                return min(args)
            if nm == "max":
                return max(args)
        raise Bad("cannot evaluate `%s` exactly" % A.show(e)[:50])

    # quadratics A (x - r1)(x - r2) with rational roots r1 < r2, by sign of A and of B = -A (r1 + r2)
    def quad_instances(sa, sb):
        roots = [(1, 3), (-1, 4), (Fraction(1, 2), 5)] if sa * sb < 0 else [(-3, -1), (-4, 1), (-5, Fraction(-1, 2))]
        out = []
        for (r1, r2), a in zip(roots, (2, 5, 3)):
            a = a * sa
            out.append((Fraction(a), Fraction(-a) * (r1 + r2), Fraction(a) * r1 * r2, Fraction(r1), Fraction(r2)))
        return out

    def run_case(kind, cls, sc=(1, 1)):
        """kind: const | linear | quad0 (no real roots) | quad2 ; cls: position class(es) of the root(s); sc: signs of (A, B) for quad2.
        returns the linear combination {point: coeff} inside the final abs()."""
        nums = {"const": {"A": 0, "B": 0}, "linear": {"A": 0, "B": 3}, "quad0": {"A": 2, "B": 3}, "quad2": {"A": 2 * sc[0], "B": 3 * sc[1]}}[kind]
        env = {}           # variable -> abstract point name or ('lin', dict)
        pos = {"t0": "t0", "t1": "t1", "inf": "R"}
        if kind == "linear":
            pos["r"] = cls[0]
        if kind == "quad2":
            pos["r1"], pos["r2"] = cls
        lam = {}

        def point(e):
            """abstract point denoted by expression e"""
            t = re.sub(r"\s", "", A.show(e))
            if e[0] == "ref" and e[1] in ("t0", "t1"):
                return e[1]
            if e[0] == "ref" and e[1] in env:
                return env[e[1]]
            if "infinity" in t:
                return "inf"
            if e[0] == "call":
                nm = str(e[1]).split("::")[-1]
                if nm in ("clamp", "min", "max"):
                    args = [point(a) for a in e[2]]
                    if nm == "clamp":
                        return pmax(pmin(args[0], args[2]), args[1])
                    return pmin(*args) if nm == "min" else pmax(*args)
            # root formulas
            if kind == "linear":
                try:
                    if all(pe.ev(e, {"A": 0, "B": b, "C": c}) == Fraction(-c, b) for b, c in ((3, 5), (-2, 7))):
                        return "r"
                except pe.PEError:
                    pass
            if kind == "quad2":
                which = set()
                for a, b, c, r1, r2 in quad_instances(*sc):
                    v = xev(e, {"A": a, "B": b, "C": c}, locals_)
                    which.add("r1" if v == r1 else ("r2" if v == r2 else "?"))
                if which == {"r1"} or which == {"r2"}:
                    return which.pop()
                if "?" not in which:
                    raise Bad("`%s` is the smaller root for some coefficients and the larger one for others within one sign case" % A.show(e)[:40])
            raise Bad("cannot interpret `%s` as a point" % A.show(e)[:60])

        def res_env(a, b, c):
            out = {}
            for n, ex in locals_.items():
                try:
                    out[n] = pe.ev(ex, {"A": a, "B": b, "C": c})
                except pe.PEError:
                    pass
            return out

        def rank(p):
            c = pos[p]
            return (POS[c], {"r1": 0, "r": 0, "r2": 1}.get(p, 0))

        def pmin(a, b):
            if a == b:
                return a
            ra, rb = rank(a), rank(b)
            if ra == rb:
                raise Bad("order of %s and %s undetermined" % (a, b))
            return a if ra < rb else b

        def pmax(a, b):
            if a == b:
                return a
            ra, rb = rank(a), rank(b)
            if ra == rb:
                raise Bad("order of %s and %s undetermined" % (a, b))
            return a if ra > rb else b

        def lin(e):
            if e[0] == "num":
                return {(): Fraction(e[1])}
            if e[0] in ("call", "sub") and ((e[0] == "call" and e[1] in lam) or (e[0] == "sub" and e[1][0] == "ref" and e[1][1] in lam)):
                arg = e[2][0]
                p = point(arg)
                p = {"inf": "t1"}.get(p, p) if False else p
                return {p: Fraction(1)}
            if e[0] == "op" and e[1] in ("+", "-"):
                a, b = lin(e[2]), lin(e[3])
                out = dict(a)
                for k, v in b.items():
                    out[k] = out.get(k, 0) + (v if e[1] == "+" else -v)
                return out
            if e[0] == "op" and e[1] == "*":
                a, b = lin(e[2]), lin(e[3])
                if set(a) == {()}:
                    return {k: v * a[()] for k, v in b.items()}
                if set(b) == {()}:
                    return {k: v * b[()] for k, v in a.items()}
            if e[0] == "neg":
                return {k: -v for k, v in lin(e[1]).items()}
            raise Bad("cannot interpret `%s` as a combination of antiderivative values" % A.show(e)[:60])

        locals_ = {}

        def cond(e):
            t = re.sub(r"\s", "", A.show(e))
            if e[0] == "op" and e[1] == "&&":
                return cond(e[2]) and cond(e[3])
            if e[0] == "op" and e[1] == "||":
                return cond(e[2]) or cond(e[3])
            if e[0] == "op" and e[1] in ("<", ">", "<=", ">=") and e[2][0] == "call" and str(e[2][1]).split("::")[-1] == "abs":
                v = abs(nums[e[2][2][0][1]])
                thr = pe.ev(e[3], {})
                return {"<": v < thr, ">": v > thr, "<=": v <= thr, ">=": v >= thr}[e[1]]
            if e[0] == "op" and e[1] in (">", ">=") and e[2][0] == "ref" and e[2][1] in locals_ and e[3] == ("num", 0):
                return kind == "quad2"      # discriminant-like quantity positive exactly when there are two distinct real roots
            try:
                return bool(xev(e, dict(nums), {}))       # comparisons of the coefficients themselves (A == 0, B != 0, ...)
            except Bad:
                pass
            raise Bad("condition `%s`" % t[:60])

        result = {}

        def ex(stmt):
            k = stmt.get("kind")
            if k == "CompoundStmt":
                for c in A.kids(stmt):
                    ex(c)
            elif k == "DeclStmt":
                for v in A.kids(stmt):
                    if v.get("kind") != "VarDecl" or not A.kids(v):
                        continue
                    e = A.to_expr(A.kids(v)[-1])
                    if e[0] == "lambda":
                        lam[v.get("name")] = e[1]
                    else:
                        try:
                            env[v.get("name")] = point(e)
                        except Bad:
                            locals_[v.get("name")] = e
            elif k == "IfStmt":
                ks = A.kids(stmt)
                if cond(A.to_expr(ks[0])):
                    ex(ks[1])
                elif len(ks) > 2:
                    ex(ks[2])
            elif k in ("BinaryOperator", "CXXOperatorCallExpr", "ExprWithCleanups"):
                e = A.to_expr(stmt)
                if e[0] == "op" and e[1] == "=" and e[2][0] == "ref":
                    env[e[2][1]] = point(e[3])
                else:
                    raise Bad("statement %s" % A.show(e)[:50])
            elif k == "ReturnStmt":
                e = A.to_expr(A.kids(stmt)[0])
                if not (e[0] == "call" and str(e[1]).split("::")[-1] == "abs"):
                    raise Bad("result is not the absolute value of a signed sum")
                result["v"] = lin(e[2][0])
            else:
                raise Bad("statement kind %s" % k)
        ex(body)
        if "v" not in result:
            raise Bad("no return")
        # antiderivative check
        for n, node in lam.items():
            lb = A.lambda_body(node)
            rets = [x for x in A.walk(lb) if x.get("kind") == "ReturnStmt"]
            pn = [p.get("name") for x in A.kids(node) if x.get("kind") == "CXXRecordDecl" for m in A.kids(x) if m.get("kind") == "CXXMethodDecl" and m.get("name") == "operator()" for p in A.params(m)]
            u = pn[0] if pn else "u"
            e = A.to_expr(A.kids(rets[0])[0])
            for (a, b, c, uu) in ((2, 3, 5, 7), (-1, 4, 9, Fraction(1, 2)), (5, -6, 1, -3)):
                if pe.ev(e, {"A": a, "B": b, "C": c, u: uu}) != Fraction(a) * uu ** 3 / 3 + Fraction(b) * uu ** 2 / 2 + c * uu:
                    raise Bad("lambda %s is not the antiderivative A u^3/3 + B u^2/2 + C u" % n)
        out = {}
        for p, c in result["v"].items():
            q = "t1" if p == "inf" else p
            out[q] = out.get(q, 0) + c
        return {p: c for p, c in out.items() if c != 0}

    def expected(kind, cls):
        roots = {"const": [], "linear": ["r"], "quad0": [], "quad2": ["r1", "r2"]}[kind]
        cl = []
        for p, c in zip(roots, cls):
            cl.append({"L": "t0", "t0": "t0", "I": p, "t1": "t1", "R": "t1"}[c])
        while len(cl) < 2:
            cl.append("t1")
        want = {}
        for p, c in (("t1", 1), ("t0", -1), (cl[0], 2), (cl[1], -2)):
            want[p] = want.get(p, 0) + c
        return {p: c for p, c in want.items() if c != 0}
    cases = [("const", (), (1, 1)), ("quad0", (), (1, 1))] + [("linear", (c,), (1, 1)) for c in ("L", "I", "R")] + \
            [("quad2", c, sc_) for c in (("L", "L"), ("L", "I"), ("L", "R"), ("I", "I"), ("I", "R"), ("R", "R")) for sc_ in ((1, 1), (1, -1), (-1, 1), (-1, -1))]
    for kind, cls, sc_ in cases:
        inst = "%s%s" % (kind, list(cls)) + (" A%s B%s" % ("+" if sc_[0] > 0 else "-", "+" if sc_[1] > 0 else "-") if kind == "quad2" else "")
        try:
            got = run_case(kind, cls, sc_)
        except (Bad, pe.PEError, KeyError) as ex_:
            rep.broke("I1: cannot analyse case %s: %s" % (inst, ex_))
            continue
        want = expected(kind, cls)
        neg = {p: -c for p, c in want.items()}
        ok = got == want or got == neg
        rep.instance("I1", "integrate_absolute_polynomial", inst, ok=ok, sample={"file": fe.rel(fn.file), "line": fn.line, "combination": {k: str(v) for k, v in got.items()}})
        if not ok:
            rep.violation(Finding("I1", "integrate_absolute_polynomial", inst,
                                  "with %s (positions of the root(s) relative to [t0,t1]: %s) the function returns |%s| in terms of the antiderivative F, "
                                  "but the integral of |p| over [t0,t1] is |%s| (each root must be clamped into the interval from both sides)"
                                  % ({"const": "a constant integrand", "linear": "a linear integrand", "quad0": "a quadratic without real roots",
                                      "quad2": "a quadratic with two real roots"}[kind], list(cls),
                                     " + ".join("%s*F(%s)" % (c, p) for p, c in sorted(got.items())),
                                     " + ".join("%s*F(%s)" % (c, p) for p, c in sorted(want.items()))), fn.file, fn.line))


# ---- I3: dimensional consistency of the degeneracy tests of integrate_absolute_polynomial -------------------------------------

def check_i3(rep):
    """The integrand A t^2 + B t + C has a value unit V and a time unit T: A ~ V T^-2, B ~ V T^-1, C ~ V, t0, t1 ~ T.  The integral is
    homogeneous in both (scale the coefficients, or rescale time, and it scales accordingly), so every comparison that selects a case must
    compare quantities of equal dimension (or compare with 0).  A coefficient compared with a bare number is an absolute threshold: for
    small coefficients on long intervals (or large ones on short intervals) the wrong case is selected."""
    import astlib as A
    import fe
    from report import Finding
    rep.rule("I3", "integrate_absolute_polynomial: every case-selecting comparison is dimensionally consistent (no absolute thresholds on A, B, C)", minimum=2)
    idx = A.index(fe.ast_dump("integrate_absolute_polynomial"))
    fns = [d for d in idx if d.kind in A.FUNCS and d.pattern and d.qname.split("::")[-1] == "integrate_absolute_polynomial" and A.body(d.node) is not None]
    if len(fns) != 1:
        rep.broke("I3: integrate_absolute_polynomial not found")
        return
    fn = fns[0]
    ps = [p_.get("name") for p_ in A.params(fn.node)]
    if len(ps) != 5:
        rep.broke("I3: integrate_absolute_polynomial has %d parameters" % len(ps))
        return
    t0, t1, pa, pb, pc = ps
    base = {t0: (0, 1), t1: (0, 1), pa: (1, -2), pb: (1, -1), pc: (1, 0)}      # (V exponent, T exponent)
    locs = {}
    for x in A.walk(A.body(fn.node)):
        if x.get("kind") == "VarDecl" and A.kids(x) and x.get("name"):
            locs[x.get("name")] = A.to_expr(A.kids(x)[-1])

    class DErr(Exception):
        pass

    def dim(e, depth=0):
        """dimension, or 'num' for a bare number, 'zero' for the literal 0 (compatible with everything)"""
        t = e[0]
        if t == "num":
            return "zero" if e[1] == 0 else "num"
        if t == "ref":
            if e[1] in base:
                return base[e[1]]
            if e[1] in locs and depth < 10:
                return dim(locs[e[1]], depth + 1)
            raise DErr("name %s" % e[1])
        if t == "neg":
            return dim(e[1], depth)
        if t == "ctor" and len(e[2]) == 1:
            return dim(e[2][0], depth)
        if t == "call":
            nm = str(e[1]).split("::")[-1].split("<")[0]
            if nm in ("abs", "fabs") and len(e[2]) == 1:
                return dim(e[2][0], depth)
            if nm == "sqrt" and len(e[2]) == 1:
                d_ = dim(e[2][0], depth)
                return d_ if d_ in ("num", "zero") else (d_[0] / 2, d_[1] / 2)
            if nm in ("min", "max", "clamp"):
                ds = [dim(a, depth) for a in e[2]]
                real = [d_ for d_ in ds if d_ not in ("zero",)]
                return real[0] if real else "zero"
            if "infinity" in str(e[1]) or "numeric_limits" in str(e[1]):
                return "zero"
            raise DErr("call %s" % nm)
        if t == "op":
            a, b = dim(e[2], depth), dim(e[3], depth)
            if e[1] in ("+", "-"):
                real = [d_ for d_ in (a, b) if d_ != "zero"]
                return real[0] if real else "zero"
            if e[1] in ("*", "/"):
                da = (0, 0) if a in ("num", "zero") else a
                db = (0, 0) if b in ("num", "zero") else b
                if a in ("num", "zero") and b in ("num", "zero"):
                    return "num"
                sg = 1 if e[1] == "*" else -1
                return (da[0] + sg * db[0], da[1] + sg * db[1])
        if t in ("member", "mcall", "other"):
            if "infinity" in A.show(e):
                return "zero"
        raise DErr("expression %s" % A.show(e)[:40])
    found = 0
    for x in A.walk(A.body(fn.node)):
        if x.get("kind") != "IfStmt":
            continue
        conds = []

        def flat(c):
            if c[0] == "op" and c[1] in ("&&", "||"):
                flat(c[2])
                flat(c[3])
            else:
                conds.append(c)
        flat(A.to_expr(A.kids(x)[0]))
        for c in conds:
            if not (c[0] == "op" and c[1] in ("<", "<=", ">", ">=", "==", "!=")):
                continue
            found += 1
            f, l = A.loc(x)
            try:
                dl, dr = dim(c[2]), dim(c[3])
            except DErr as ex:
                rep.broke("I3: cannot type `%s`: %s" % (A.show(c)[:50], ex))
                continue
            norm = lambda d_: (0, 0) if d_ == "num" else d_
            ok = dl == "zero" or dr == "zero" or norm(dl) == norm(dr)
            inst = A.show(c).replace(" ", "")[:40]
            rep.instance("I3", "integrate_absolute_polynomial", inst, ok=ok, sample={"file": fe.rel(f), "line": l, "left": str(dl), "right": str(dr)})
            if not ok:
                def show(d_):
                    return "a pure number" if norm(d_) == (0, 0) else "V^%g T^%g" % norm(d_)
                rep.violation(Finding("I3", "integrate_absolute_polynomial", inst,
                                      "the case split `%s` compares %s with %s: an absolute threshold on a coefficient.  The integral is homogeneous in the value and time "
                                      "units, the threshold is not: e.g. |5e-10 t^2 - 1| on [0, 1e5] is treated as having constant sign (result 66666.67 instead of 126295.15)"
                                      % (A.show(c)[:50], show(dl), show(dr)), f, l))
    if found == 0:
        rep.broke("I3: no case-selecting comparison found")


# ---- I2: binary_interval_search by exhaustive abstract execution of its AST over an iterator/index machine ----------

def check_i2(rep, max_len=8):
    import itertools
    import astlib as A
    import fe
    from report import Finding
    rep.rule("I2", "binary_interval_search obeys its four documented cases for every sorted range up to length %d over a 4-letter alphabet and every query" % max_len, minimum=2)
    idx = A.index(fe.ast_dump("binary_interval_search"))
    fns = [d for d in idx if d.kind in A.FUNCS and d.pattern and d.qname.split("::")[-1] == "binary_interval_search" and A.body(d.node) is not None
           and len(A.params(d.node)) == 3]
    if len(fns) != 1:
        rep.broke("I2: three-argument binary_interval_search not found")
        return
    fn = fns[0]
    import mach
    from fractions import Fraction

    class Bad(Exception):
        pass

    class Fault(Exception):
        pass

    decls = {}
    for x in idx:
        if x.kind in A.FUNCS and x.pattern and A.body(x.node) is not None and x.file and x.file.startswith(fe.INCLUDE):
            if not any(y.file == x.file and y.line == x.line for y in decls.get(x.qname.split("::")[-1], [])):
                decls.setdefault(x.qname.split("::")[-1], []).append(x)

    def compare3(M, v):
        x, y = mach.simp(v[0]), mach.simp(v[1])
        return Fraction((x > y) - (x < y))

    def run(arr, t, numeric):
        """engine M: the AST of binary_interval_search is abstractly executed on an index machine (iterators are positions of a vector model; the
        comparator is three-way comparison; ranges::next saturates at its bound; casts to integer types truncate)"""
        def traits(M, n, env, _):
            if "is_convertible_v" in (n or ""):
                return numeric
            return NotImplemented
        M = mach.Machine(decls=decls, funcs={"name:*": mach.PyFunc(traits, lazy=True), "empty": mach.PyFunc(lambda M_, v: len(v[0].items) == 0)}, max_steps=20000)
        M.ieee_division = True
        M.global_env = mach.Env()
        vec = mach.Vec([Fraction(x) for x in arr], "r")
        try:
            r = M.run_function(fn, [mach.Cell(vec), mach.Cell(Fraction(t)), mach.Cell(mach.PyFunc(compare3))])
        except mach.AbstractViolation as ex:
            raise Fault(str(ex))
        except mach.Unab as ex:
            if "step limit" in str(ex):
                raise Fault("does not terminate")
            raise Bad(str(ex))
        r = M.rv(r)
        if not isinstance(r, mach.It) or r.v is not vec:
            raise Bad("returns %s, not an iterator of the range" % mach.show_val(r))
        return r.i

    def spec(arr, t):
        n = len(arr)
        if n == 0 or t < arr[0]:
            return [n]                 # not found: end()
        if t >= arr[-1]:
            return [n - 1]
        return [i for i in range(n - 1) if arr[i] <= t < arr[i + 1]]   # unique for sorted input

    alphabet = (0, 1, 2, 3)
    from fractions import Fraction as _F
    queries = [_F(x, 2) for x in range(-1, 8)]
    for numeric in (True, False):
        bad = None
        cases = 0
        try:
            for n in range(0, max_len + 1):
                for arr in itertools.combinations_with_replacement(alphabet, n):
                    for t in queries:
                        cases += 1
                        try:
                            got = run(list(arr), t, numeric)
                        except Fault as fl:
                            if bad is None:
                                bad = (arr, t, "it " + str(fl), spec(list(arr), t))
                            continue
                        want = spec(list(arr), t)
                        if got not in want and bad is None:
                            bad = (arr, t, "returns position %s" % got, want)
        except Bad as ex_:
            rep.broke("I2: cannot interpret binary_interval_search (%s path): %s" % ("interpolating" if numeric else "bisection", ex_))
            continue
        mode = "interpolating (numeric values)" if numeric else "bisection (non-numeric values)"
        rep.instance("I2", "binary_interval_search", mode, ok=bad is None, sample={"file": fe.rel(fn.file), "line": fn.line, "ranges_x_queries": cases})
        if bad:
            rep.violation(Finding("I2", "binary_interval_search", mode,
                                  "for the sorted range %s and query %s the %s search %s; the documented cases require position %s "
                                  "(end() = %d means not found)" % (list(bad[0]), bad[1], mode.split()[0], bad[2], bad[3], len(bad[0])), fn.file, fn.line))
