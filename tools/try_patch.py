#!/usr/bin/env python3
"""try_patch.py <patch.diff> <property> [more properties]: applies a patch to a scratch copy of /repo's include tree under /tmp (removed afterwards) and runs the
quick checks against it; prints exit code and the report lines.  A development aid, not a registered check."""
import os, re, shutil, subprocess, sys, tempfile
VERIF = os.path.dirname(os.path.dirname(os.path.abspath(__file__)))
patch, props = sys.argv[1], sys.argv[2:]
d = tempfile.mkdtemp(prefix="smooth-tp-")
try:
    for sub in ("include", "config"):
        shutil.copytree(os.path.join("/repo", sub), os.path.join(d, sub))
    shutil.copy("/repo/CMakeLists.txt", d)
    r = subprocess.run(["patch", "-p1", "-s", "-f", "-i", os.path.abspath(patch)], cwd=d, capture_output=True, text=True)
    if r.returncode != 0:
        print("PATCH DOES NOT APPLY", r.stdout[-300:]); sys.exit(3)
    for prop in props:
        env = dict(os.environ, VERIF_REPO=d, VERIF_EVIDENCE_DIR=os.path.join(d, "evidence"), VERIF_TIER="quick")
        r = subprocess.run([os.path.join(VERIF, "check"), prop, "--tier", "quick"], capture_output=True, text=True, env=env, timeout=3600)
        lines = [l.strip()[:360] for l in r.stdout.splitlines() if l.startswith(("  [", "ANALYSIS-BROKEN"))][:4]
        print("%s exit %d %s" % (prop, r.returncode, sorted(set(re.findall(r"^  \[([\w.]+)\]", r.stdout, re.M)))))
        for l in lines:
            print("    " + l)
finally:
    shutil.rmtree(d, ignore_errors=True)
