"""C20 -- polynomial, quadrature and search utilities equal their definitions (constexpr tables, K = 0..10; LGR 1..16)."""
import tables


def check(rep, tier, replay=None):
    rep.explanations.append(
        "C20: every constexpr coefficient table of polynomial/basis.hpp for K=0..10 is compared, inside the compiler's constant "
        "evaluator, with the mathematical definition computed independently with exact rationals (Bernstein closed form, "
        "Cox-de Boor cardinal B-spline pieces, three-term recurrences), plus partition of unity, cumulative-basis shape, "
        "monomial_derivative(s)/monomial_integral closed forms, Lagrange Kronecker property and LGR exactness.  Identities are in "
        "coefficient space and therefore hold for every evaluation point.")
    rep.assumptions.append("integrate_absolute_polynomial is decided in exact arithmetic (rule I1), not its 1e-9 rounding; binary_interval_search is decided for ranges up to length 8 over a 4-letter alphabet (rule I2), longer ranges are not covered")
    second = tier == "thorough"
    tables.run(rep, "W.basis", tables.basis_witnesses(10), "coefficient tables == definitions; cumulative shape; partition of unity (K=0..10)", 120, second)
    tables.run(rep, "W.util", tables.utility_witnesses(10), "monomial_derivative(s), monomial_integral, lagrange_basis, lgr_nodes", 80, second)
    rep.unit("2 batched static_assert TUs over polynomial/basis.hpp, polynomial/quadrature.hpp")
    check_i1(rep)
    check_i2(rep, 8 if tier == "thorough" else 7)


# ---- I1: integrate_absolute_polynomial by exhaustive case analysis over the ordering of roots and interval ends ------

def check_i1(rep):
    """I1 on engine M: integrate_absolute_polynomial (with whatever helpers it calls) is abstractly executed over exact rationals -- sqrt of the perfect-square
    discriminants chosen here is exact, +infinity is the IEEE special -- for every ordering of the sign changes relative to [t0, t1] (left / on t0 / inside /
    on t1 / right, all pairs), both signs of A and both signs of B (mirrored interval), the degenerate kinds (constant, linear, no real root, double root) and an
    empty interval; the result must equal the exact integral of |A t^2 + B t + C| obtained by splitting at the roots."""
    from fractions import Fraction
    import astlib as A
    import fe
    import mach
    from report import Finding
    rep.rule("I1", "integrate_absolute_polynomial, abstractly executed over exact rationals: for every ordering of the sign changes relative to [t0, t1] and every sign of "
             "(A, B), also with values scaled by 1e-12 / 1e12 and time by 1e-6 / 1e6, the result is the exact integral of |A t^2 + B t + C|", minimum=500)
    idx = A.index(fe.ast_dump("integrate_absolute_polynomial"))
    fns = [d for d in idx if d.kind in A.FUNCS and d.pattern and d.qname.split("::")[-1] == "integrate_absolute_polynomial" and A.body(d.node) is not None]
    if len(fns) != 1:
        rep.broke("I1: integrate_absolute_polynomial not found")
        return
    fn = fns[0]
    decls = {"integrate_absolute_polynomial": [fn]}

    def minmax(M, v):
        a, b = v
        lo, hi = (b, a) if M.compare("<", b, a) else (a, b)
        return mach.Tup([mach.Cell(lo), mach.Cell(hi)])

    def copysign(M, v):
        a = v[0] if not M.compare("<", v[0], Fraction(0)) else M.arith("-", Fraction(0), v[0])
        return a if not M.compare("<", v[1], Fraction(0)) else M.arith("-", Fraction(0), a)

    def exact(t0, t1, A_, B_, C_):
        F = lambda u: A_ * u ** 3 / 3 + B_ * u ** 2 / 2 + C_ * u
        roots = []
        if A_ == 0:
            if B_ != 0:
                roots = [-C_ / B_]
        else:
            disc = B_ * B_ - 4 * A_ * C_
            if disc > 0:
                from math import isqrt
                sn, sd = isqrt(disc.numerator), isqrt(disc.denominator)
                assert sn * sn == disc.numerator and sd * sd == disc.denominator
                sq = Fraction(sn, sd)
                roots = sorted([(-B_ - sq) / (2 * A_), (-B_ + sq) / (2 * A_)])
        pts = [t0] + [r for r in roots if t0 < r < t1] + [t1]
        return sum(abs(F(b) - F(a)) for a, b in zip(pts, pts[1:]))

    cases = []
    for mirror in (1, -1):
        lo, hi = (Fraction(1), Fraction(4)) if mirror == 1 else (Fraction(-4), Fraction(-1))
        cls = {"L": [-3, -1], "t0": [1], "I": [2, 3], "t1": [4], "R": [6, 8]}
        vals = lambda c, k=0: Fraction(mirror * cls[c][k])
        for C_ in (2, -2, 0):
            cases.append(("constant", lo, hi, Fraction(0), Fraction(0), Fraction(C_)))
        for sb in (3, -3):
            for c in cls:
                r = vals(c)
                cases.append(("linear root %s" % c, lo, hi, Fraction(0), Fraction(sb), -Fraction(sb) * r))
        for sa in (2, -2):
            for sb in (3, -3, 0):
                cases.append(("no real root", lo, hi, Fraction(sa), Fraction(sb), Fraction(sa) * 5))
            for c in cls:
                r = vals(c)
                cases.append(("double root %s" % c, lo, hi, Fraction(sa), -2 * Fraction(sa) * r, Fraction(sa) * r * r))
            order = ["L", "t0", "I", "t1", "R"]
            for i, c1 in enumerate(order):
                for c2 in order[i:]:
                    if c1 == c2 and len(cls[c1]) < 2:
                        continue
                    r1, r2 = (vals(c1, 0), vals(c2, 1 if c1 == c2 else 0))
                    r1, r2 = min(r1, r2), max(r1, r2)
                    cases.append(("roots %s, %s" % ((c1, c2) if mirror == 1 else (c2, c1)), lo, hi, Fraction(sa), -Fraction(sa) * (r1 + r2), Fraction(sa) * r1 * r2))
        cases.append(("empty interval", lo, lo, Fraction(2), Fraction(-3), Fraction(1)))
    # the integral is homogeneous in the value unit and in the time unit: every case is also executed with the coefficients scaled by 1e-12 / 1e12 and with
    # time rescaled by 1e-6 / 1e6 (t -> lambda t, A -> A / lambda^2, B -> B / lambda).  A case split that compares a coefficient with an absolute threshold
    # selects the wrong case for some of these (formerly rule I3, a dimension analysis of the comparisons)
    scaled = []
    for what, t0, t1, A_, B_, C_ in cases:
        scaled.append((what, t0, t1, A_, B_, C_))
        for sv in (Fraction(1, 10 ** 12), Fraction(10 ** 12)):
            scaled.append((what + " (values x %s)" % ("1e-12" if sv < 1 else "1e12"), t0, t1, A_ * sv, B_ * sv, C_ * sv))
        for lt in (Fraction(1, 10 ** 6), Fraction(10 ** 6)):
            scaled.append((what + " (time x %s)" % ("1e-6" if lt < 1 else "1e6"), t0 * lt, t1 * lt, A_ / (lt * lt), B_ / lt, C_))
    nviol = 0
    for what, t0, t1, A_, B_, C_ in scaled:
        inst = "%s: [%s, %s], (A, B, C) = (%s, %s, %s)" % (what, t0, t1, A_, B_, C_)
        M = mach.Machine(decls=decls, funcs={"minmax": mach.PyFunc(minmax), "copysign": mach.PyFunc(copysign), "infinity": mach.PyFunc(lambda M_, v: float("inf")),
                                               "isfinite": mach.PyFunc(lambda M_, v: not isinstance(v[0], float)), "isinf": mach.PyFunc(lambda M_, v: isinstance(v[0], float))})
        M.global_env = mach.Env()
        M.ieee_division = True
        try:
            r = M.rv(M.run_function(fn, [mach.Cell(x) for x in (t0, t1, A_, B_, C_)]))
        except mach.Unab as ex:
            rep.broke("I1: integrate_absolute_polynomial is outside the abstract machine (%s): %s" % (inst, ex))
            return
        except mach.AbstractViolation as ex:
            rep.instance("I1", "integrate_absolute_polynomial", inst, ok=False, sample={})
            nviol += 1
            if nviol <= 3:
                rep.violation(Finding("I1", "integrate_absolute_polynomial", inst, "%s: %s" % (inst, ex), fn.file, fn.line))
            continue
        want = exact(t0, t1, A_, B_, C_)
        ok = isinstance(mach.simp(r), Fraction) and mach.simp(r) == want
        rep.instance("I1", "integrate_absolute_polynomial", inst, ok=ok, sample={})
        if not ok:
            nviol += 1
            if nviol <= 3:
                rep.violation(Finding("I1", "integrate_absolute_polynomial", inst, "for %s the function returns %s; the integral of |A t^2 + B t + C| over the interval is %s"
                                      % (inst, mach.show_val(r), want), fn.file, fn.line))


# ---- I3: dimensional consistency of the degeneracy tests of integrate_absolute_polynomial -------------------------------------

# ---- I2: binary_interval_search by exhaustive abstract execution of its AST over an iterator/index machine ----------

def check_i2(rep, max_len=8):
    import itertools
    import astlib as A
    import fe
    from report import Finding
    rep.rule("I2", "binary_interval_search obeys its four documented cases for every sorted range up to length %d over a 4-letter alphabet and every query" % max_len, minimum=2)
    idx = A.index(fe.ast_dump("binary_interval_search"))
    fns = [d for d in idx if d.kind in A.FUNCS and d.pattern and d.qname.split("::")[-1] == "binary_interval_search" and A.body(d.node) is not None
           and len(A.params(d.node)) == 3]
    if len(fns) != 1:
        rep.broke("I2: three-argument binary_interval_search not found")
        return
    fn = fns[0]
    import mach
    from fractions import Fraction

    class Bad(Exception):
        pass

    class Fault(Exception):
        pass

    decls = {}
    for x in idx:
        if x.kind in A.FUNCS and x.pattern and A.body(x.node) is not None and x.file and x.file.startswith(fe.INCLUDE):
            if not any(y.file == x.file and y.line == x.line for y in decls.get(x.qname.split("::")[-1], [])):
                decls.setdefault(x.qname.split("::")[-1], []).append(x)

    def compare3(M, v):
        x, y = mach.simp(v[0]), mach.simp(v[1])
        return Fraction((x > y) - (x < y))

    def run(arr, t, numeric):
        """engine M: the AST of binary_interval_search is abstractly executed on an index machine (iterators are positions of a vector model; the
        comparator is three-way comparison; ranges::next saturates at its bound; casts to integer types truncate)"""
        def traits(M, n, env, _):
            if "is_convertible_v" in (n or ""):
                return numeric
            return NotImplemented
        M = mach.Machine(decls=decls, funcs={"name:*": mach.PyFunc(traits, lazy=True), "empty": mach.PyFunc(lambda M_, v: len(v[0].items) == 0)}, max_steps=20000)
        M.ieee_division = True
        M.global_env = mach.Env()
        vec = mach.Vec([Fraction(x) for x in arr], "r")
        try:
            r = M.run_function(fn, [mach.Cell(vec), mach.Cell(Fraction(t)), mach.Cell(mach.PyFunc(compare3))])
        except mach.AbstractViolation as ex:
            raise Fault(str(ex))
        except mach.Unab as ex:
            if "step limit" in str(ex):
                raise Fault("does not terminate")
            raise Bad(str(ex))
        r = M.rv(r)
        if not isinstance(r, mach.It) or r.v is not vec:
            raise Bad("returns %s, not an iterator of the range" % mach.show_val(r))
        return r.i

    def spec(arr, t):
        n = len(arr)
        if n == 0 or t < arr[0]:
            return [n]                 # not found: end()
        if t >= arr[-1]:
            return [n - 1]
        return [i for i in range(n - 1) if arr[i] <= t < arr[i + 1]]   # unique for sorted input

    alphabet = (0, 1, 2, 3)
    from fractions import Fraction as _F
    queries = [_F(x, 2) for x in range(-1, 8)]
    for numeric in (True, False):
        bad = None
        cases = 0
        try:
            for n in range(0, max_len + 1):
                for arr in itertools.combinations_with_replacement(alphabet, n):
                    for t in queries:
                        cases += 1
                        try:
                            got = run(list(arr), t, numeric)
                        except Fault as fl:
                            if bad is None:
                                bad = (arr, t, "it " + str(fl), spec(list(arr), t))
                            continue
                        want = spec(list(arr), t)
                        if got not in want and bad is None:
                            bad = (arr, t, "returns position %s" % got, want)
        except Bad as ex_:
            rep.broke("I2: cannot interpret binary_interval_search (%s path): %s" % ("interpolating" if numeric else "bisection", ex_))
            continue
        mode = "interpolating (numeric values)" if numeric else "bisection (non-numeric values)"
        rep.instance("I2", "binary_interval_search", mode, ok=bad is None, sample={"file": fe.rel(fn.file), "line": fn.line, "ranges_x_queries": cases})
        if bad:
            rep.violation(Finding("I2", "binary_interval_search", mode,
                                  "for the sorted range %s and query %s the %s search %s; the documented cases require position %s "
                                  "(end() = %d means not found)" % (list(bad[0]), bad[1], mode.split()[0], bad[2], bad[3], len(bad[0])), fn.file, fn.line))
