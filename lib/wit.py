"""W -- witness engine: compile-fail (negative), compile-ok (positive) and static_assert witnesses.

* negative witnesses: ONE translation unit each (g++ reports an error inside a shared template instantiation
  only once per TU, so batching negatives is unsound), compiled against a per-run precompiled header;
  must produce >= 1 error.
* positive and static_assert witnesses: batched, each in its own namespace preceded by `#line 1 "W_<id>"`;
  must produce no error; errors are attributed to witnesses through the #line tags.
Nothing is linked or run.
"""
import os
import re

import fe


class Wit:
    def __init__(self, wid, code, decls="", what="", group=None):
        self.id = re.sub(r"[^A-Za-z0-9_]", "_", wid)
        self.code = code      # statements inside a function body
        self.decls = decls    # namespace-scope declarations (static_asserts, helper templates)
        self.what = what
        self.group = group


def _tu_text(prelude, wits):
    parts = [prelude, "\n"]
    for w in wits:
        parts.append('#line 1 "W_%s"\nnamespace w_%s {\n%s\nvoid f() {\n%s\n}\n}\n' % (w.id, w.id, w.decls, w.code))
    return "".join(parts)


def _flags(compiler):
    fl = fe.base_flags()
    if "g++" in os.path.basename(compiler) and "clang" not in compiler:
        fl = fl + ["-fmax-errors=0", "-ftemplate-backtrace-limit=0"]
    else:
        fl = fl + ["-ferror-limit=0", "-ftemplate-backtrace-limit=0"]
    return fl


def compile_batch(prelude, wits, compiler=None, name="batch"):
    """Returns (failed: {wid: [error lines]}, unattributed error lines, raw stderr)."""
    compiler = compiler or fe.gxx()
    p = os.path.join(fe.scratch(), "%s_%d.cpp" % (name, abs(hash((prelude, len(wits), name))) % 10**8))
    open(p, "w").write(_tu_text(prelude, wits))
    r = fe.run([compiler] + _flags(compiler) + ["-fsyntax-only", p], timeout=3000)
    failed = {}
    unattributed = []
    ids = {w.id for w in wits}
    lines = r.stderr.splitlines()
    # attribute every 'error' to the nearest W_ tag appearing in the same diagnostic block
    block = []

    def flush(block):
        if not block:
            return
        if not any(re.search(r"\berror\b", l) for l in block):
            return
        tags = set()
        for l in block:
            for m in re.finditer(r"W_([A-Za-z0-9_]+):\d+", l):
                if m.group(1) in ids:
                    tags.add(m.group(1))
        errs = [l for l in block if re.search(r"\berror\b", l)]
        if tags:
            for t in tags:
                failed.setdefault(t, []).extend(errs[:3])
        else:
            unattributed.extend(errs[:3])

    for l in lines:
        # a new diagnostic block starts with "In file included", "<file>: In ...", or a line with 'error:' after a blank context
        if re.match(r"^(In file included from|\S+: In |\S+: At global scope)", l):
            flush(block)
            block = [l]
        elif re.search(r": error: ", l) and any(re.search(r": error: ", b) for b in block):
            flush(block)
            block = [l]
        else:
            block.append(l)
    flush(block)
    if r.returncode != 0 and not failed and not unattributed:
        unattributed.append("compiler exited %d without a recognisable error line: %s" % (r.returncode, r.stderr[-500:]))
    return failed, unattributed, r.stderr


class PCH:
    """g++ precompiled header for per-TU negative witnesses."""

    def __init__(self, prelude, name="pre"):
        self.dir = os.path.join(fe.scratch(), "pch_" + name)
        os.makedirs(self.dir, exist_ok=True)
        self.h = os.path.join(self.dir, "pre.hpp")
        open(self.h, "w").write(prelude)
        r = fe.run([fe.gxx()] + fe.base_flags() + ["-x", "c++-header", self.h, "-o", self.h + ".gch"], timeout=1800)
        if r.returncode != 0:
            raise fe.Broken("cannot build precompiled header for witnesses:\n" + r.stderr[-2000:])

    def compile_one(self, w):
        p = os.path.join(self.dir, "n_%s.cpp" % w.id)
        open(p, "w").write('#line 1 "W_%s"\nnamespace w_%s {\n%s\nvoid f() {\n%s\n}\n}\n' % (w.id, w.id, w.decls, w.code))
        r = fe.run([fe.gxx()] + fe.base_flags() + ["-Winvalid-pch", "-include", self.h, "-fsyntax-only", p], timeout=600)
        errs = [l for l in r.stderr.splitlines() if re.search(r"\berror\b", l)]
        return r.returncode, errs, r.stderr

    def compile_many(self, wits):
        return fe.parallel(self.compile_one, wits)
