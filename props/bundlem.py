"""C06 semantic rule on engine M: every member function of the BundleImpl template is abstractly executed for an *abstract* three-part
composition whose parts have pairwise distinct representation sizes, degrees of freedom and matrix dimensions (so that any mix-up of the
index constants of different kinds, of part indices or of operations is visible), two of them non-commutative and one commutative.

Each PartImpl<i>::op is uninterpreted: called on input views it fills its output view with symbols named after (i, op, the exact cell ranges
of the input buffers it was given).  After the Bundle operation the *whole* output buffer is compared cell by cell with the direct-product
layout: block i of the output holds op_i applied to block i of every input (offsets by kind: representation / tangent / matrix), the identity
resp. zero block for commutative parts where the function documents that shortcut, zero everywhere else, and for the Hessians the documented
horizontally stacked placement H(Bi + r, Dof (Bi + j) + Bi + c) = H_i(r, Di j + c).

K.exec  decides, for all compositions at once (the template is executed, not an instance), what K1 / K3 described textually before."""
import re
from fractions import Fraction

import astlib as A
import fe
import mach
from mach import AbstractViolation, Cell, Machine, PyFunc, Unab, Vec, is_num, show_val, simp, sym
from report import Finding

# (RepSize, Dof, Dim, commutative)
PARTS = [(4, 3, 3, False), (2, 2, 3, True), (5, 4, 6, False)]
KINDS = {"Rep": 0, "Dof": 1, "Dim": 2}


def psum(k):
    out = [0]
    for p in PARTS:
        out.append(out[-1] + p[k])
    return out


TOT = {k: psum(i)[-1] for k, i in KINDS.items()}


class Buf:
    """an Eigen matrix / vector argument: a grid of cells"""

    def __init__(self, name, rows, cols, fill=None):
        self.name, self.rows, self.cols = name, int(rows), int(cols)
        self.c = {}
        for r in range(self.rows):
            for cc in range(self.cols):
                self.c[(r, cc)] = fill(r, cc) if fill else mach.UNSET

    def show(self):
        return "%s(%dx%d)" % (self.name, self.rows, self.cols)

    def __deepcopy__(self, memo):
        return self          # Eigen::Ref parameters alias the caller's storage; local matrices are never copied by the code under analysis

    def view(self, r0, c0, nr, nc):
        if r0 < 0 or c0 < 0 or nr < 0 or nc < 0 or r0 + nr > self.rows or c0 + nc > self.cols:
            raise AbstractViolation("block (%d, %d, %d x %d) outside %s" % (r0, c0, nr, nc, self.show()))
        return View(self, r0, c0, nr, nc)

    def whole(self):
        return View(self, 0, 0, self.rows, self.cols)

    def __getattr__(self, attr):
        if attr.startswith("m_"):
            w = self.whole()
            h = getattr(w, attr, None)
            if h is not None:
                return h
        raise AttributeError(attr)

    def index(self, M, idx):
        return self.whole().index(M, idx)

    def assign_from(self, M, v):
        self.whole().assign_from(M, v)


class View:
    def __init__(self, buf, r0, c0, nr, nc):
        self.buf, self.r0, self.c0, self.nr, self.nc = buf, r0, c0, nr, nc

    def show(self):
        return "%s[%d:%d, %d:%d]" % (self.buf.name, self.r0, self.r0 + self.nr, self.c0, self.c0 + self.nc)

    def key(self):
        return "%s[%d+%d,%d+%d]" % (self.buf.name, self.r0, self.nr, self.c0, self.nc)

    def __deepcopy__(self, memo):
        return self

    def ints(self, M, a, t):
        """template and run-time integer arguments"""
        ta = [int(simp(M.eval_targ(x))) for x in _split(t)] if t else []
        ra = [int(simp(x)) for x in a]
        return ta, ra

    def sub(self, r0, c0, nr, nc):
        if r0 < 0 or c0 < 0 or r0 + nr > self.nr or c0 + nc > self.nc or nr < 0 or nc < 0:
            raise AbstractViolation("sub-block (%d, %d, %d x %d) outside the %d x %d view %s" % (r0, c0, nr, nc, self.nr, self.nc, self.show()))
        return View(self.buf, self.r0 + r0, self.c0 + c0, nr, nc)

    def m_segment(self, M, a, t):
        ta, ra = self.ints(M, a, t)
        start = ra[0]
        n = ta[0] if ta else ra[1]
        return self.sub(start, 0, n, 1) if self.nc == 1 else self.sub(0, start, 1, n)

    def m_head(self, M, a, t):
        ta, ra = self.ints(M, a, t)
        n = ta[0] if ta else ra[0]
        return self.sub(0, 0, n, 1)

    def m_tail(self, M, a, t):
        ta, ra = self.ints(M, a, t)
        n = ta[0] if ta else ra[0]
        return self.sub(self.nr - n, 0, n, 1)

    def m_block(self, M, a, t):
        ta, ra = self.ints(M, a, t)
        if ta:
            return self.sub(ra[0], ra[1], ta[0], ta[1])
        return self.sub(ra[0], ra[1], ra[2], ra[3])

    def m_middleCols(self, M, a, t):
        ta, ra = self.ints(M, a, t)
        return self.sub(0, ra[0], self.nr, ta[0] if ta else ra[1])

    def m_middleRows(self, M, a, t):
        ta, ra = self.ints(M, a, t)
        return self.sub(ra[0], 0, ta[0] if ta else ra[1], self.nc)

    def m_leftCols(self, M, a, t):
        ta, ra = self.ints(M, a, t)
        return self.sub(0, 0, self.nr, ta[0] if ta else ra[0])

    def m_rightCols(self, M, a, t):
        ta, ra = self.ints(M, a, t)
        n = ta[0] if ta else ra[0]
        return self.sub(0, self.nc - n, self.nr, n)

    def m_topRows(self, M, a, t):
        ta, ra = self.ints(M, a, t)
        return self.sub(0, 0, ta[0] if ta else ra[0], self.nc)

    def m_bottomRows(self, M, a, t):
        ta, ra = self.ints(M, a, t)
        n = ta[0] if ta else ra[0]
        return self.sub(self.nr - n, 0, n, self.nc)

    def m_col(self, M, a, t):
        return self.sub(0, int(simp(a[0])), self.nr, 1)

    def m_row(self, M, a, t):
        return self.sub(int(simp(a[0])), 0, 1, self.nc)

    def m_topLeftCorner(self, M, a, t):
        ta, ra = self.ints(M, a, t)
        r, c = (ta if ta else ra)[:2]
        return self.sub(0, 0, r, c)

    def m_bottomRightCorner(self, M, a, t):
        ta, ra = self.ints(M, a, t)
        r, c = (ta if ta else ra)[:2]
        return self.sub(self.nr - r, self.nc - c, r, c)

    def m_noalias(self, M, a, t):
        return self

    m_eval = m_noalias
    m_derived = m_noalias

    def cells(self):
        return [(r, c) for r in range(self.r0, self.r0 + self.nr) for c in range(self.c0, self.c0 + self.nc)]

    def fill(self, f):
        for (r, c) in self.cells():
            self.buf.c[(r, c)] = f(r - self.r0, c - self.c0)

    def m_setZero(self, M, a, t):
        self.fill(lambda r, c: Fraction(0))
        return self

    def m_setIdentity(self, M, a, t):
        self.fill(lambda r, c: Fraction(1 if r == c else 0))
        return self

    def m_setConstant(self, M, a, t):
        self.fill(lambda r, c: a[0])
        return self

    def m_rows(self, M, a, t):
        return Fraction(self.nr)

    def m_cols(self, M, a, t):
        return Fraction(self.nc)

    def m_size(self, M, a, t):
        return Fraction(self.nr * self.nc)

    def index(self, M, idx):
        if len(idx) == 1:
            k = int(simp(idx[0]))
            r, c = (k, 0) if self.nc == 1 else (0, k)
        else:
            r, c = int(simp(idx[0])), int(simp(idx[1]))
        if not (0 <= r < self.nr and 0 <= c < self.nc):
            raise AbstractViolation("element (%d, %d) outside the view %s" % (r, c, self.show()))
        return mach.ItemRef(self.buf.c, (self.r0 + r, self.c0 + c))

    def assign_from(self, M, v):
        v = M.rv(v)
        if isinstance(v, Buf):
            v = v.whole()
        if isinstance(v, View):
            if (v.nr, v.nc) != (self.nr, self.nc):
                raise AbstractViolation("assignment of a %d x %d block to the %d x %d block %s" % (v.nr, v.nc, self.nr, self.nc, self.show()))
            vals = {(r, c): v.buf.c[(v.r0 + r, v.c0 + c)] for r in range(v.nr) for c in range(v.nc)}
            self.fill(lambda r, c: vals[(r, c)])
            return
        if isinstance(v, Const):
            if v.shape and v.shape != (self.nr, self.nc):
                raise AbstractViolation("assignment of a %d x %d constant to the %d x %d block %s" % (v.shape[0], v.shape[1], self.nr, self.nc, self.show()))
            self.fill(v.f)
            return
        raise Unab("assignment of %s to the block %s" % (show_val(v), self.show()))


class Const:
    """Matrix::Identity() / Zero() / Constant(c)"""

    def __init__(self, f, shape=None, name="const"):
        self.f, self.shape, self.name = f, shape, name

    def show(self):
        return self.name


def _split(s):
    out, depth, cur = [], 0, ""
    for ch in s or "":
        if ch in "<(":
            depth += 1
        elif ch in ">)":
            depth -= 1
        if ch == "," and depth == 0:
            out.append(cur)
            cur = ""
        else:
            cur += ch
    if cur.strip():
        out.append(cur)
    return [x.strip() for x in out]


class BundleMachine(Machine):
    def __init__(self, decls, **kw):
        super().__init__(decls=decls, type_factory=self.types, **kw)
        self.global_env = g = mach.Env()
        for kind, i in KINDS.items():
            nm = {"Rep": "RepSizes", "Dof": "Dofs", "Dim": "Dims"}[kind]
            v = Vec([Fraction(p[i]) for p in PARTS], nm)
            v.ints = True
            g.bind(nm, Cell(v))
            ps = Vec([Fraction(x) for x in psum(i)], nm + "Psum")
            g.bind(nm + "Psum", Cell(ps))
        g.bind("RepSize", Cell(Fraction(TOT["Rep"]), True))
        g.bind("Dof", Cell(Fraction(TOT["Dof"]), True))
        g.bind("Dim", Cell(Fraction(TOT["Dim"]), True))
        g.bind("BundleSize", Cell(Fraction(len(PARTS)), True))
        self.calls = []
        f = self.funcs
        f["static_for"] = PyFunc(self.static_for, lazy=True)
        f["get"] = PyFunc(self.get, lazy=True)
        f["name:*"] = PyFunc(self.other_name, lazy=True)
        f["call:*"] = PyFunc(self.part_call, lazy=True)
        f["Identity"] = PyFunc(lambda M, args, env, name: self.const(name, lambda r, c: Fraction(1 if r == c else 0)), lazy=True)
        f["Zero"] = PyFunc(lambda M, args, env, name: self.const(name, lambda r, c: Fraction(0)), lazy=True)

    def const(self, name, fn):
        m = re.match(r"^(?:Eigen::)?Matrix<(.*)>::(\w+)$", (name or "").replace(" ", ""))
        shape = None
        if m:
            parts = _split(m.group(1))
            if len(parts) >= 3:
                shape = (int(simp(self.eval_targ(parts[1]))), int(simp(self.eval_targ(parts[2]))))
        return Const(fn, shape, name or "const")

    def eval_targ(self, t, env=None):
        env = env or getattr(self, "call_env", None) or self.global_env
        t = (t or "").strip()
        if re.match(r"^-?\d+$", t):
            return Fraction(int(t))
        toks = re.findall(r"get<\w+>\(\w+\)|PartImpl<\w+>::\w+|[A-Za-z_]\w*::\w+|[A-Za-z_]\w*|\d+|[()+\-*/]", t)
        out = []
        for k in toks:
            m = re.match(r"^get<(\w+)>\((\w+)\)$", k)
            if "::" in k:
                v = simp(self.rv(self.other_name(self, k, env, None)))
                if not isinstance(v, Fraction):
                    raise Unab("template argument %s" % k)
                out.append(str(int(v)))
            elif m:
                arr = self.rv(self.name(m.group(2), env))
                i = int(simp(self.eval(("ref", m.group(1), None), env)))
                out.append(str(int(simp(arr.items[i]))))
            elif re.match(r"^\d+$", k) or k in "()+-*/":
                out.append(k)
            else:
                v = simp(self.eval(("ref", k, None), env))
                if not isinstance(v, Fraction):
                    raise Unab("template argument %s" % k)
                out.append(str(int(v)))
        try:
            return Fraction(eval("".join(out).replace("/", "//"), {"__builtins__": {}}))
        except Exception:
            raise Unab("template argument expression %s" % t)

    def on_type_alias(self, name, ty, env):
        """using Part = PartImpl<i>;  -- remembered with the current value of i"""
        m = re.match(r"^(?:typename)?PartImpl<(\w+)>$", ty)
        if m:
            i = m.group(1)
            k = int(i) if i.isdigit() else int(simp(self.eval(("ref", i, None), env)))
            env.bind("type:" + name, Cell("PartImpl<%d>" % k))

    def unalias(self, t, env):
        m = re.match(r"^(\w+)::(.*)$", t)
        if m:
            r = env.find("type:" + m.group(1))
            if r is not None:
                return self.rv(r) + "::" + m.group(2)
        return t

    def static_for(self, M, args, env, name):
        m = re.search(r"static_for<(.*)>$", name or "")
        t = m.group(1) if m else ""
        if "sizeof..." in t or t == "BundleSize":
            n = len(PARTS)
        else:
            n = int(simp(self.eval_targ(t)))
        fn = self.eval(args[0], env)
        for i in range(n):
            self.apply(fn, [Cell(Fraction(i), True)], None, env)

    def get(self, M, args, env, name):
        m = re.search(r"get<(\w+)>", name or "")
        arr = M.eval(args[0], env)
        k = m.group(1)
        i = int(k) if k.isdigit() else int(simp(M.eval(("ref", k, None), env)))
        if not isinstance(arr, Vec) or not (0 <= i < len(arr.items)):
            raise AbstractViolation("get<%d> of %s" % (i, show_val(arr)))
        return arr.items[i]

    def other_name(self, M, n, env, _):
        t = self.unalias((n or "").replace(" ", "").replace("template", "").replace("typename", ""), env)
        m = re.match(r"^PartImpl<(\w+)>::(IsCommutative|RepSize|Dof|Dim)$", t)
        if m:
            i = int(m.group(1)) if m.group(1).isdigit() else int(simp(self.eval(("ref", m.group(1), None), env)))
            if not (0 <= i < len(PARTS)):
                raise AbstractViolation("PartImpl<%d> of a %d-part bundle" % (i, len(PARTS)))
            return {"IsCommutative": PARTS[i][3], "RepSize": Fraction(PARTS[i][0]), "Dof": Fraction(PARTS[i][1]), "Dim": Fraction(PARTS[i][2])}[m.group(2)]
        if "sizeof..." in t:
            return Fraction(len(PARTS))
        m = re.match(r"^decltype\((\w+)\)::value$", t)
        if m:
            return self.eval(("ref", m.group(1), None), env)
        return NotImplemented

    def part_call(self, M, args, env, name):
        t = self.unalias((name or "").replace(" ", "").replace("template", "").replace("typename", ""), env)
        m = re.match(r"^PartImpl<(\w+)>::(\w+)$", t)
        if not m:
            return NotImplemented
        i = int(m.group(1)) if m.group(1).isdigit() else int(simp(self.eval(("ref", m.group(1), None), env)))
        if not (0 <= i < len(PARTS)):
            raise AbstractViolation("PartImpl<%d> of a %d-part bundle" % (i, len(PARTS)))
        op = m.group(2)
        vals = [self.rv(self.ev(a, env)) for a in args]
        views = []
        for v in vals:
            if isinstance(v, Buf):
                v = v.whole()
            if not isinstance(v, View):
                raise Unab("argument %s of PartImpl<%d>::%s" % (show_val(v), i, op))
            views.append(v)
        if not views:
            raise Unab("PartImpl<%d>::%s without arguments" % (i, op))
        out, ins = views[-1], views[:-1]
        key = "%s_%d(%s)" % (op, i, "; ".join(v.key() for v in ins))
        self.calls.append((i, op, [v.key() for v in ins], out.key()))
        out.fill(lambda r, c: sym("%s[%d,%d]<%dx%d>" % (key, r, c, out.nr, out.nc)))
        return None

    def types(self, M, tyn, args, env):
        m = re.match(r"^(?:const)?Eigen::Matrix<Scalar,(.*)>$", tyn)
        if m and (args is None or len(args) == 0):
            parts = _split(m.group(1))
            r, c = int(simp(self.eval_targ(parts[0], env))), int(simp(self.eval_targ(parts[1], env)))
            return Buf("local", r, c)
        return NotImplemented


def expected(op, bufs):
    """{(r, c): value} of the whole output buffer of BundleImpl::op in the direct-product layout"""
    ins, out = bufs[:-1], bufs[-1]
    kinds_in = [b.kind for b in ins]
    E = {}
    zero_init = out.kind2 is not None                     # matrix outputs start from zero
    if zero_init:
        for k in out.c:
            E[k] = Fraction(0)
    for i, p in enumerate(PARTS):
        def rng(kind):
            j = KINDS[kind]
            return psum(j)[i], p[j]
        inkeys = []
        for b in ins:
            s, n = rng(b.kind)
            if b.kind2 is None:
                inkeys.append("%s[%d+%d,%d+%d]" % (b.name, s, n, 0, 1))
            else:
                inkeys.append("%s[%d+%d,%d+%d]" % (b.name, s, n, s, n))
        s, n = rng(out.kind)
        comm = p[3]
        if out.kind2 == "Hess":
            D = TOT["Dof"]
            if comm:
                continue
            key = "%s_%d(%s)" % (op, i, "; ".join(inkeys))
            for r in range(n):
                for j in range(n):
                    for c in range(n):
                        E[(s + r, D * (s + j) + s + c)] = sym("%s[%d,%d]<%dx%d>" % (key, r, n * j + c, n, n * n))
            continue
        if comm and op in ("Ad", "dr_exp", "dr_expinv"):
            for r in range(n):
                for c in range(n):
                    E[(s + r, s + c)] = Fraction(1 if r == c else 0)
            continue
        if comm and op in ("ad",):
            continue
        key = "%s_%d(%s)" % (op, i, "; ".join(inkeys))
        if out.kind2 is None:
            for r in range(n):
                E[(s + r, 0)] = sym("%s[%d,%d]<%dx%d>" % (key, r, 0, n, 1))
        else:
            for r in range(n):
                for c in range(n):
                    E[(s + r, s + c)] = sym("%s[%d,%d]<%dx%d>" % (key, r, c, n, n))
    return E


ALIAS = {"GRefIn": ("Rep", None), "GRefOut": ("Rep", None), "TRefIn": ("Dof", None), "TRefOut": ("Dof", None), "MRefIn": ("Dim", "sq"), "MRefOut": ("Dim", "sq"),
         "TMapRefOut": ("Dof", "sq"), "THessRefOut": ("Dof", "Hess")}


def check(rep, tier, dump):
    rep.rule("K.exec", "every BundleImpl member, abstractly executed for an abstract 3-part composition with pairwise distinct sizes: the whole output equals the direct-product layout "
             "(block i = PartImpl<i>'s own operation on block i of every input, identity / zero for commutative parts, zero elsewhere, documented Hessian placement)", minimum=14)
    decls = {}
    for x in A.index(dump):
        if x.pattern and x.kind in A.FUNCS and A.body(x.node) is not None and x.file and x.file.startswith(fe.INCLUDE) and x.qname.startswith("BundleImpl::"):
            decls.setdefault(x.qname.split("::")[-1], []).append(x)
    members = [d for ds in decls.values() for d in ds if all(p.get("type", {}).get("qualType", "") in ALIAS for p in A.params(d.node)) and A.params(d.node)]
    helper_names = {d.qname for ds in decls.values() for d in ds} - {d.qname for d in members}
    if len(members) < 15:
        rep.broke("K.exec: only %d BundleImpl member functions with the reference-alias signature found (15 confirmed by hand)" % len(members))
    for d in sorted(members, key=lambda x: x.line):
        op = d.qname.split("::")[-1]
        if op in ("setRandom",):
            continue
        bufs = []
        for k, p in enumerate(A.params(d.node)):
            kind, k2 = ALIAS[p.get("type", {}).get("qualType", "")]
            n = TOT[kind]
            is_out = p.get("type", {}).get("qualType", "").endswith("Out")
            name = "%s%d" % ("out" if is_out else "in", k)
            if k2 is None:
                b = Buf(name, n, 1, (lambda r, c, name=name: sym("%s[%d]" % (name, r))) if not is_out else (lambda r, c: sym("garbage[%d,%d]" % (r, c))))
            elif k2 == "Hess":
                b = Buf(name, n, n * n, lambda r, c: sym("garbage[%d,%d]" % (r, c)))
            else:
                b = Buf(name, n, n, (lambda r, c, name=name: sym("%s[%d,%d]" % (name, r, c))) if not is_out else (lambda r, c: sym("garbage[%d,%d]" % (r, c))))
            b.kind, b.kind2, b.is_out = kind, k2, is_out
            bufs.append(b)
        if not bufs or not bufs[-1].is_out or any(b.is_out for b in bufs[:-1]):
            rep.broke("K.exec: BundleImpl::%s does not have the (inputs..., output) signature" % op)
            continue
        try:
            M = BundleMachine(decls)
            M.run_function(d, [Cell(b) for b in bufs])
        except Unab as ex:
            rep.broke("K.exec: BundleImpl::%s is outside the abstract machine: %s" % (op, ex))
            continue
        except AbstractViolation as ex:
            rep.instance("K.exec", d.qname, op, ok=False, sample={})
            rep.violation(Finding("K.exec", d.qname, op, "BundleImpl::%s on the abstract 3-part bundle: %s" % (op, ex), *A.loc(d.node)))
            continue
        want = expected(op, bufs)
        out = bufs[-1]
        bad = None
        for k in sorted(out.c):
            got = out.c[k]
            w = want.get(k)
            if w is None:
                continue          # cells the layout does not constrain (none for the documented operations)
            if got is mach.UNSET or not (is_num(got) and mach.num_equal(got, w)):
                who = show_val(got)
                bad = "output cell (%d, %d) holds %s; the direct product has %s there" % (k[0], k[1], who[:120], show_val(w)[:120])
                break
        rep.instance("K.exec", d.qname, op, ok=bad is None, sample={"file": fe.rel(d.file), "line": d.line, "part_calls": len(M.calls)})
        if bad:
            rep.violation(Finding("K.exec", d.qname, op, "BundleImpl::%s on an abstract bundle with parts (RepSize, Dof, Dim) = %s: %s" % (op, [p[:3] for p in PARTS], bad), *A.loc(d.node)))
