import raychk
import roundir
import switches


def check(rep, tier, replay=None):
    switches.run(rep, "C02")
    rep.explanations.append(
        "Rule T (engine R, lib/rays.py): the tangent input is abstracted as a = t*a0 along rational rays; the optimized IR of the witness is "
        "interpreted in the domain of truncated power series in t over exact rationals, and the closed-form path must reproduce the "
        "defining series coefficient by coefficient to order 8 (matrix(exp(a)) = sum hat(a)^k/k!, log(exp(a)) = a); polynomial branches of small-angle switches may differ only "
        "by terms below the tolerance at the largest t that selects them.  A mismatch is a definite violation; agreement along the rays "
        "examined is a necessary condition of the identity for all a (not a proof).  Rounding is not modelled.")
    rep.trusted.update(["lib/rays.py / lib/jet.py exact series arithmetic", "clang++-16 -O2 pipeline (value-preserving without -ffast-math)"])
    raychk.run(rep, tier, "C02", ["exp", "logexp"], 1e-9)
    rep.explanations.append(
        "Rule RND (props/roundir.py): the same optimized IR is interpreted in the domain (value, first-order absolute rounding bound) on a grid of rotation angles -- "
        "log-spaced 1e-9..3, both sides of every comparison constant found in the IR (the small-angle switches) and pi - 10^-k -- in double and single unit roundoff.  "
        "A bound >= 100x the tolerance (relative to the largest output entry; within 1e-5 (double) / 1e-2 (float) of pi the looser near-pi tolerance of the log round trip) "
        "is a violation naming the angle and entry; a smaller excess is a note.  It decides the conditioning of the compiled formulas, not measured error.")
    roundir.run(rep, tier, "C02", ["exp", "logexp"], 1e-9, 1e-3, near_pi={"logexp": (1e-5, 1e-7, 1e-2, 1e-2)})
    rep.explanations.append(
        "Rules TT (props/roundir.py: run_tails): the Taylor-tail helpers of detail/trig.hpp as their own witnesses -- on the path taken for arguments beyond every comparison constant the value "
        "goes through a libm sine / cosine (a polynomial cannot serve every rotation norm), the rounding bound relative to the value stays below 100 x 1e-9, and the value is continuous where the "
        "branches meet.")
    roundir.run_tails(rep, "TT")
    rep.explanations.append(
        "Rule RND.E (props/roundir.py: run_special_logs): log(g) and exp(log(g)) in the (value, rounding bound) domain at the exactly representable elements where log is singular or changes "
        "branch -- identity, half turns about the axes and about a general axis, quarter turns, a generic rational rotation, with non-zero translation parts: finite results (a division by "
        "exactly zero is reported), rotation norm of log(g) at most pi, exp(log(g)) = g up to the sign of the quaternion.  These are the finitely many points the series domain of rule T cannot reach.")
    roundir.run_special_logs(rep, "RND.E")
