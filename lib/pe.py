"""Partial evaluation of scalar AST expressions (astlib tuples) over exact rationals.

Used to decide *identities between polynomial/affine index and scale expressions* by evaluating both sides at several
points of a symbolic environment (identity testing for low-degree polynomials), never to run library code."""
from fractions import Fraction

import astlib as A


class PEError(Exception):
    pass


class PEIndexError(PEError):
    """the interpreted code indexes outside an array: a property of the code, not a limitation of the interpreter"""


def ev(e, env):
    key = A.show(e)
    if key in env:
        return Fraction(env[key])
    t = e[0]
    if t == "num":
        return Fraction(e[1])
    if t == "bool":
        return Fraction(int(e[1]))
    if t == "ref":
        if e[1] in env:
            return Fraction(env[e[1]])
        raise PEError("unknown name %s" % e[1])
    if t == "member":
        if e[2] in env:
            return Fraction(env[e[2]])
        raise PEError("unknown member %s" % e[2])
    if t == "sub" and len(e[2]) == 1:
        k = "%s[%d]" % (A.show(e[1]), int(ev(e[2][0], env)))
        if k in env:
            return Fraction(env[k])
        raise PEError("no table entry %s" % k)
    if t == "neg":
        return -ev(e[1], env)
    if t == "un" and e[1] == "!":
        return Fraction(int(not ev(e[2], env)))
    if t == "op":
        op = e[1]
        if op == "&&":
            return Fraction(int(bool(ev(e[2], env)) and bool(ev(e[3], env))))
        if op == "||":
            return Fraction(int(bool(ev(e[2], env)) or bool(ev(e[3], env))))
        a, b = ev(e[2], env), ev(e[3], env)
        if op == "+":
            return a + b
        if op == "-":
            return a - b
        if op == "*":
            return a * b
        if op == "/":
            if b == 0:
                raise PEError("division by zero")
            return a / b
        if op == "%":
            return Fraction(int(a) % int(b))
        if op in ("<", "<=", ">", ">=", "==", "!="):
            return Fraction(int({"<": a < b, "<=": a <= b, ">": a > b, ">=": a >= b, "==": a == b, "!=": a != b}[op]))
        raise PEError("operator %s" % op)
    if t == "cond":
        return ev(e[2], env) if ev(e[1], env) else ev(e[3], env)
    if t == "ctor" and len(e[2]) == 1:
        return ev(e[2][0], env)
    if t == "call":
        nm = (e[1] if isinstance(e[1], str) else "").split("::")[-1].split("<")[0]
        if nm in ("static_cast", "int64_t", "double", "S", "Scalar", "size_t") and len(e[2]) == 1:
            return ev(e[2][0], env)
        if nm == "min":
            return min(ev(a, env) for a in e[2])
        if nm == "max":
            return max(ev(a, env) for a in e[2])
        if nm == "clamp" and len(e[2]) == 3:
            v, lo, hi = (ev(a, env) for a in e[2])
            return max(lo, min(hi, v))
    if t == "other" and e[1] in ("CXXStaticCastExpr",):
        raise PEError("cast")
    raise PEError("cannot evaluate %s" % key[:60])


class Exec:
    """Small abstract machine for index-bookkeeping code: integer/rational scalars, arrays (python lists keyed by the printed
    base expression), ++/-- side effects, assignments, if/else, for loops with constant trip counts.  Anything else raises
    PEError (the caller reports analysis-broken)."""

    def __init__(self, env, arrays, sizes=None, max_steps=100000):
        self.env = dict(env)          # scalar name -> Fraction
        self.arrays = arrays          # printed base expr -> list
        self.sizes = sizes or {}      # printed base expr -> size (for .size())
        self.steps = 0
        self.max_steps = max_steps

    def key(self, base):
        return A.show(base)

    def val(self, e):
        t = e[0]
        if t == "call" and isinstance(e[1], str) and e[1] in self.arrays and len(e[2]) == 1:
            e = ("sub", ("ref", e[1], None), e[2])      # Eigen element access v(i) on a dependent type
            t = "sub"
        if t == "num":
            return Fraction(e[1])
        if t == "ref":
            if e[1] in self.env:
                return self.env[e[1]]
            raise PEError("unknown scalar %s" % e[1])
        if t == "member":
            if e[2] in self.env:
                return self.env[e[2]]
            raise PEError("unknown member %s" % e[2])
        if t == "un":
            op = e[1]
            if op in ("++post", "--post", "++", "--") and e[2][0] == "ref":
                old = self.env[e[2][1]]
                self.env[e[2][1]] = old + (1 if op.startswith("++") else -1)
                return old if op.endswith("post") else self.env[e[2][1]]
            if op == "!":
                return Fraction(int(not self.val(e[2])))
            raise PEError("unary %s" % op)
        if t == "neg":
            return -self.val(e[1])
        if t == "mcall" and e[2] == "size" and not e[4]:
            k = self.key(e[1])
            if k in self.sizes:
                return Fraction(self.sizes[k])
            if k in self.arrays:
                return Fraction(len(self.arrays[k]))
            raise PEError("size of unknown %s" % k)
        if t == "sub" and len(e[2]) == 1:
            k = self.key(e[1])
            i = int(self.val(e[2][0]))
            if k not in self.arrays:
                raise PEError("unknown array %s" % k)
            if not (0 <= i < len(self.arrays[k])):
                raise PEIndexError("index %d out of range of %s (size %d)" % (i, k, len(self.arrays[k])))
            return self.arrays[k][i]
        if t == "op":
            op = e[1]
            if op == "=":
                v = self.val(e[3])
                self.assign(e[2], v)
                return v
            if op in ("+=", "-="):
                v = self.val(e[3])
                cur = self.val(e[2]) if e[2][0] != "sub" else self.val(e[2])
                nv = cur + v if op == "+=" else cur - v
                self.assign(e[2], nv)
                return nv
            if op == "||":
                return Fraction(int(bool(self.val(e[2])) or bool(self.val(e[3]))))     # short-circuit
            if op == "&&":
                return Fraction(int(bool(self.val(e[2])) and bool(self.val(e[3]))))
            a, b = self.val(e[2]), self.val(e[3])
            if op in ("+", "-", "*"):
                return {"+": a + b, "-": a - b, "*": a * b}[op]
            if op == "/":
                if b == 0:
                    raise PEError("division by zero")
                return a / b
            if op in ("<", "<=", ">", ">=", "==", "!="):
                return Fraction(int({"<": a < b, "<=": a <= b, ">": a > b, ">=": a >= b, "==": a == b, "!=": a != b}[op]))
            raise PEError("operator %s" % op)
        if t == "ctor" and len(e[2]) == 1:
            return self.val(e[2][0])
        raise PEError("cannot evaluate %s" % A.show(e)[:60])

    def assign(self, lhs, v):
        if lhs[0] == "call" and isinstance(lhs[1], str) and lhs[1] in self.arrays and len(lhs[2]) == 1:
            lhs = ("sub", ("ref", lhs[1], None), lhs[2])
        if lhs[0] == "ref":
            self.env[lhs[1]] = v
        elif lhs[0] == "sub" and len(lhs[2]) == 1:
            k = self.key(lhs[1])
            i = int(self.val(lhs[2][0]))
            if k not in self.arrays:
                raise PEError("unknown array %s" % k)
            if not (0 <= i < len(self.arrays[k])):
                raise PEIndexError("store index %d out of range of %s (size %d)" % (i, k, len(self.arrays[k])))
            self.arrays[k][i] = v
        else:
            raise PEError("cannot assign to %s" % A.show(lhs)[:40])

    def run(self, stmt):
        self.steps += 1
        if self.steps > self.max_steps:
            raise PEError("step limit")
        k = stmt.get("kind")
        ks = A.kids(stmt)
        if k == "CompoundStmt":
            for c in ks:
                self.run(c)
        elif k == "DeclStmt":
            for v in ks:
                if v.get("kind") == "VarDecl" and A.kids(v):
                    self.env[v.get("name")] = self.val(A.to_expr(A.kids(v)[-1]))
        elif k == "ForStmt":
            init, _cv, cond, inc, body = (ks + [None] * 5)[:5]
            if init is not None and init.get("kind"):
                self.run(init)
            while bool(self.val(A.to_expr(cond))):
                self.run(body)
                self.val(A.to_expr(inc))
                self.steps += 1
                if self.steps > self.max_steps:
                    raise PEError("step limit")
        elif k == "IfStmt":
            if bool(self.val(A.to_expr(ks[0]))):
                self.run(ks[1])
            elif len(ks) > 2:
                self.run(ks[2])
        elif k == "CXXForRangeStmt":
            rng = None
            var = None
            for c in ks:
                if c.get("kind") == "DeclStmt":
                    for v in A.kids(c):
                        nm = v.get("name") or ""
                        if nm.startswith("__range") and A.kids(v):
                            rng = A.to_expr(A.kids(v)[-1])
                        elif v.get("kind") == "VarDecl" and not nm.startswith("__"):
                            var = nm
            if rng is None or var is None:
                raise PEError("range-based for: range / loop variable not recognised")
            key = self.key(rng)
            if key not in self.arrays:
                raise PEError("range-based for over unknown range %s" % key)
            for val in list(self.arrays[key]):
                self.env[var] = val
                self.run(ks[-1])
                self.steps += 1
                if self.steps > self.max_steps:
                    raise PEError("step limit")
        elif k in ("BinaryOperator", "CompoundAssignOperator", "CXXOperatorCallExpr", "UnaryOperator"):
            self.val(A.to_expr(stmt))
        elif k in TRANSPARENT_STMT:
            self.run(ks[0])
        elif k is None or k == "NullStmt":
            return
        else:
            raise PEError("unsupported statement kind %s" % k)


TRANSPARENT_STMT = {"ExprWithCleanups", "ImplicitCastExpr", "ParenExpr"}
