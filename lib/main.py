#!/usr/bin/env python3
"""Driver: ./check <id> [--tier quick|thorough] [--replay <file>]"""
import importlib
import os
import sys
import traceback

HERE = os.path.dirname(os.path.abspath(__file__))
sys.path.insert(0, HERE)
sys.path.insert(0, os.path.join(os.path.dirname(HERE), "props"))

import fe  # noqa: E402
from report import Report  # noqa: E402


def main(argv):
    if len(argv) < 2:
        print("usage: check <property id> [--tier quick|thorough] [--replay file]")
        return 2
    pid = argv[1]
    tier = os.environ.get("VERIF_TIER") or "quick"
    replay = None
    i = 2
    while i < len(argv):
        if argv[i] == "--tier":
            tier = argv[i + 1]
            i += 2
        elif argv[i] == "--replay":
            replay = argv[i + 1]
            i += 2
        else:
            i += 1
    if tier not in ("quick", "thorough"):
        tier = "quick"
    rep = Report(pid, tier)
    try:
        mod = importlib.import_module(pid.lower())
    except ModuleNotFoundError:
        print("no check registered for %s" % pid)
        return 2
    try:
        mod.check(rep, tier, replay)
    except fe.Broken as e:
        rep.broke(str(e))
    except Exception:
        rep.broke("internal error in checker:\n" + traceback.format_exc())
    return rep.finish()


if __name__ == "__main__":
    sys.exit(main(sys.argv))
