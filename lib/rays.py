"""R -- truncated power series along a rational ray, as an abstract domain over the optimized IR of loop-free witnesses.

The tangent input of a witness is abstracted as  a = t * a0  with a0 a fixed rational direction (rotation parts of rational
norm); every SSA value becomes a truncated Laurent series in t over exact rationals (lib/jet.py): + - * / fneg fmuladd are
exact, sqrt / sin / cos / atan2 / fabs are the series transfer functions.  A comparison is decided by the sign of the leading
term as t -> 0+, except a comparison of a vanishing quantity with a tiny positive constant (a small-angle switch), which is
explored both ways.  On the closed-form path the outputs are therefore the Taylor expansions (along the ray) of the analytic
functions the code computes, and are compared coefficient by coefficient with the defining series (matrix exponential,
sum (-1)^k ad^k/(k+1)!, ...).  Agreement to order N along generic rays is a necessary condition of the identity for all a; a
disagreement is a definite violation.  Nothing is executed: no floating-point value of the program is ever computed.
"""
from fractions import Fraction

import jet
import poly
from jet import Series

N_IN = 18


class RayEval(poly.PathEval):
    PURE_CALLS = ("sin", "cos", "sqrt", "atan2", "atan", "tan", "exp", "log", "acos", "asin", "llvm.sin", "llvm.cos", "llvm.sqrt", "llvm.exp", "llvm.log", "sinf", "cosf", "sqrtf", "atan2f")

    def __init__(self, ff, cell_var, inputs, switch_max=1e-3, max_paths=64):
        super().__init__(ff, cell_var, None, max_paths)
        self.inputs = inputs
        self.switch_max = switch_max
        self.switches = {}
        self.small = {}       # decision key -> the outcome that selects the polynomial (small-angle) branch

    def dom_const(self, c):
        """a floating-point literal that is the nearest double of a small rational (1/6, 1/120, ...) denotes that rational"""
        q = Fraction(c)
        if q.denominator > 1:
            s = q.limit_denominator(10 ** 7)
            if s != q and abs(s - q) <= abs(q) * Fraction(1, 2 ** 52):
                q = s
        return Series.const(q, N_IN)

    def _cond(self, c, vals, dec):
        """decisions are shared between comparisons of equal abstract values (the same switch evaluated twice)"""
        import re
        ins = self.f.defs.get(c)
        if ins is not None and ins.op == "fcmp":
            m = re.match(r"^fcmp (?:\w+ )*?(oeq|one|olt|ole|ogt|oge|ueq|une|ult|ule|ugt|uge|ord|uno) (?:double|float) (\S+?), (\S+)$", ins.text.strip())
            if m:
                a, b = self._value(m.group(2), vals), self._value(m.group(3), vals)
                pred = m.group(1)[1:]
                r = self.dom_cmp(pred, a, b)
                if r is not None:
                    return r
                # canonical key: "x < y" and "y > x", "x >= y" (negated) all refer to one decision "x < y"
                flip = {"lt": ("lt", False, False), "gt": ("lt", True, False), "ge": ("lt", False, True), "le": ("lt", True, True)}
                if pred in flip:
                    _, swap, neg = flip[pred]
                    x, y = (b, a) if swap else (a, b)
                    key = "lt|%r|%r" % (sorted(x.c.items()), sorted(y.c.items()))
                    self.switches[key] = (x, y)
                    # x < y with y the tiny constant: True selects the small-angle branch; with x the constant: False does
                    self.small[key] = bool(self._is_const(y) and y.c)
                    if key in dec:
                        return dec[key] != neg
                    raise poly._NeedDecision(key)
        return super()._cond(c, vals, dec)

    def dom_key(self, x, y):
        return None       # decisions are keyed in _cond above; equality tests are not shared

    def dom_input(self, vn):
        if vn not in self.inputs:
            raise poly.Unsupported("input cell %s has no ray value" % vn)
        return self.inputs[vn]

    def dom_check(self, r):
        pass

    @staticmethod
    def _is_const(s):
        return set(s.c) <= {0}

    def dom_cmp(self, pred, a, b):
        # a quantity that is identically zero along the ray (e.g. B_j(u) v_j at a u where B_j vanishes) compares as 0
        if not a.c and self._is_const(b) and b.c:
            v = -1 if b.c[0] > 0 else 1
            return {"eq": False, "ne": True, "lt": v < 0, "le": v < 0, "gt": v > 0, "ge": v > 0, "rd": True, "no": False}[pred]
        if not b.c and self._is_const(a) and a.c:
            v = 1 if a.c[0] > 0 else -1
            return {"eq": False, "ne": True, "lt": v < 0, "le": v < 0, "gt": v > 0, "ge": v > 0, "rd": True, "no": False}[pred]
        # small-angle switch: vanishing quantity against a tiny constant
        for x, y in ((a, b), (b, a)):
            if self._is_const(y) and y.c and 0 < abs(y.c[0]) <= self.switch_max and (not x.c or x.val() >= 1):
                return None
        d = a - b
        if not d.c:
            return None          # equal to the computed order: not decidable
        lead = d.c[d.val()]
        v = 1 if lead > 0 else -1
        return {"eq": False, "ne": True, "lt": v < 0, "le": v < 0, "gt": v > 0, "ge": v > 0, "rd": True, "no": False}[pred]

    def allow(self, dec, cond, value):
        """explore the all-closed-form path and, for every switch separately, the path on which only that switch takes its polynomial
        branch: each polynomial branch is compared on its own; combinations of several add nothing and grow as 2^k"""
        if cond not in self.small or value != self.small[cond]:
            return True
        return not any(k in self.small and v == self.small[k] for k, v in dec.items())

    def dom_call(self, name, args):
        n = name.split(".f64")[0].split(".f32")[0]
        n = n[5:] if n.startswith("llvm.") else n
        n = n[:-1] if n in ("sinf", "cosf", "sqrtf", "atan2f") else n
        try:
            if n == "sin":
                return args[0].sin()
            if n == "cos":
                return args[0].cos()
            if n == "tan":
                return args[0].tan()
            if n == "atan":
                return args[0].atan()
            if n == "acos":
                return args[0].acos()
            if n == "asin":
                return args[0].asin()
            if n == "sqrt":
                return args[0].sqrt()
            if n == "exp":
                return args[0].exp()
            if n == "log":
                return args[0].log()
            if n == "atan2":
                return Series.atan2(args[0], args[1])
            if n == "fabs":
                x = args[0]
                if not x.c:
                    return x
                return x if x.c[x.val()] > 0 else -x
        except jet.Unsupported as ex:
            raise poly.Unsupported("%s: %s" % (n, ex))
        raise poly.Unsupported("call of %s (outside the series domain)" % name)


def evaluate(ff, cell_var, inputs, max_paths=64):
    pe = RayEval(ff, cell_var, inputs, max_paths=max_paths)
    orig = pe._run_path

    def run_path(dec):
        pe._dec_proxy = dec
        return orig(dec)
    pe._run_path = run_path
    try:
        paths = pe.run()
    except jet.Unsupported as ex:
        raise poly.Unsupported(str(ex))
    # largest ray parameter at which a polynomial branch can still be selected: x(t) < y with x ~ c t^v
    tstar = 0.0
    for x, y in pe.switches.values():
        xs, ys = (x, y) if (y.c and set(y.c) <= {0}) else (y, x)
        if xs.c and ys.c:
            v = xs.val()
            tstar = max(tstar, (abs(float(ys.c[0])) / abs(float(xs.c[v]))) ** (1.0 / v))
    return paths, tstar


# ---- matrices of series --------------------------------------------------------------------------------------------------

def mat_from(stores, param, rows, cols, what="output"):
    m = []
    for r in range(rows):
        row = []
        for c in range(cols):
            v = stores.get((param, 8 * (c * rows + r)))
            if v is None:
                raise poly.Unsupported("%s cell (%d,%d) is not written on a path" % (what, r, c))
            row.append(v)
        m.append(row)
    return m


def mat_mul(A, B):
    n, k, m = len(A), len(B), len(B[0])
    out = []
    for i in range(n):
        row = []
        for j in range(m):
            s = Series({}, N_IN)
            for l in range(k):
                if A[i][l].c and B[l][j].c:
                    s = s + A[i][l] * B[l][j]
            row.append(s)
        out.append(row)
    return out


def mat_id(n):
    return [[Series.const(1 if i == j else 0, N_IN) for j in range(n)] for i in range(n)]


def mat_add(A, B, sb=1):
    return [[A[i][j] + (B[i][j] if sb == 1 else -B[i][j]) for j in range(len(A[0]))] for i in range(len(A))]


def mat_scale(A, q):
    return [[x * q for x in row] for row in A]


def power_sum(X, coeff, order):
    """sum_{k=0..order} coeff(k) X^k for a matrix X whose entries vanish at t = 0"""
    n = len(X)
    acc = mat_scale(mat_id(n), coeff(0))
    P = mat_id(n)
    for k in range(1, order + 1):
        P = mat_mul(P, X)
        P = [[x.trunc(order + 1) for x in row] for row in P]
        ck = coeff(k)
        if ck != 0:
            acc = mat_add(acc, mat_scale(P, ck))
    return acc


def first_mismatch(A, B, upto):
    """(i, j, k, a_k, b_k) of the lowest-order differing coefficient below order `upto`, or None; also returns the order
    to which both sides are known"""
    best = None
    known = upto
    for i in range(len(A)):
        for j in range(len(A[0])):
            a, b = A[i][j], B[i][j]
            known = min(known, a.N, b.N)
            d = a - b
            ks = [k for k in d.c if k < min(upto, a.N, b.N)]
            if ks:
                k = min(ks)
                if best is None or k < best[2]:
                    best = (i, j, k, a.coeff(k), b.coeff(k))
    return best, known


def deviation_at(A, B, upto, t):
    """(largest |A_ij(t) - B_ij(t)| estimated from the known coefficients below order `upto`, its entry, largest |B_ij(t)|)"""
    worst, where, scale = 0.0, None, 0.0
    for i in range(len(A)):
        for j in range(len(A[0])):
            d = A[i][j] - B[i][j]
            n = min(upto, A[i][j].N, B[i][j].N)
            dev = sum(abs(float(c)) * t ** k for k, c in d.c.items() if k < n)
            if dev > worst:
                worst, where = dev, (i, j)
            sc = abs(sum(float(c) * t ** k for k, c in B[i][j].c.items() if k < n))
            scale = max(scale, sc)
    return worst, where, scale
