"""C17 -- relations and conversions between groups (two clauses).

G1 (A) SO2::angle / angle_cw / angle_ccw: ranges and congruence modulo 2pi by exhaustive sign-case analysis.  The functions
       touch their inputs only through comparisons with 0 and atan2; for every sign class of (sin, cos) in {-, -0, +0, +}^2
       (both zero excluded by the unit constraint) the branch taken is read from the AST, the IEEE-754 quadrant table of atan2
       gives the exact value at representative angles (rational multiples of pi) and the interval on the open classes;
       -, abs and +-pi are the only other operations.
G2 (I+A) normalised, canonical conversions: shared with C15 (R1 on the conversion witnesses, R3).
"""
from fractions import Fraction

import astlib as A
import c15
import c17e
import fe
from report import Finding

PI = Fraction(1)      # all angles are kept as exact rational multiples of pi

# representatives: (class of sin, class of cos, angle/pi as the exact value of atan2(sin, cos))
NEG, NZ, PZ, POS = "neg", "-0", "+0", "pos"


def atan2_class(ys, xs):
    """exact value (multiple of pi) or interval for atan2 given sign classes; returns (lo, hi) closed interval in units of pi"""
    if ys == PZ:
        return (Fraction(0), Fraction(0)) if xs in (POS, PZ) else (Fraction(1), Fraction(1))
    if ys == NZ:
        return (Fraction(0), Fraction(0)) if xs in (POS, PZ) else (Fraction(-1), Fraction(-1))
    if ys == POS:
        if xs == POS:
            return (Fraction(0), Fraction(1, 2))
        if xs in (PZ, NZ):
            return (Fraction(1, 2), Fraction(1, 2))
        return (Fraction(1, 2), Fraction(1))
    if xs == POS:
        return (Fraction(-1, 2), Fraction(0))
    if xs in (PZ, NZ):
        return (Fraction(-1, 2), Fraction(-1, 2))
    return (Fraction(-1), Fraction(-1, 2))


def flip(c):
    return {NEG: POS, POS: NEG, NZ: PZ, PZ: NZ}[c]


def cmp_zero(op, c):
    """truth of (value op 0.) for a value of sign class c (IEEE: -0 == +0)"""
    v = {NEG: -1, NZ: 0, PZ: 0, POS: 1}[c]
    return {"<": v < 0, "<=": v <= 0, ">": v > 0, ">=": v >= 0, "==": v == 0, "!=": v != 0}[op]


class Unsupported(Exception):
    pass


def sign_of(e, env):
    """sign class of an argument expression (a variable or its negation)"""
    if e[0] == "ref" and e[1] in env:
        return env[e[1]]
    if e[0] == "neg":
        return flip(sign_of(e[1], env))
    raise Unsupported("argument %s is not +-variable" % A.show(e))


def value(e, env, point):
    """evaluate an angle expression: returns (lo, hi) interval in units of pi; `point` = dict var -> exact angle of the element
    (theta/pi) used when the class is an open one (so that the result is exact at the representative)"""
    t = e[0]
    if t == "call":
        nm = str(e[1]).split("::")[-1]
        if nm == "atan2":
            ys, xs = sign_of(e[2][0], env), sign_of(e[2][1], env)
            lo, hi = atan2_class(ys, xs)
            if lo != hi and point is not None:
                # exact value at the representative: atan2(+-sin, +-cos) of the representative angle
                th = point["theta"]
                sy = -1 if e[2][0][0] == "neg" else 1
                sx = -1 if e[2][1][0] == "neg" else 1
                v = th
                if sy == -1 and sx == 1:
                    v = -th
                elif sy == 1 and sx == -1:
                    v = (1 - th) if th > 0 else (-1 - th)
                elif sy == -1 and sx == -1:
                    v = (th - 1) if th > 0 else (th + 1)
                return (v, v)
            return (lo, hi)
        if nm == "abs":
            lo, hi = value(e[2][0], env, point)
            if lo >= 0:
                return (lo, hi)
            if hi <= 0:
                return (-hi, -lo)
            return (Fraction(0), max(-lo, hi))
        raise Unsupported("call %s" % nm)
    if t == "neg":
        lo, hi = value(e[1], env, point)
        return (-hi, -lo)
    if t == "op" and e[1] in ("+", "-"):
        a, b = value(e[2], env, point), value(e[3], env, point)
        if e[1] == "+":
            return (a[0] + b[0], a[1] + b[1])
        return (a[0] - b[1], a[1] - b[0])
    if t == "ref" and e[1] == "M_PI":
        return (PI, PI)
    if t == "num":
        if e[1] == 0:
            return (Fraction(0), Fraction(0))
        import math
        r = float(e[1]) / math.pi
        for q in (Fraction(1), Fraction(2), Fraction(1, 2), Fraction(-1), Fraction(-2), Fraction(-1, 2)):
            if abs(r - float(q)) < 1e-12:
                return (q, q)          # the literal is M_PI (or a simple multiple) to double precision
        raise Unsupported("numeric literal %s is not a multiple of pi" % float(e[1]))
    if t == "other" and "M_PI" in e[2]:
        return (PI, PI)
    raise Unsupported("expression %s" % A.show(e)[:60])


def run_function(fn, env, point):
    """abstractly execute the (if/else, return) body for one sign case"""
    def ex(stmt):
        k = stmt.get("kind")
        if k == "CompoundStmt":
            for c in A.kids(stmt):
                r = ex(c)
                if r is not None:
                    return r
            return None
        if k == "IfStmt":
            ks = A.kids(stmt)
            c = A.to_expr(ks[0])
            if not (c[0] == "op" and c[1] in ("<", "<=", ">", ">=") and c[3][0] == "num" and c[3][1] == 0):
                raise Unsupported("condition %s" % A.show(c))
            taken = cmp_zero(c[1], sign_of(c[2], env))
            if taken:
                return ex(ks[1])
            if len(ks) > 2:
                return ex(ks[2])
            return None
        if k == "ReturnStmt":
            return value(A.to_expr(A.kids(stmt)[0]), env, point)
        if k == "DeclStmt":
            return None
        raise Unsupported("statement %s" % k)
    return ex(A.body(fn))


REPS = [
    # (sin class, cos class, theta/pi) -- theta is the principal angle atan2(sin, cos) of the representative element
    (PZ, POS, Fraction(0)), (NZ, POS, Fraction(0)),
    (POS, POS, Fraction(1, 4)), (POS, POS, Fraction(1, 3)),
    (POS, PZ, Fraction(1, 2)), (POS, NZ, Fraction(1, 2)),
    (POS, NEG, Fraction(3, 4)), (POS, NEG, Fraction(5, 6)),
    (PZ, NEG, Fraction(1)), (NZ, NEG, Fraction(-1)),
    (NEG, NEG, Fraction(-3, 4)), (NEG, NEG, Fraction(-2, 3)),
    (NEG, PZ, Fraction(-1, 2)), (NEG, NZ, Fraction(-1, 2)),
    (NEG, POS, Fraction(-1, 4)), (NEG, POS, Fraction(-1, 6)),
]


def check_g1(rep, idx):
    rep.rule("G1", "SO2 angle functions: documented range and congruence mod 2pi in every sign case of (sin, cos)", minimum=32)
    targets = {"angle_cw": (Fraction(-2), Fraction(0)), "angle_ccw": (Fraction(0), Fraction(2))}
    for name, (rlo, rhi) in targets.items():
        fns = [d for d in idx if d.kind in A.FUNCS and d.pattern and d.qname.endswith("SO2Base::" + name) and A.body(d.node) is not None]
        if len(fns) != 1:
            rep.broke("G1: SO2Base::%s not found" % name)
            continue
        d = fns[0]
        # bind locals x := cos (coeffs().y()), y := sin (coeffs().x())
        roles = {}
        for x in A.walk(A.body(d.node)):
            if x.get("kind") == "VarDecl" and A.kids(x):
                t = A.ntext(A.kids(x)[-1])
                if t.endswith("coeffs().y()"):
                    roles[x.get("name")] = "cos"
                elif t.endswith("coeffs().x()"):
                    roles[x.get("name")] = "sin"
        if sorted(roles.values()) != ["cos", "sin"]:
            rep.broke("G1: cannot identify the sine / cosine locals of %s (%s)" % (name, roles))
            continue
        bad = []
        for ys, xs, th in REPS:
            env = {n: (ys if r == "sin" else xs) for n, r in roles.items()}
            try:
                exact = run_function(d.node, env, {"theta": th})
                rng = run_function(d.node, env, None)
            except Unsupported as ex:
                rep.broke("G1: %s uses an operation outside the sign-case domain: %s" % (name, ex))
                bad = None
                break
            if exact is None or rng is None:
                rep.broke("G1: %s has a path without return" % name)
                bad = None
                break
            in_range = rlo <= rng[0] and rng[1] <= rhi
            congruent = ((exact[0] - th) % 2) == 0
            ok = in_range and congruent
            rep.instance("G1", "SO2Base::" + name, "sin:%s cos:%s theta=%s*pi" % (ys, xs, th), ok=ok,
                         sample={"file": fe.rel(d.file), "line": d.line, "value_over_pi": [str(exact[0])], "case_interval_over_pi": [str(rng[0]), str(rng[1])]})
            if not ok:
                bad.append((ys, xs, th, exact, rng, in_range, congruent))
        for ys, xs, th, exact, rng, in_range, congruent in (bad or [])[:4]:
            rep.violation(Finding("G1", "SO2Base::" + name, "sin:%s cos:%s" % (ys, xs),
                                  "for an element with sine %s, cosine %s (principal angle %s*pi) %s() returns %s*pi%s%s"
                                  % (ys, xs, th, name, exact[0],
                                     "" if in_range else ", outside the documented range [%s*pi, %s*pi] (case interval [%s, %s]*pi)" % (rlo, rhi, rng[0], rng[1]),
                                     "" if congruent else ", not congruent to the principal angle modulo 2*pi"), d.file, d.line))
    # angle(): log().x() = atan2(sin, cos), range [-pi, pi] by the atan2 table
    fns = [d for d in idx if d.kind in A.FUNCS and d.pattern and d.qname.endswith("SO2Base::angle") and A.body(d.node) is not None]
    ok = len(fns) == 1 and A.ntext(A.body(fns[0].node)) in ("{returnBase::log().x();}",)
    if len(fns) == 1:
        rep.instance("G1", "SO2Base::angle", "principal", ok=ok, sample={"body": A.ntext(A.body(fns[0].node))})
        if not ok:
            rep.broke("G1: SO2Base::angle is no longer log().x(); add it to the sign-case analysis")


def check(rep, tier, replay=None):
    rep.explanations.append(
        "C17 (two clauses): SO2 angle functions decided by an exhaustive case split over the sign classes of (sin, cos) including "
        "signed zeros, with atan2's IEEE quadrant table as transfer function -- a finite set of orderings, no value is sampled; "
        "normalised/canonical conversions shared with C15 (sign shape of q_w in the IR of the conversion witnesses, normalising constructors).")
    rep.trusted.update(["clang++-16 front end", "IEEE-754 / C11 Annex F table of atan2 at signed zeros"])
    rep.assumptions.append("SE_K_3<1> == SE3, SE_K_3<2> in Galilei (composition, inverse), rot_i(t) = exp(t e_i) and the lift/project relations are decided by rules E.P / E.R (the transcendental ones along rays through the identity); Euler / isometry round trips and the C1 factorisation are NOT decided")
    d = fe.ast_dumps(["smooth::SO2", "SO3", "Impl"])
    rep.unit("umbrella TU filtered SO2 / SO3 / Impl")
    check_g1(rep, A.index(d["smooth::SO2"]))
    c15.check_r3(rep, d["smooth::SO2"] + d["SO3"])
    c15.check_r5(rep, d["smooth::SO2"] + d["SO3"])
    # canonical hemisphere of every conversion that produces an SO3 part
    c15.check_r1(rep, tier, only_conversions=True)
    c17e.run(rep, tier)
