"""static_assert witnesses over the constexpr tables of polynomial/basis.hpp and quadrature.hpp (C20, C13-Q1, C12-S3).

The objects checked are compile-time constants of the program; identities are stated in coefficient space (hence hold
for every evaluation point) or against the mathematical definition computed here independently with exact rationals.
Nothing is linked or run; g++'s constant evaluator discharges each obligation (clang++ as second opinion, thorough tier).
"""
from fractions import Fraction
from math import comb, factorial

import fe
import wit
from report import Finding

PRELUDE = r"""
#include <cmath>
#include <array>
#include <cstddef>
#include <Eigen/Core>
#include <smooth/polynomial/basis.hpp>
#include <smooth/polynomial/quadrature.hpp>
namespace vw {
using smooth::StaticMatrix;
using smooth::PolynomialBasis;
constexpr double cabs(double x) { return x < 0 ? -x : x; }
// max over entries of |M - E| / max(1, max_i |E[i][j]|)   (error relative to the largest coefficient of basis function j)
template<std::size_t R, std::size_t C>
constexpr double relerr(const StaticMatrix<double, R, C> & M, const double (&E)[R][C])
{
  double worst = 0;
  for (std::size_t j = 0; j < C; ++j) {
    double s = 1;
    for (std::size_t i = 0; i < R; ++i) { if (cabs(E[i][j]) > s) s = cabs(E[i][j]); }
    for (std::size_t i = 0; i < R; ++i) {
      const double e = cabs(M[i][j] - E[i][j]) / s;
      if (!(e <= worst)) worst = e;   // NaN-propagating
    }
  }
  return worst;
}
// d-th derivative of basis function j (column j of coefficient table B) at u
template<std::size_t N>
constexpr double dval(const StaticMatrix<double, N, N> & B, std::size_t j, std::size_t d, double u)
{
  double s = 0;
  for (std::size_t i = d; i < N; ++i) {
    double c = 1;
    for (std::size_t k = 0; k < d; ++k) c *= double(i - k);
    double p = 1;
    for (std::size_t k = 0; k < i - d; ++k) p *= u;
    s += c * p * B[i][j];
  }
  return s;
}
template<std::size_t N>
constexpr double colscale(const StaticMatrix<double, N, N> & B, std::size_t j)
{
  double s = 1;
  for (std::size_t i = 0; i < N; ++i) if (cabs(B[i][j]) > s) s = cabs(B[i][j]);
  return s;
}
}
"""

TOL = "1e-12"


def cpp_double(q):
    return repr(float(q))


def table_literal(name, rows):
    body = ", ".join("{" + ", ".join(cpp_double(x) for x in r) + "}" for r in rows)
    return "constexpr double %s[%d][%d] = {%s};" % (name, len(rows), len(rows[0]), body)


# ---- exact definitions (coefficients: rows = power of u, columns = basis function) ----------

def poly_mul(a, b):
    r = [Fraction(0)] * (len(a) + len(b) - 1)
    for i, x in enumerate(a):
        for j, y in enumerate(b):
            r[i + j] += x * y
    return r


def poly_add(a, b, sa=1, sb=1):
    n = max(len(a), len(b))
    return [sa * (a[i] if i < len(a) else 0) + sb * (b[i] if i < len(b) else 0) for i in range(n)]


def cols_to_table(cols, K):
    return [[(cols[j][i] if i < len(cols[j]) else Fraction(0)) for j in range(K + 1)] for i in range(K + 1)]


def bernstein(K):
    cols = []
    for j in range(K + 1):
        p = [Fraction(comb(K, j))]
        for _ in range(j):
            p = poly_mul(p, [Fraction(0), Fraction(1)])
        for _ in range(K - j):
            p = poly_mul(p, [Fraction(1), Fraction(-1)])
        cols.append(p)
    return cols_to_table(cols, K)


def cardinal_bspline_pieces(K):
    """pieces[m] = polynomial (in local u in [0,1]) of the cardinal B-spline N_K on [m, m+1], m = 0..K (Cox-de Boor)."""
    pieces = {0: [[Fraction(1)]]}
    for k in range(1, K + 1):
        prev = pieces[k - 1]
        cur = []
        for m in range(k + 1):
            # N_k(t) = t/k N_{k-1}(t) + (k+1-t)/k N_{k-1}(t-1),  t = m + u
            acc = [Fraction(0)]
            if m <= k - 1:
                acc = poly_add(acc, poly_mul([Fraction(m, k), Fraction(1, k)], prev[m]))
            if 0 <= m - 1 <= k - 1:
                acc = poly_add(acc, poly_mul([Fraction(k + 1 - m, k), Fraction(-1, k)], prev[m - 1]))
            cur.append(acc)
        pieces[k] = cur
    return pieces[K]


def bspline(K):
    pcs = cardinal_bspline_pieces(K)
    cols = [pcs[K - j] for j in range(K + 1)]    # b_j(u) = N_K(u + K - j)
    return cols_to_table(cols, K)


def recurrence(K, p0, p1, step):
    ps = [p0, p1]
    for n in range(1, K):
        ps.append(step(n, ps[n], ps[n - 1]))
    return cols_to_table(ps[:K + 1], K)


X = [Fraction(0), Fraction(1)]


def legendre(K):
    return recurrence(K, [Fraction(1)], X, lambda n, pn, pm: [c / (n + 1) for c in poly_add(poly_mul([Fraction(0), Fraction(2 * n + 1)], pn), pm, 1, -n)])


def cheb1(K):
    return recurrence(K, [Fraction(1)], X, lambda n, pn, pm: poly_add(poly_mul([Fraction(0), Fraction(2)], pn), pm, 1, -1))


def cheb2(K):
    return recurrence(K, [Fraction(1)], [Fraction(0), Fraction(2)], lambda n, pn, pm: poly_add(poly_mul([Fraction(0), Fraction(2)], pn), pm, 1, -1))


def hermite(K):
    return recurrence(K, [Fraction(1)], [Fraction(0), Fraction(2)], lambda n, pn, pm: poly_add(poly_mul([Fraction(0), Fraction(2)], pn), pm, 1, -2 * n))


def laguerre(K):
    return recurrence(K, [Fraction(1)], [Fraction(1), Fraction(-1)],
                      lambda n, pn, pm: [c / (n + 1) for c in poly_add(poly_mul([Fraction(2 * n + 1), Fraction(-1)], pn), pm, 1, -n)])


def monomial(K):
    return [[Fraction(int(i == j)) for j in range(K + 1)] for i in range(K + 1)]


def cumulative(tab):
    n = len(tab)
    return [[sum(tab[i][jj] for jj in range(j, n)) for j in range(n)] for i in range(n)]


BASES = {"Monomial": monomial, "Bernstein": bernstein, "Bspline": bspline, "Legendre": legendre, "Chebyshev1st": cheb1,
         "Chebyshev2nd": cheb2, "Hermite": hermite, "Laguerre": laguerre}


def basis_witnesses(kmax=10):
    ws = []
    for name, fn in BASES.items():
        for K in range(kmax + 1):
            E = fn(K)
            ws.append(wit.Wit("def_%s_%d" % (name, K), "",
                              table_literal("E", E) + "\nstatic_assert(vw::relerr(smooth::polynomial_basis<vw::PolynomialBasis::%s, %d>(), E) <= %s, "
                              "\"polynomial_basis<%s,%d> differs from its definition\");" % (name, K, TOL, name, K),
                              what="polynomial_basis<%s,%d> == definition (exact rationals)" % (name, K), group="basis-definition"))
    for name in ("Bernstein", "Bspline"):
        for K in range(kmax + 1):
            E = cumulative(BASES[name](K))
            d = table_literal("E", E) + "\nconstexpr auto M = smooth::polynomial_cumulative_basis<vw::PolynomialBasis::%s, %d>();\n" % (name, K)
            d += "static_assert(vw::relerr(M, E) <= %s, \"cumulative basis differs from suffix sums of the definition\");\n" % TOL
            # column 0 is the constant 1
            d += "static_assert(vw::cabs(M[0][0] - 1) <= %s, \"cumulative basis does not start with the constant 1\");\n" % TOL
            d += "constexpr bool col0const = [] { for (std::size_t i = 1; i < %d; ++i) if (vw::cabs(M[i][0]) > %s) return false; return true; }();\n" % (K + 1, TOL)
            d += "static_assert(col0const, \"cumulative basis column 0 is not constant\");\n"
            if name == "Bernstein":
                d += ("constexpr bool ends = [] { for (std::size_t j = 1; j < %d; ++j) { if (vw::cabs(vw::dval(M, j, 0, 0.)) > %s) return false; "
                      "if (vw::cabs(vw::dval(M, j, 0, 1.) - 1) > 1e-9) return false; } return true; }();\n" % (K + 1, TOL))
                d += "static_assert(ends, \"cumulative Bernstein basis does not run from 0 at u=0 to 1 at u=1\");\n"
            ws.append(wit.Wit("cum_%s_%d" % (name, K), "", d, what="polynomial_cumulative_basis<%s,%d>" % (name, K), group="cumulative"))
            # partition of unity in coefficient space
            d2 = "constexpr auto B = smooth::polynomial_basis<vw::PolynomialBasis::%s, %d>();\n" % (name, K)
            d2 += ("constexpr bool pou = [] { for (std::size_t i = 0; i < %d; ++i) { double s = 0; for (std::size_t j = 0; j < %d; ++j) s += B[i][j]; "
                   "if (vw::cabs(s - (i == 0 ? 1. : 0.)) > %s) return false; } return true; }();\n" % (K + 1, K + 1, TOL))
            d2 += "static_assert(pou, \"basis functions do not sum to one\");\n"
            ws.append(wit.Wit("pou_%s_%d" % (name, K), "", d2, what="sum_j b_j == 1 in coefficient space (%s,%d)" % (name, K), group="partition-of-unity"))
    return ws


def knot_witnesses(kmin=1, kmax=6):
    """C13 Q1: knot continuity identities directly on the B-spline table."""
    ws = []
    for K in range(kmin, kmax + 1):
        d = "constexpr auto B = smooth::polynomial_basis<vw::PolynomialBasis::Bspline, %d>();\n" % K
        d += ("constexpr bool cont = [] {\n"
              "  for (std::size_t d = 0; d + 1 <= %d; ++d) {\n"
              "    for (std::size_t j = 0; j + 1 <= %d; ++j) {\n"
              "      const double s = vw::colscale(B, j) + vw::colscale(B, j + 1);\n"
              "      if (vw::cabs(vw::dval(B, j + 1, d, 1.) - vw::dval(B, j, d, 0.)) > 1e-11 * s * %d) return false;\n"
              "    }\n"
              "    if (vw::cabs(vw::dval(B, 0, d, 1.)) > 1e-11 * %d) return false;\n"
              "    if (vw::cabs(vw::dval(B, %d, d, 0.)) > 1e-11 * %d) return false;\n"
              "  }\n  return true; }();\n" % (K, K, factorial(K), factorial(K), K, factorial(K)))
        d += "static_assert(cont, \"B-spline basis pieces do not join C^(K-1) at the knots\");\n"
        ws.append(wit.Wit("knot_%d" % K, "", d, what="b_{j+1}^(d)(1)=b_j^(d)(0), b_0^(d)(1)=0, b_K^(d)(0)=0 for d<=K-1 (K=%d)" % K, group="knot-continuity"))
        d3 = "constexpr auto M = smooth::polynomial_cumulative_basis<vw::PolynomialBasis::Bspline, %d>();\n" % K
        d3 += "constexpr auto B = smooth::polynomial_basis<vw::PolynomialBasis::Bspline, %d>();\n" % K
        d3 += ("constexpr bool suffix = [] { for (std::size_t i = 0; i < %d; ++i) for (std::size_t j = 0; j < %d; ++j) { double s = 0; "
               "for (std::size_t jj = j; jj < %d; ++jj) s += B[i][jj]; if (vw::cabs(M[i][j] - s) > 1e-12) return false; } return true; }();\n" % (K + 1, K + 1, K + 1))
        d3 += "static_assert(suffix, \"cumulative B-spline basis is not the suffix sum of the basis\");\n"
        ws.append(wit.Wit("cumsuffix_%d" % K, "", d3, what="Bcum_j = sum_{i>=j} b_i (K=%d)" % K, group="cumulative-suffix"))
    return ws


def utility_witnesses(kmax=10):
    ws = []
    nodes = [Fraction(0), Fraction(1, 2), Fraction(1), Fraction(-3, 4), Fraction(2)]
    for K in range(kmax + 1):
        d = ""
        for ui, u in enumerate(nodes):
            for p in range(K + 2):
                row = [(Fraction(factorial(i), factorial(i - p)) * (u ** (i - p)) if i >= p else Fraction(0)) for i in range(K + 1)]
                d += "constexpr double E_%d_%d[1][%d] = {{%s}};\n" % (ui, p, K + 1, ", ".join(cpp_double(x) for x in row))
                d += ("static_assert(vw::relerr(smooth::monomial_derivative<%d, double>(%s, %d), E_%d_%d) <= %s, \"monomial_derivative<%d>(%s, %d)\");\n"
                      % (K, cpp_double(u), p, ui, p, TOL, K, u, p))
        ws.append(wit.Wit("mder_%d" % K, "", d, what="monomial_derivative<%d>(u,p) == k!/(k-p)! u^(k-p) at 5 rational nodes, p=0..%d" % (K, K + 1), group="monomial-derivative"))
        P = min(K, 3)
        rows = [[Fraction(factorial(u) * (u ** 0), 1) for u in range(1)]]
        E = []
        for p in range(P + 1):
            E.append([(Fraction(factorial(i), factorial(i - p)) * (Fraction(1, 2) ** (i - p)) if i >= p else Fraction(0)) for i in range(K + 1)])
        d = table_literal("E", E) + "\nstatic_assert(vw::relerr(smooth::monomial_derivatives<%d, %d, double>(0.5), E) <= %s, \"monomial_derivatives\");\n" % (K, P, TOL)
        ws.append(wit.Wit("mders_%d" % K, "", d, what="monomial_derivatives<%d,%d>(1/2)" % (K, P), group="monomial-derivative"))
        for P in range(0, K + 2):
            E = [[(Fraction(factorial(i), factorial(i - P)) * Fraction(factorial(j), factorial(j - P)) / (i + j - 2 * P + 1) if (i >= P and j >= P) else Fraction(0))
                  for j in range(K + 1)] for i in range(K + 1)]
            d = table_literal("E", E) + "\nstatic_assert(vw::relerr(smooth::monomial_integral<%d, %d, double>(), E) <= %s, \"monomial_integral<%d,%d>\");\n" % (K, P, TOL, K, P)
            ws.append(wit.Wit("mint_%d_%d" % (K, P), "", d, what="monomial_integral<%d,%d> == int_0^1 d^P u^i d^P u^j" % (K, P), group="monomial-integral"))
    # lagrange basis: Kronecker property at constexpr nodes
    for K in range(0, kmax + 1):
        ts = [Fraction(k, K) if K else Fraction(0) for k in range(K + 1)]
        ts2 = [Fraction(-1) + Fraction(2 * k * k + k, (2 * K * K + K)) * 2 if K else Fraction(0) for k in range(K + 1)]   # non-uniform
        for tag, nodes_ in (("uni", ts), ("nonuni", ts2)):
            arr = ", ".join(cpp_double(t) for t in nodes_)
            # exact definition at the *double* node values the code actually receives
            fn = [Fraction(float(t)) for t in nodes_]
            cols = []
            for i in range(K + 1):
                pol = [Fraction(1)]
                for j in range(K + 1):
                    if j != i:
                        pol = [c / (fn[i] - fn[j]) for c in poly_mul(pol, [-fn[j], Fraction(1)])]
                cols.append(pol)
            E = cols_to_table(cols, K)
            d = "constexpr std::array<double, %d> ts{%s};\nconstexpr auto L = smooth::lagrange_basis<%d>(ts);\n" % (K + 1, arr, K)
            d += table_literal("E", E) + "\nstatic_assert(vw::relerr(L, E) <= 1e-11, \"lagrange_basis differs from prod_{j!=i} (t-t_j)/(t_i-t_j)\");\n"
            # Kronecker property, tolerance scaled by the size of the coefficients (monomial representation is ill-conditioned)
            d += ("constexpr bool kron = [] { for (std::size_t i = 0; i < %d; ++i) for (std::size_t j = 0; j < %d; ++j) { "
                  "const double v = vw::dval(L, i, 0, ts[j]); if (vw::cabs(v - (i == j ? 1. : 0.)) > 1e-14 * %d * vw::colscale(L, i)) return false; } return true; }();\n" % (K + 1, K + 1, K + 1))
            d += "static_assert(kron, \"lagrange_basis does not interpolate: p_i(t_j) != delta_ij\");\n"
            ws.append(wit.Wit("lagrange_%s_%d" % (tag, K), "", d, what="lagrange_basis<%d> == definition and p_i(t_j)=delta_ij (%s nodes)" % (K, tag), group="lagrange"))
    for K in range(1, 17):
        d = "constexpr auto nw = smooth::lgr_nodes<%d>();\n" % K
        d += ("constexpr bool exact = [] { for (std::size_t p = 0; p + 2 <= 2 * %d; ++p) { double s = 0; for (std::size_t i = 0; i < %d; ++i) { double x = 1; "
              "for (std::size_t k = 0; k < p; ++k) x *= nw.first[i]; s += nw.second[i] * x; } const double I = (p %% 2 == 0) ? 2. / double(p + 1) : 0.; "
              "if (!(vw::cabs(s - I) <= 1e-9)) return false; } return true; }();\n" % (K, K))
        d += "static_assert(exact, \"lgr_nodes<%d> does not integrate polynomials of degree <= 2K-2 exactly\");\n" % K
        d += "constexpr bool inrange = [] { for (std::size_t i = 0; i < %d; ++i) { if (!(nw.first[i] >= -1 - 1e-12 && nw.first[i] < 1)) return false; if (!(nw.second[i] > 0)) return false; } return vw::cabs(nw.first[0] + 1) <= 1e-12; }();\n" % K
        d += "static_assert(inrange, \"lgr_nodes: nodes not in [-1,1) with first node -1 / non-positive weight\");\n"
        ws.append(wit.Wit("lgr_%d" % K, "", d, what="lgr_nodes<%d>: sum w_i x_i^p = int_{-1}^{1} x^p, p<=2K-2; nodes in [-1,1), weights>0" % K, group="lgr"))
    return ws


def run(rep, rule, wits, what, minimum, second_compiler=False, extra_flags=()):
    rep.rule(rule, what, minimum=minimum)
    failed, unattr, raw = wit.compile_batch(PRELUDE, wits, name="tables_" + rule)
    rep.cmds.append("g++ -std=gnu++20 -fsyntax-only -fmax-errors=0 (batched static_assert witnesses)")
    rep.trusted.add("g++ 12 constant evaluator (IEEE double arithmetic)")
    if unattr:
        rep.broke("static_assert batch %s has errors not attributable to a witness: %s" % (rule, unattr[:2]))
    failed2 = {}
    if second_compiler:
        failed2, unattr2, raw2 = wit.compile_batch(PRELUDE, wits, compiler=fe.clangxx(), name="tables2_" + rule)
        rep.trusted.add("clang++-16 constant evaluator (second opinion)")
        if unattr2:
            rep.broke("clang second-opinion batch %s has unattributable errors: %s" % (rule, unattr2[:2]))
    for w in wits:
        bad = w.id in failed or w.id in failed2
        rep.instance(rule, w.group, w.id, ok=not bad, sample={"obligation": w.what})
        if bad:
            errs = failed.get(w.id) or failed2.get(w.id)
            msg = next((e for e in errs if "static assertion failed" in e or "static_assert" in e), errs[0])
            not_const = any("non-constant condition" in e or "not a constant expression" in e or "is not constant" in e for e in errs)
            if not_const and not any("static assertion failed" in e for e in errs):
                rep.broke("witness %s could not be constant-evaluated: %s" % (w.id, msg[-200:]))
            else:
                rep.violation(Finding(rule, w.group, w.id, "%s -- obligation: %s" % (msg[-160:], w.what),
                                      "include/smooth/polynomial/basis.hpp", None))
