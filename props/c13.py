"""C13 -- BSpline is a C^(K-1), local, left-equivariant curve (structural clauses Q1, Q2, S4, S5)."""
import astlib as A
import fe
import splines
import tables


def check(rep, tier, replay=None):
    rep.explanations.append(
        "C13: Q1 knot-continuity / suffix-sum identities of the constexpr cardinal B-spline tables (K=1..6) discharged by static_assert "
        "(necessary and, on vector spaces, sufficient for C^(K-1), locality and constant reproduction); Q2 window and clamping of "
        "BSpline::operator() by abstract execution of its interval selection over exact rationals; optional outputs defined on all "
        "paths; chain-rule factors by dimension analysis.")
    rep.trusted.update(["clang++-16 front end", "g++ 12 constant evaluator", "lib/pe.py"])
    rep.assumptions.append("left-equivariance and continuity on curved groups rest on C11 (cumulative evaluation), not decided here")
    kmax = 6 if tier == "quick" else 8
    tables.run(rep, "Q1", tables.knot_witnesses(1, kmax) + [w for w in tables.basis_witnesses(kmax) if "Bspline" in w.id],
               "cardinal B-spline tables: knot continuity up to order K-1, suffix sums, equality with Cox-de Boor definition, partition of unity", 20,
               second_compiler=(tier == "thorough"))
    d = fe.ast_dumps(["Spline", "cspline_eval"])
    idx = A.index(d["Spline"])
    idx_cs = A.index(d["cspline_eval"])
    rep.unit("umbrella TU filtered Spline / cspline_eval; 1 batched static_assert TU")
    # the table used by BSpline::operator() is the cumulative B-spline basis
    bs = splines.one(rep, idx, "BSpline::operator()")
    rep.rule("Q1b", "BSpline evaluates with polynomial_cumulative_basis<Bspline, K>", minimum=1)
    if bs is not None:
        ok = "polynomial_cumulative_basis<PolynomialBasis::Bspline,K,double>()" in A.ntext(A.body(bs.node))
        rep.instance("Q1b", "BSpline::operator()", "basis", ok=ok, sample={"file": fe.rel(bs.file), "line": bs.line})
        if not ok:
            rep.broke("BSpline::operator() no longer uses polynomial_cumulative_basis<Bspline,K,double>(); Q1 does not cover the table in use")
    splines.check_q2(rep, idx)
    splines.check_s4(rep, idx, idx_cs, ["BSpline::operator()"])
    splines.check_s5_bspline(rep, idx)
    splines.check_x1(rep, idx_cs)
