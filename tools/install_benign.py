#!/usr/bin/env python3
"""install_benign.py <agent out dir> <property> [extra checks ...]: copies out/<k>/{patch.diff,notes.md} to benign/<property>-r<k>/"""
import json, os, shutil, sys
VERIF = os.path.dirname(os.path.dirname(os.path.abspath(__file__)))
out, prop = sys.argv[1], sys.argv[2]
extra = sys.argv[3:]
import subprocess
H = subprocess.run(["git", "-C", "/repo", "rev-parse", "--short", "HEAD"], capture_output=True, text=True).stdout.strip()
for k in sorted(os.listdir(out)):
    p = os.path.join(out, k, "patch.diff")
    if not os.path.isfile(p):
        continue
    n = 1
    while os.path.exists(os.path.join(VERIF, "benign", "%s-r%d" % (prop, n))):
        n += 1
    dst = os.path.join(VERIF, "benign", "%s-r%d" % (prop, n))
    os.makedirs(dst)
    shutil.copy(p, dst)
    if os.path.exists(os.path.join(out, k, "notes.md")):
        shutil.copy(os.path.join(out, k, "notes.md"), dst)
    json.dump({"property": prop, "checks": [prop] + extra, "applies_to_repo_commit": H,
               "source": "sub-agent given only the property text and its own worktree; suite 391/391 with the change"}, open(os.path.join(dst, "meta.json"), "w"), indent=1)
    print(dst)
