"""AST rule X1 on cspline_eval_vs shared by C11 and C13 (the Spline / BSpline member-function rules moved to props/splinem.py, engine M).

X1  one loop iteration of cspline_eval_vs abstracted into a free Lie-algebra normal form and compared with the product-rule recursion
"""
import re
from fractions import Fraction

import astlib as A
import fe
import pe
from report import Finding

FIVE = ["m_end_t", "m_end_g", "m_Vs", "m_seg_T0", "m_seg_Del"]


def funcs(idx, qname):
    return [d for d in idx if d.kind in A.FUNCS and d.pattern and d.qname == qname and d.file and d.file.startswith(fe.INCLUDE)
            and A.body(d.node) is not None]



class DimErr(Exception):
    pass


POLY = "poly"   # literal: takes the dimension of its context in + - compare


def fmt(d):
    if d == POLY:
        return "1"
    return "T^%d U^%d" % d


class XErr(Exception):
    pass


def _smul(c1, c2):
    """product of scalar polynomials {monomial tuple: Fraction}"""
    out = {}
    for m1, a in c1.items():
        for m2, b in c2.items():
            m = tuple(sorted(m1 + m2))
            out[m] = out.get(m, 0) + a * b
    return {m: c for m, c in out.items() if c != 0}


def _ladd(x, y, sign=1):
    out = dict(x)
    for t, c in y.items():
        cur = dict(out.get(t, {}))
        for m, a in c.items():
            cur[m] = cur.get(m, 0) + sign * a
        cur = {m: a for m, a in cur.items() if a != 0}
        if cur:
            out[t] = cur
        elif t in out:
            del out[t]
    return out


def _lscale(x, c):
    out = {}
    for t, ct in x.items():
        p = _smul(ct, c)
        if p:
            out[t] = p
    return out


def _lbr(x, y):
    out = {}
    for tx, cx in x.items():
        for ty, cy in y.items():
            if tx == ty:
                continue                      # [a, a] = 0
            out = _ladd(out, {("br", tx, ty): _smul(cx, cy)})
    return out


def _lapp(kind, x):
    return {("T", kind, t): c for t, c in x.items()}


ONE = {(): Fraction(1)}



def anchoring_form(fn):
    """(True, '') when cspline_eval_gs returns composition(first(gs), cspline_eval_vs(vs, Bcum, u, vel, acc, jer)) with
    vs = gs | pairwise_transform((x1, x2) -> x2 (-) x1); (False, reason) when a recognised part is definitely different;
    (None, reason) when the shape is not understood"""
    ps = [p.get("name") for p in A.params(fn)]
    if len(ps) != 6:
        return None, "%d parameters" % len(ps)
    gsn, bn, un, veln, accn, jern = ps
    locs = {}
    lam = {}
    for x in A.walk_nolambda(A.body(fn)):
        if x.get("kind") == "VarDecl" and A.kids(x):
            init = A.strip(A.kids(x)[-1])
            if init.get("kind") == "LambdaExpr":
                lam[x.get("name")] = init
            else:
                locs[x.get("name")] = A.to_expr(init)
    rets = [x for x in A.walk_nolambda(A.body(fn)) if x.get("kind") == "ReturnStmt"]
    if len(rets) != 1:
        return None, "%d return statements" % len(rets)
    r = A.to_expr(A.kids(rets[0])[0])

    def nm(e):
        return str(e[1]).split("::")[-1].split("<")[0]
    if not (r[0] == "call" and nm(r) == "composition" and len(r[2]) == 2):
        if r[0] == "op" and r[1] == "*":
            r = ("call", "composition", [r[2], r[3]])
        else:
            return None, "return expression %s" % A.show(r)[:60]
    first, rest = r[2]
    # anchor: *begin(gs) / gs.front() / gs[0]
    f = first
    is_first = ((f[0] == "un" and f[1] == "*" and f[2][0] == "call" and nm(f[2]) in ("begin", "cbegin") and f[2][2] and f[2][2][0][:2] == ("ref", gsn))
                or (f[0] == "mcall" and f[1][:2] == ("ref", gsn) and f[2] == "front")
                or (f[0] == "sub" and f[1][:2] == ("ref", gsn) and f[2] == [("num", 0)]))
    if not is_first:
        return False, "the anchor is %s, not the first control point" % A.show(first)[:40]
    if not (rest[0] == "call" and nm(rest) == "cspline_eval_vs"):
        return None, "second factor %s" % A.show(rest)[:60]
    args = rest[2]
    if len(args) != 6:
        return False, "cspline_eval_vs is called with %d arguments: a derivative output is not forwarded" % len(args)
    want = [None, bn, un, veln, accn, jern]
    for i in range(1, 6):
        if not (args[i][0] == "ref" and args[i][1] == want[i]):
            return False, "argument %d of cspline_eval_vs is %s, expected %s" % (i + 1, A.show(args[i])[:30], want[i])
    v = args[0]
    while v[0] == "ref" and v[1] in locs:
        v = locs[v[1]]
    if not (v[0] == "op" and v[1] == "|" and v[2][:2] == ("ref", gsn) and v[3][0] == "call" and nm(v[3]) == "pairwise_transform" and len(v[3][2]) == 1):
        return None, "differences are computed as %s" % A.show(v)[:60]
    fnarg = v[3][2][0]
    if not (fnarg[0] == "ref" and fnarg[1] in lam):
        return None, "difference functor %s" % A.show(fnarg)[:40]
    L = lam[fnarg[1]]
    def raw(n):
        yield n
        for c_ in n.get("inner", []) or []:
            if isinstance(c_, dict):
                yield from raw(c_)
    ops = [x for x in raw(L) if x.get("kind") == "CXXMethodDecl" and x.get("name") == "operator()"]
    lps = [p_.get("name") for p_ in ops[0].get("inner", []) if p_.get("kind") == "ParmVarDecl"] if ops else []
    lb = A.lambda_body(L)
    lrets = [x for x in A.walk(lb) if x.get("kind") == "ReturnStmt"] if lb is not None else []
    if len(lps) != 2 or len(lrets) != 1:
        return None, "difference lambda shape"
    e = A.to_expr(A.kids(lrets[0])[0])
    if e[0] == "call" and nm(e) == "rminus" and len(e[2]) == 2:
        a1, a2 = e[2]
    elif e[0] == "op" and e[1] == "-":
        a1, a2 = e[2], e[3]
    else:
        return None, "difference lambda returns %s" % A.show(e)[:40]
    if a1[:2] == ("ref", lps[1]) and a2[:2] == ("ref", lps[0]):
        return True, ""
    if a1[:2] == ("ref", lps[0]) and a2[:2] == ("ref", lps[1]):
        return False, "the differences are g_{i-1} (-) g_i (arguments of the difference swapped)"
    return None, "difference lambda arguments"


def check_x1(rep, idx_cs):
    rep.rule("X1", "cspline_eval_vs: vel/acc/jerk follow the body-derivative recursion of the cumulative product (free Lie-algebra normal form)", minimum=3)
    fns = funcs(idx_cs, "cspline_eval_vs")
    if len(fns) != 1:
        rep.broke("X1: cspline_eval_vs not found")
        return
    d = fns[0]
    b = A.body(d.node)
    loops = [x for x in A.kids(b) if x.get("kind") == "CXXForRangeStmt"]
    if len(loops) != 1:
        rep.broke("X1: expected one range-for over the difference vectors in cspline_eval_vs")
        return
    # derivative order of the monomial rows
    order_of = {}
    for x in A.walk(b):
        if x.get("kind") == "VarDecl" and A.kids(x):
            t = A.ntext(A.kids(x)[-1])
            m = re.search(r"U\[(\d)\]\.data\(\)", t)
            if m:
                order_of[x.get("name")] = int(m.group(1))
    if sorted(order_of.values()) != [0, 1, 2, 3]:
        rep.broke("X1: rows of the monomial-derivative table not identified (%s)" % order_of)
        return
    # loop variable names (structured binding [j, vj])
    lv = [k.get("name") for x in A.walk(loops[0]) if x.get("kind") == "DecompositionDecl" for k in A.kids(x) if k.get("kind") == "BindingDecl"]
    if len(lv) != 2:
        rep.broke("X1: loop over zip(iota, vs) with bindings [j, vj] not recognised")
        return
    jn, vn = lv
    scal = {}      # name -> scalar polynomial
    lie = {}       # name -> lie normal form
    grp = {}       # name -> ('exp', sign) group element exp(+-B0 v)
    trans = {}     # name -> transport kind
    state = {"vel": {("vel0",): ONE}, "acc": {("acc0",): ONE}, "jer": {("jer0",): ONE}}
    state = {k: {next(iter(v))[0] if False else k + "0": ONE} for k, v in state.items()}

    def sc(e):
        if e[0] == "num":
            return {(): Fraction(e[1])}
        if e[0] == "ref" and e[1] in scal:
            return scal[e[1]]
        if e[0] == "op" and e[1] == "*":
            return _smul(sc(e[2]), sc(e[3]))
        if e[0] == "neg":
            return _smul({(): Fraction(-1)}, sc(e[1]))
        raise XErr("scalar %s" % A.show(e)[:50])

    def is_scalar(e):
        try:
            sc(e)
            return True
        except XErr:
            return False

    def target(e):
        """'vel'|'acc'|'jer' if e is X.value() / *X / X.value().noalias()"""
        t = re.sub(r"\s", "", A.show(e))
        m = re.match(r"^(vel|acc|jer)(\.value\(\))?(\.noalias\(\))?$", t)
        return m.group(1) if m else None

    def lv_(e):
        if e[0] == "ref" and e[1] == vn:
            return {"v": ONE}
        if e[0] == "ref" and e[1] in lie:
            return lie[e[1]]
        tg = target(e)
        if tg:
            return state[tg]
        if e[0] == "op" and e[1] == "*":
            # ad(X) * Y  |  scalar * Lie | Lie * scalar | (scalar * ad(X)) * Y
            l, r = e[2], e[3]
            if l[0] == "call" and str(l[1]).split("::")[-1].split("<")[0] == "ad" and len(l[2]) == 1:
                return _lbr(lv_(l[2][0]), lv_(r))
            if l[0] == "op" and l[1] == "*" and l[3][0] == "call" and str(l[3][1]).split("::")[-1].split("<")[0] == "ad" and is_scalar(l[2]):
                return _lscale(_lbr(lv_(l[3][2][0]), lv_(r)), sc(l[2]))
            if is_scalar(l):
                return _lscale(lv_(r), sc(l))
            if is_scalar(r):
                return _lscale(lv_(l), sc(r))
        if e[0] == "op" and e[1] in ("+", "-"):
            return _ladd(lv_(e[2]), lv_(e[3]), 1 if e[1] == "+" else -1)
        if e[0] == "neg":
            return _lscale(lv_(e[1]), {(): Fraction(-1)})
        raise XErr("Lie-algebra expression %s" % A.show(e)[:60])

    def gv(e):
        """group element: exp(s * B0 * v)"""
        if e[0] == "ref" and e[1] in grp:
            return grp[e[1]]
        if e[0] == "call" and str(e[1]).split("::")[-1].split("<")[0] == "exp" and len(e[2]) == 1:
            a = lv_(e[2][0])
            if set(a) == {"v"} and a["v"] in ({("B0",): Fraction(1)}, {("B0",): Fraction(-1)}):
                return ("exp", int(next(iter(a["v"].values()))))
            raise XErr("exp of %s" % a)
        if e[0] == "call" and str(e[1]).split("::")[-1].split("<")[0] == "inverse" and len(e[2]) == 1:
            g = gv(e[2][0])
            return ("exp", -g[1])
        raise XErr("group expression %s" % A.show(e)[:50])

    def tv(e):
        if e[0] == "ref" and e[1] in trans:
            return trans[e[1]]
        if e[0] == "call" and str(e[1]).split("::")[-1].split("<")[0] == "Ad" and len(e[2]) == 1:
            g = gv(e[2][0])
            return "Ad(exp(-B v))" if g[1] == -1 else "Ad(exp(+B v))"
        if e[0] == "mcall" and e[2] in ("inverse", "transpose") and not e[4]:
            inner = tv(e[1])
            if e[2] == "inverse":
                return {"Ad(exp(-B v))": "Ad(exp(+B v))", "Ad(exp(+B v))": "Ad(exp(-B v))"}.get(inner, inner + "^-1")
            return inner + "^T"
        raise XErr("transport operator %s" % A.show(e)[:50])

    value_steps = []
    guard_skips = []

    def run(node):
        for s in A.kids(node):
            k = s.get("kind")
            if k == "DeclStmt":
                for v in A.kids(s):
                    if v.get("kind") != "VarDecl" or not A.kids(v):
                        continue
                    e = A.to_expr(A.kids(v)[-1])
                    nm = v.get("name")
                    t = re.sub(r"\s", "", A.show(e))
                    m = re.match(r"^(\w+)\.dot\(Bcum\.col\((\w+)\)\)$", t)
                    if m and m.group(1) in order_of and m.group(2) == jn:
                        scal[nm] = {("B%d" % order_of[m.group(1)],): Fraction(1)}
                        continue
                    for fn_, store in ((gv, grp), (tv, trans), (lv_, lie)):
                        try:
                            store[nm] = fn_(e)
                            break
                        except XErr:
                            continue
                    else:
                        raise XErr("declaration %s = %s" % (nm, A.show(e)[:60]))
            elif k == "IfStmt":
                c = A.to_expr(A.kids(s)[0])
                conj = []

                def flat(x):
                    if x[0] == "op" and x[1] == "&&":
                        flat(x[2])
                        flat(x[3])
                    else:
                        conj.append(x)
                flat(c)
                req = [x for x in conj if x[0] == "mcall" and x[2] == "has_value"]
                extra = [x for x in conj if not (x[0] == "mcall" and x[2] == "has_value")]
                if not req:
                    raise XErr("condition %s" % A.show(c))
                if extra:
                    # an additional guard on the degree: the update is skipped for the degrees that falsify it
                    import pe as _pe
                    skipped = []
                    for kdeg in range(1, 7):
                        try:
                            if not all(_pe.ev(x, {"K": kdeg}) for x in extra):
                                skipped.append(kdeg)
                        except _pe.PEError as ex_:
                            raise XErr("guard %s of a derivative update is not a condition on the degree K (%s)" % (A.show(c)[:60], ex_))
                    tg = sorted({str(x[1][1]) for x in req if x[1][0] == "ref"})
                    guard_skips.append((A.show(c)[:80], skipped, tg, s))
                run(A.kids(s)[1])
            elif k == "CompoundStmt":
                run(s)
            elif k in ("CallExpr", "CXXMemberCallExpr"):
                e = A.to_expr(s)
                if e[0] == "mcall" and e[2] == "applyOnTheLeft" and target(e[1]) and len(e[4]) == 1:
                    tg = target(e[1])
                    state[tg] = _lapp(tv(e[4][0]), state[tg])
                else:
                    raise XErr("statement %s" % A.show(e)[:60])
            elif k in ("CompoundAssignOperator", "BinaryOperator", "CXXOperatorCallExpr"):
                e = A.to_expr(s)
                if e[0] == "op" and e[1] in ("+=", "-=") and target(e[2]):
                    tg = target(e[2])
                    state[tg] = _ladd(state[tg], lv_(e[3]), 1 if e[1] == "+=" else -1)
                elif e[0] == "op" and e[1] == "=" and e[2][0] == "ref" and e[2][1] == "g":
                    r = e[3]
                    okv = (r[0] == "call" and str(r[1]).split("::")[-1].split("<")[0] == "composition" and len(r[2]) == 2
                           and r[2][0][0] == "ref" and r[2][0][1] == "g")
                    if okv:
                        try:
                            okv = gv(r[2][1]) == ("exp", 1)
                        except XErr:
                            okv = False
                    value_steps.append((okv, A.show(e)[:80], s))
                else:
                    raise XErr("statement %s" % A.show(e)[:60])
            else:
                raise XErr("statement kind %s" % k)

    try:
        run(A.kids(loops[0])[-1])
    except XErr as ex:
        rep.broke("X1: cannot abstract the derivative recursion of cspline_eval_vs: %s" % ex)
        return
    # value: g starts at the identity and is right-multiplied by exp(B_j v_j) for j = 1..K (column 0 of the cumulative basis is the
    # constant 1 belonging to the anchor)
    ginit = None
    for x in A.kids(b):
        if x.get("kind") == "DeclStmt":
            for v_ in A.kids(x):
                if v_.get("kind") == "VarDecl" and v_.get("name") == "g" and A.kids(v_):
                    ginit = A.to_expr(A.kids(v_)[-1])
    rng = None
    for c in A.kids(loops[0]):
        if c.get("kind") == "DeclStmt":
            for v_ in A.kids(c):
                if (v_.get("name") or "").startswith("__range") and A.kids(v_):
                    rng = re.sub(r"\s", "", A.show(A.to_expr(A.kids(v_)[-1])))
    okval = (ginit is not None and ginit[0] == "call" and str(ginit[1]).split("::")[-1].split("<")[0] == "Identity"
             and len(value_steps) == 1 and value_steps[0][0] and rng is not None and re.search(r"zip\(.*iota[\[(]1[\])].*,vs\)", rng) is not None)
    rep.instance("X1", "cspline_eval_vs", "value", ok=okval, sample={"file": fe.rel(d.file), "line": d.line, "range": rng,
                                                                      "step": value_steps[0][1] if value_steps else None})
    if not okval:
        rep.violation(Finding("X1", "cspline_eval_vs", "value",
                              "the curve value is not Identity * prod_{j=1..K} exp(Bcum_j(u) v_j) accumulated by right-multiplication "
                              "(init=%s, range=%s, step=%s)" % (A.show(ginit)[:40] if ginit else None, rng, value_steps[0][1] if value_steps else None),
                              d.file, d.line))
    T = "Ad(exp(-B v))"
    B1, B2, B3 = ({("B%d" % i,): Fraction(1)} for i in (1, 2, 3))
    v = {"v": ONE}
    vel0, acc0, jer0 = ({n: ONE} for n in ("vel0", "acc0", "jer0"))
    vel1 = _ladd(_lapp(T, vel0), _lscale(v, B1))
    acc1 = _ladd(_ladd(_lapp(T, acc0), _lscale(_lbr(vel1, v), B1)), _lscale(v, B2))
    jer1 = _lapp(T, jer0)
    jer1 = _ladd(jer1, _lscale(_lbr(acc1, v), _smul({(): Fraction(2)}, B1)))
    jer1 = _ladd(jer1, _lscale(_lbr(_lbr(vel1, v), v), _smul(B1, B1)), -1)
    jer1 = _ladd(jer1, _lscale(_lbr(vel1, v), B2))
    jer1 = _ladd(jer1, _lscale(v, B3))

    def fmt_t(t):
        if isinstance(t, tuple):
            if t[0] == "br":
                return "[%s, %s]" % (fmt_t(t[1]), fmt_t(t[2]))
            if t[0] == "T":
                return "%s*%s" % (t[1], fmt_t(t[2]))
        return str(t)

    def fmt(x):
        parts = []
        for t, c in sorted(x.items(), key=lambda kv: fmt_t(kv[0])):
            cs = " + ".join("%s%s" % (("%s*" % a) if a != 1 else "", "*".join(m) or "1") for m, a in sorted(c.items()))
            parts.append("(%s) %s" % (cs, fmt_t(t)))
        return " + ".join(parts) or "0"
    for ctext, skipped, tgs, node_ in guard_skips:
        # for K = 1 the true acceleration and jerk of exp(B_1(u) v_1) vanish (second and third basis derivatives are 0 and [v, v] = 0),
        # so skipping them is exact; every other skipped update leaves a requested output at its zero initial value although the
        # recursion gives a non-zero term
        harmful = [k_ for k_ in skipped if k_ >= 2 or "vel" in tgs]
        rep.instance("X1", "cspline_eval_vs", "guard %s" % ctext, ok=not harmful, sample={"file": fe.rel(d.file), "line": d.line, "skipped_for_K": skipped})
        if harmful:
            rep.violation(Finding("X1", "cspline_eval_vs", "guard %s" % ctext,
                                  "the update of %s is skipped for degree K in %s by the guard `%s`; the recursion contributes bracket terms "
                                  "(B1^2 [[w, v], v] and B2 [w, v] for the jerk) that do not vanish for K >= 2, so the requested output is wrong there"
                                  % ("/".join(tgs), harmful, ctext), d.file, d.line))
    for name, got, want, what in (("vel", state["vel"], vel1, "w_j = Ad(exp(-B_j v_j)) w_{j-1} + B_j' v_j"),
                                  ("acc", state["acc"], acc1, "a_j = Ad a_{j-1} + B_j' [w_j, v_j] + B_j'' v_j"),
                                  ("jer", state["jer"], jer1, "j_j = Ad j_{j-1} + 2 B' [a_j, v] - B'^2 [[w_j, v], v] + B'' [w_j, v] + B''' v")):
        ok = got == want
        rep.instance("X1", "cspline_eval_vs", name, ok=ok, sample={"file": fe.rel(d.file), "line": d.line, "recursion": what, "normal_form": fmt(got)[:300]})
        if not ok:
            rep.violation(Finding("X1", "cspline_eval_vs", name,
                                  "the %s update is %s ; the body-derivative recursion of g = prod exp(B_j v_j) is %s, i.e. %s"
                                  % (name, fmt(got)[:260], what, fmt(want)[:260]), d.file, d.line))
    # cspline_eval_gs anchors the same curve at g_0 with v_i = g_i (-) g_{i-1}
    gs = funcs(idx_cs, "cspline_eval_gs")
    if len(gs) == 1:
        verdict, why = anchoring_form(gs[0].node)
        if verdict is None:
            rep.broke("X1: cspline_eval_gs has a shape the anchoring rule does not understand: %s" % why)
        else:
            rep.instance("X1", "cspline_eval_gs", "anchoring", ok=verdict, nontrivial=True, sample={"file": fe.rel(gs[0].file), "line": gs[0].line})
            if not verdict:
                rep.violation(Finding("X1", "cspline_eval_gs", "anchoring",
                                      "cspline_eval_gs is not g_0 * cspline_eval_vs(v_i = g_i (-) g_{i-1}) with all derivative outputs forwarded: %s" % why,
                                      gs[0].file, gs[0].line))
    else:
        rep.broke("X1: cspline_eval_gs not found")
