"""Spline (C12) semantic rules on engine M: the member functions of smooth::Spline are abstractly executed on abstract spline states
and the *curve denoted by the resulting state* is compared with the curve the operation is documented to produce.

Abstract values: group elements are words of a free group over the atoms G0 (start pose), the data poses, and P(V, u) -- the value at
parameter u of the cumulative Bezier segment with control velocities V (P(V, 0) = identity is the only relation used); control
velocities, body velocities and accelerations are opaque symbols; knot times, crop offsets and query times are exact rationals.

Denotation of a state (g0, end_t, end_g, Vs, T0, Del): on segment i = [ta, tb] (ta = end_t[i-1] or 0)
    x(t)  = start_i * P(V_i, T0_i)^-1 * P(V_i, u(t)),   u(t) = T0_i + Del_i (t - ta) / (tb - ta),   start_i = end_g[i-1] or g0
    x'(t) = vel(V_i, u) * Del_i/(tb - ta),  x''(t) = acc(V_i, u) * (Del_i/(tb - ta))^2
and every stored end pose equals the segment's value at its end (state invariant).

M1  operator()(t, vel, acc) returns the denotation for t inside every segment, at knots, before 0 and after t_max, for uncropped and
    pre-cropped states, degrees K = 0, 1, 3; optional outputs are written whenever they are supplied.
M2  crop(ta, tb, localize): the returned state satisfies the invariant and denotes the original curve on [ta, tb] shifted to start at
    0 (left-multiplied by x(ta)^-1 when localize), for windows inside one segment, across segments, on knots, beyond the range.
M3  concat_global / concat_local / operator+=: the result denotes the first curve followed by the second (in its own frame / in the
    end frame of the first), also when the right operand is the object itself or either operand is empty.
M4  make_local: the result denotes x(0)^-1 x(t).
M5  constructors and named constructors: stored state = (ga, [T], [ga P(V,1)], [V], [0], [1]); ConstantVelocity columns (T/K) v;
    FixedCubic reaches gb in the free group with exp / log as mutually inverse symbols.
M6  arclength(t) = sum over the segments before t of integrate_absolute_polynomial(T0_i, T0_i + Del_i (min(t,tb)-ta)/(tb-ta), 3a3, 2a2, a1)
    with a_j the monomial coefficients of the cumulative segment polynomial."""
import copy
import re
from fractions import Fraction

import astlib as A
import fe
import mach
import mmodels
from mach import AbstractViolation, Cell, ItemRef, Machine, Obj, Opt, PyFunc, Unab, Vec, is_num, show_val, simp, sym
from mmodels import usym
from report import Finding


# ---- free group ---------------------------------------------------------------------------------------------------

class FG:
    def __init__(self, w=()):
        out = []
        for a, e in w:
            if out and out[-1][0] == a and out[-1][1] == -e:
                out.pop()
            else:
                out.append((a, e))
        self.w = tuple(out)

    def show(self):
        return " ".join("%s%s" % (a, "" if e == 1 else "^-1") for a, e in self.w) or "1"

    def __eq__(self, o):
        return isinstance(o, FG) and self.w == o.w

    def __hash__(self):
        return hash(self.w)

    def __deepcopy__(self, memo):
        return self

    def mul(self, o):
        return FG(self.w + o.w)

    def inv(self):
        return FG(tuple((a, -e) for a, e in reversed(self.w)))

    def op_mul(self, M, a, b):
        if isinstance(a, FG) and isinstance(b, FG):
            return a.mul(b)
        raise Unab("product of a group element and %s" % show_val(b if isinstance(a, FG) else a))

    def op_sub(self, M, a, b):
        # g1 - g2 = rminus(g1, g2) = log(g2^-1 g1)
        if isinstance(a, FG) and isinstance(b, FG):
            return glog(b.inv().mul(a))
        raise Unab("difference of a group element and %s" % show_val(b))

    def op_add(self, M, a, b):
        # g + v = rplus(g, v) = g exp(v)
        if isinstance(a, FG) and is_num(b):
            return a.mul(gexp(b))
        raise Unab("sum of a group element and %s" % show_val(b))

    def m_inverse(self, M, a, t):
        return self.inv()

    def m_log(self, M, a, t):
        return glog(self)

    def m_cast(self, M, a, t):
        return self


def atom(name):
    return FG(((name, 1),))


ONE = FG(())


def rkey(v):
    v = simp(v)
    if isinstance(v, Fraction):
        return str(v)
    return "%r|%r" % (sorted(v.n.items()), sorted(v.d.items()))


def glog(w):
    if not w.w:
        return Fraction(0)
    if len(w.w) == 1 and w.w[0][0].startswith("exp{"):
        inner = EXP_ARGS.get(w.w[0][0])
        if inner is not None:
            return inner if w.w[0][1] == 1 else mach.simp(mach.to_rf(Fraction(0)) - mach.to_rf(inner))
    name = "LOG{%s}" % w.show()
    LOG_ARGS[name] = w
    return sym(name)


EXP_ARGS = {}
LOG_ARGS = {}


def gexp(v):
    v = simp(v)
    if isinstance(v, Fraction) and v == 0:
        return ONE
    # exp(LOG{w}) = w, exp(-LOG{w}) = w^-1
    if not isinstance(v, Fraction):
        n = v.normal(mach._CONS)
        if poly_is_single_var(n):
            var, coef = poly_is_single_var(n)
            if var in LOG_ARGS and coef in (1, -1):
                return LOG_ARGS[var] if coef == 1 else LOG_ARGS[var].inv()
    neg = simp(mach.to_rf(Fraction(0)) - mach.to_rf(v))
    k1, k2 = rkey(v), rkey(neg)
    if k1 <= k2:
        name = "exp{%s}" % show_val(v)
        EXP_ARGS[name] = v
        return FG(((name, 1),))
    name = "exp{%s}" % show_val(neg)
    EXP_ARGS[name] = neg
    return FG(((name, -1),))


def poly_is_single_var(rf):
    import poly
    if not (poly.p_is_const(rf.d) and rf.d.get((), 0) == 1):
        return None
    if len(rf.n) != 1:
        return None
    (mono, coef), = rf.n.items()
    if len(mono) == 1 and mono[0][1] == 1:
        return mono[0][0], coef
    return None


# ---- control-velocity matrices ------------------------------------------------------------------------------------------

class VMat:
    """Eigen::Matrix<double, Dof, K>: K columns, each an (abstract, scalar-like) tangent"""

    def __init__(self, cols, name="V"):
        self.cols = list(cols)
        self.name = name

    def key(self):
        return "[" + ", ".join(show_val(c) if c is not mach.UNSET else "?" for c in self.cols) + "]"

    def show(self):
        return "V" + self.key()

    def __deepcopy__(self, memo):
        return VMat(list(self.cols), self.name)

    def m_col(self, M, a, t):
        i = int(simp(a[0]))
        if not (0 <= i < len(self.cols)):
            raise AbstractViolation("column %d of a control matrix with %d columns" % (i, len(self.cols)))
        return ItemRef(self.cols, i, "V.col(%d)" % i)

    def m_colwise(self, M, a, t):
        return VCols(self)

    def m_cast(self, M, a, t):
        return self

    def m_eval(self, M, a, t):
        return self

    def m_cols(self, M, a, t):
        return Fraction(len(self.cols))

    def m_rows(self, M, a, t):
        return Fraction(1)

    def m_transpose(self, M, a, t):
        return VT(self)

    def m_rowwise(self, M, a, t):
        return VRows(self)

    def m_sum(self, M, a, t):
        acc = Fraction(0)
        for c in self.cols:
            acc = M.arith("+", acc, c)
        return acc

    def m_setZero(self, M, a, t):
        for i in range(len(self.cols)):
            self.cols[i] = Fraction(0)

    def op_mul(self, M, a, b):
        v, k = (a, b) if isinstance(a, VMat) else (b, a)
        if is_num(k):
            return VMat([M.arith("*", c, k) for c in v.cols])
        raise Unab("product of a control matrix and %s" % show_val(k))

    def op_div(self, M, a, b):
        if isinstance(a, VMat) and is_num(b):
            return VMat([M.arith("/", c, b) for c in a.cols])
        raise Unab("division involving a control matrix")

    def assign_from(self, M, v):
        v = M.rv(v)
        if isinstance(v, VMat):
            self.cols[:] = list(v.cols)
            return
        raise Unab("assignment of %s to a control matrix" % show_val(v))

    def equal(self, o):
        return isinstance(o, VMat) and len(o.cols) == len(self.cols) and all(
            (a is mach.UNSET and b is mach.UNSET) or (a is not mach.UNSET and b is not mach.UNSET and mach.num_equal(a, b)) for a, b in zip(self.cols, o.cols))


class VCols:
    def __init__(self, v):
        self.v = v

    def show(self):
        return self.v.show() + ".colwise()"


class VRows:
    def __init__(self, v):
        self.v = v

    def show(self):
        return self.v.show() + ".rowwise()"

    def m_sum(self, M, a, t):
        return self.v.m_sum(M, a, t)


class VT:
    def __init__(self, v):
        self.v = v

    def show(self):
        return self.v.show() + "^T"


class BMat:
    """a constant matrix given by exact entries (the cumulative basis table)"""

    def __init__(self, rows):
        self.rows = [list(r) for r in rows]

    def show(self):
        return "B(%dx%d)" % (len(self.rows), len(self.rows[0]) if self.rows else 0)

    def m_rightCols(self, M, a, t):
        k = int(simp(a[0])) if a else int(simp(M.eval_targ(t)))
        return BMat([r[len(r) - k:] for r in self.rows])

    def m_leftCols(self, M, a, t):
        k = int(simp(a[0])) if a else int(simp(M.eval_targ(t)))
        return BMat([r[:k] for r in self.rows])

    def m_cast(self, M, a, t):
        return self

    def m_transpose(self, M, a, t):
        return BMat([list(c) for c in zip(*self.rows)])

    def m_eval(self, M, a, t):
        return self

    def op_mul(self, M, a, b):
        if isinstance(a, BMat) and isinstance(b, VT):
            if len(a.rows[0]) != len(b.v.cols):
                raise AbstractViolation("product of a %dx%d table with the transpose of a control matrix with %d columns" % (len(a.rows), len(a.rows[0]), len(b.v.cols)))
            out = []
            for r in a.rows:
                acc = Fraction(0)
                for coef, c in zip(r, b.v.cols):
                    acc = M.arith("+", acc, M.arith("*", coef, c))
                out.append(acc)
            return Coefs(out)
        raise Unab("matrix product of %s and %s" % (show_val(a), show_val(b)))

    def index(self, M, idx):
        r, c = int(simp(idx[0])), int(simp(idx[1]))
        return self.rows[r][c]


class Coefs:
    """(K+1) x Dof coefficient matrix with the Dof columns abstracted to one"""

    def __init__(self, rows):
        self.rows = rows

    def show(self):
        return "coefs[" + ", ".join(show_val(r) for r in self.rows) + "]"

    def index(self, M, idx):
        r = int(simp(idx[0]))
        if not (0 <= r < len(self.rows)):
            raise AbstractViolation("row %d of a coefficient matrix with %d rows" % (r, len(self.rows)))
        return self.rows[r]

    def m_eval(self, M, a, t):
        return self


class BasisTable(BMat):
    """a cumulative basis table identified by its kind; the Bernstein one carries its exact entries (C20/W.basis decides that the library's
    constexpr table equals this definition)"""

    def __init__(self, kind, K):
        self.kind, self.K = kind, K
        super().__init__(bernstein_cumulative(K) if kind == "Bernstein" else [[None] * (K + 1) for _ in range(K + 1)])

    def show(self):
        return "cumulative %s basis of degree %d" % (self.kind, self.K)

    def index(self, M, idx):
        if len(idx) == 1:
            return self          # table[0].data(): the storage of the table
        return super().index(M, idx)

    def m_data(self, M, a, t):
        return self

    def m_cast(self, M, a, t):
        return self

    def m_eval(self, M, a, t):
        return self


def bernstein_cumulative(K):
    """row-major table B[r][j]: coefficient of u^r in the j-th cumulative Bernstein basis function of degree K"""
    from math import comb
    # Bernstein b_{j,K}(u) = C(K,j) u^j (1-u)^(K-j); cumulative Btilde_j = sum_{i>=j} b_i
    polys = []
    for j in range(K + 1):
        p = [Fraction(0)] * (K + 1)
        for m in range(K - j + 1):
            p[j + m] += Fraction(comb(K, j) * comb(K - j, m) * (-1) ** m)
        polys.append(p)
    cum = []
    for j in range(K + 1):
        p = [Fraction(0)] * (K + 1)
        for i in range(j, K + 1):
            for r in range(K + 1):
                p[r] += polys[i][r]
        cum.append(p)
    return [[cum[j][r] for j in range(K + 1)] for r in range(K + 1)]


# ---- the machine ---------------------------------------------------------------------------------------------------------

FIELDS = ("m_g0", "m_end_t", "m_end_g", "m_Vs", "m_seg_T0", "m_seg_Del")


def new_spline(g0=None, K=3):
    return Obj("Spline", {"m_g0": g0 if g0 is not None else ONE, "m_end_t": Vec([], "m_end_t"), "m_end_g": Vec([], "m_end_g"),
                          "m_Vs": Vec([], "m_Vs", default=lambda K=K: VMat([mach.UNSET] * K)),
                          "m_seg_T0": Vec([], "m_seg_T0"), "m_seg_Del": Vec([], "m_seg_Del")})


class SplineMachine(Machine):
    def __init__(self, decls, K, **kw):
        super().__init__(decls=decls, type_factory=self.types, **kw)
        self.K = K
        self.basis_cache = {}
        self.scalar_vectors = True
        self.global_env = mach.Env()
        self.global_env.bind("K", Cell(Fraction(K), True))
        self.global_env.bind("Dof", Cell(Fraction(1), True))
        f = self.funcs
        f["composition"] = PyFunc(self.composition)
        f["inverse"] = PyFunc(lambda M, v: self.need_fg(v[0]).inv())
        f["Identity"] = PyFunc(lambda M, v: ONE)
        f["cast"] = PyFunc(lambda M, v: v[0])
        f["exp"] = PyFunc(lambda M, v: gexp(v[0]))
        f["log"] = PyFunc(lambda M, v: glog(self.need_fg(v[0])))
        f["rminus"] = PyFunc(lambda M, v: glog(self.need_fg(v[1]).inv().mul(self.need_fg(v[0]))))
        f["rplus"] = PyFunc(lambda M, v: self.need_fg(v[0]).mul(gexp(v[1])))
        f["cspline_eval_vs"] = PyFunc(self.cspline_eval, lazy=True)
        f["binary_interval_search"] = PyFunc(self.bis)
        f["integrate_absolute_polynomial"] = PyFunc(lambda M, v: usym("IAP", *v))
        f["name:kMappedBasisFunction"] = PyFunc(lambda M, n, env, _: self.basis_var("kMappedBasisFunction"), lazy=True)
        f["name:kBasisFunction"] = PyFunc(lambda M, n, env, _: self.basis_var("kBasisFunction"), lazy=True)
        f["polynomial_cumulative_basis"] = PyFunc(self.pcb, lazy=True)
        f["Zero"] = PyFunc(lambda M, v: Fraction(0))
        f["method:setZero"] = PyFunc(self.set_zero, lazy=True)
        f["method:replicate"] = PyFunc(self.replicate, lazy=True)
        f["method:eval"] = PyFunc(lambda M, o, a, t, env: M.rv(o), lazy=True)
        f["method:Zero"] = PyFunc(lambda M, o, a, t, env: Fraction(0), lazy=True)
        f["__assert_fail"] = PyFunc(self.assert_fail, lazy=True)
        f["assert"] = f["__assert_fail"]
        f["infinity"] = PyFunc(lambda M, v: Fraction(10 ** 9))
        f["name:*"] = PyFunc(self.other_name, lazy=True)
        f["select:Spline"] = PyFunc(self.select_ctor, lazy=True)

    @staticmethod
    def assert_fail(M, args, env, name):
        what = " `%s`" % args[0][1] if args and args[0][0] == "str" else ""
        raise AbstractViolation("the library's own assertion%s fails on the abstract state" % what)

    def other_name(self, M, n, env, _):
        return NotImplemented

    def basis_var(self, name):
        """value of the variable templates kBasisFunction<K> / kMappedBasisFunction<K>: their initialisers are evaluated"""
        if name in self.basis_cache:
            return self.basis_cache[name]
        node = BASIS_VARS().get(name)
        if node is None:
            raise Unab("initialiser of %s not found" % name)
        init = [k for k in A.kids(node) if not (k.get("kind") or "").endswith(("Attr", "Comment"))]
        v = self.rv(self.ev(mach.TE(init[-1]), self.global_env))
        if not isinstance(v, BasisTable):
            raise Unab("%s does not evaluate to a basis table (%s)" % (name, show_val(v)))
        self.basis_cache[name] = v
        return v

    def pcb(self, M, args, env, name):
        m = re.search(r"PolynomialBasis::(\w+),(.*?),", (name or "").replace(" ", "") + ",")
        if not m:
            raise Unab("basis call %s" % name)
        K = int(simp(self.eval_targ(m.group(2))))
        return BasisTable(m.group(1), K)

    def eval_targ(self, t):
        env = getattr(self, "call_env", None) or self.global_env
        t = (t or "").strip()
        if re.match(r"^\d+$", t):
            return Fraction(int(t))
        return self.eval(("ref", t, None), env)

    def need_fg(self, v):
        if isinstance(v, FG):
            return v
        raise Unab("a group element is expected, got %s" % show_val(v))

    def composition(self, M, vals):
        r = ONE
        for v in vals:
            r = r.mul(self.need_fg(v))
        return r

    def set_zero(self, M, o, a, t, env):
        if mach.is_ref(o) or isinstance(o, mach.OptValue):
            o.set(Fraction(0))
            return None
        raise Unab("setZero on a temporary")

    def replicate(self, M, o, a, t, env):
        v = M.rv(o)
        r, c = int(simp(M.rv(a[0]))), int(simp(M.rv(a[1])))
        if r != 1 or not is_num(v):
            raise Unab("replicate form")
        return VMat([v] * c)

    def bis(self, M, vals):
        """contract of utils::binary_interval_search (decided for its implementation by C20/I2): iterator to the last element <= t
        among those with a successor > t; end() if t < front; the last element if back <= t"""
        r, t = vals[0], simp(vals[1])
        if not isinstance(r, Vec):
            raise Unab("binary_interval_search over %s" % show_val(r))
        xs = [simp(x) for x in r.items]
        if not xs or t < xs[0]:
            return mach.It(r, len(xs))
        if xs[-1] <= t:
            return mach.It(r, len(xs) - 1)
        k = max(i for i in range(len(xs) - 1) if xs[i] <= t < xs[i + 1] or (xs[i] <= t and xs[i + 1] > t))
        return mach.It(r, k)

    def cspline_eval(self, M, args, env, name):
        vs = M.eval(args[0], env)
        if not isinstance(vs, VCols):
            raise Unab("cspline_eval_vs over %s" % show_val(vs))
        b = M.eval(args[1], env)
        if not isinstance(b, BasisTable) or b.kind != "Bernstein" or b.K != len(vs.v.cols):
            raise AbstractViolation("the segment is evaluated with %s; a Bezier segment with %d control velocities needs the cumulative Bernstein basis of that degree" % (show_val(b), len(vs.v.cols)))
        u = simp(M.eval(args[2], env))
        for i, nm in ((3, "vel"), (4, "acc")):
            if len(args) > i:
                o = M.eval(args[i], env)
                if isinstance(o, Opt) and o.cell is not None:
                    o.cell.set(sym("%s{%s; %s}" % (nm, vs.v.key(), rkey(u))))
                elif not isinstance(o, Opt) and o is not None:
                    raise Unab("optional argument %s of cspline_eval_vs" % show_val(o))
        return seg_value(vs.v, u)

    def types(self, M, tyn, args, env):
        if re.match(r"^(const)?Spline(<.*>)?$", tyn) or tyn in ("Spline<K,G>", "constSpline<K,G>"):
            if args is None or len(args) == 0:
                return new_spline(K=self.K)
            vals = [self.ev(a, env) for a in args]
            if len(vals) == 1 and isinstance(self.rv(vals[0]), Obj):
                return self.copyval(vals[0])
            return self.run_ctor(vals)
        if re.match(r"^(const)?Eigen::Matrix<double,Dof<G>,K>$", tyn):
            if args is None or len(args) == 0:
                return VMat([mach.UNSET] * self.K)
            v = self.eval(args[0], env)
            if isinstance(v, VMat):
                return self.copyval(v)
        if re.match(r"^(const)?(Tangent<G>|G|CastT<S,G>)$", tyn):
            if args is None or len(args) == 0:
                return mach.UNSET
            if len(args) == 1:
                return self.copyval(self.ev(args[0], env))
        if re.match(r"^(const)?Eigen::Matrix<double,K\+1,Dof<G>>$", tyn) and args is not None and len(args) == 1:
            return self.eval(args[0], env)
        if tyn.startswith(("OptTangent<", "constOptTangent<")) and (args is None or len(args) == 0):
            return Opt(None, "optional")
        if "Eigen::Map<constEigen::Matrix<double,K+1,K+1" in tyn and args is not None and len(args) == 1:
            return self.eval(args[0], env)
        if tyn in ("S", "constS") and args is not None and len(args) == 1:
            return self.eval(args[0], env)
        return NotImplemented

    def select_ctor(self, M, cands, full, args, env):
        raise Unab("constructor selection")

    def run_ctor(self, vals):
        """pick the constructor by the kinds of the arguments, run its initialisers and body on a fresh object"""
        ctors = [d for d in self.decls.get("Spline", []) if d.kind == "CXXConstructorDecl"]
        kinds = [self.rv(v) for v in vals]
        pick = None
        for d in ctors:
            ps = A.params(d.node)
            if len(ps) < len(vals) or sum(1 for p in ps if not A.kids(p)) > len(vals):
                continue
            tys = [p.get("type", {}).get("qualType", "") for p in ps]
            ok = True
            for v, ty in zip(kinds, tys):
                if isinstance(v, VMat) and not ("Matrix" in ty):
                    ok = False
                if isinstance(v, Vec) and not ("Rv" in ty or "range" in ty):
                    ok = False
                if isinstance(v, FG) and not re.search(r"\bG\b", ty):
                    ok = False
                if is_num(v) and not ("double" in ty):
                    ok = False
            if ok:
                # prefer the rvalue (owning) overload for a plain control matrix: both are equivalent up to the delegation
                if pick is None or ("&&" in "".join(tys) and isinstance(kinds[1] if len(kinds) > 1 else None, VMat)):
                    pick = d
        if pick is None:
            raise Unab("no Spline constructor for (%s)" % ", ".join(type(k).__name__ for k in kinds))
        obj = new_spline(K=self.K)
        self.construct_with(pick, obj, vals)
        return obj

    def construct_with(self, d, obj, vals):
        new = mach.Env(self.global_env)
        self.bind_params(A.params(d.node), vals, new, d.qname)
        saved = self.this
        self.this = obj
        try:
            for k in A.kids(d.node):
                if k.get("kind") != "CXXCtorInitializer":
                    continue
                init = A.kids(k)
                if "anyInit" in k:
                    fname = k["anyInit"].get("name")
                    e = mach.TE(init[0]) if init else ("init", [])
                    n0 = A.strip(init[0]) if init else {}
                    if n0.get("kind") in ("InitListExpr", "ParenListExpr", "CXXConstructExpr", "CXXUnresolvedConstructExpr") and fname != "m_g0":
                        items = [mach.TE(c) for c in A.kids(n0) if c.get("kind") != "CXXDefaultArgExpr"]
                        cur = obj.f[fname]
                        if isinstance(cur, Vec):
                            dflt = cur.default
                            vals_ = []
                            for it in items:
                                v = self.ev(it, new)
                                v = self.rv(v)
                                if isinstance(v, Vec) and v.name == "initializer list":
                                    vals_ += [self.copyval(x) for x in v.items]
                                else:
                                    vals_.append(self.copyval(v))
                            obj.f[fname] = Vec(vals_, fname, dflt)
                            continue
                    v = self.rv(self.ev(e, new))
                    if isinstance(v, Vec) and v.name == "initializer list" and fname == "m_g0":
                        v = v.items[0] if v.items else ONE
                    if fname == "m_g0":
                        obj.f[fname] = self.copyval(v)
                    else:
                        obj.f[fname] = v if isinstance(v, Vec) else Vec([self.copyval(v)], fname)
                else:
                    # delegating constructor
                    n0 = A.strip(init[0]) if init else {}
                    args = [self.ev(mach.TE(c), new) for c in A.kids(n0) if c.get("kind") != "CXXDefaultArgExpr"]
                    tmp = self.run_ctor(args)
                    obj.f.update(tmp.f)
            self.run(A.body(d.node), new)
        except mach._Return:
            pass
        finally:
            self.this = saved

    def call_method(self, name, obj, vals, pick=None):
        cands = [d for d in self.decls.get(name, []) if d.kind == "CXXMethodDecl" and d.qname.split("::")[-2] == "Spline"]
        if pick is not None:
            cands = [d for d in cands if pick(d)]
        if len(cands) != 1:
            raise Unab("%d bodies for Spline::%s" % (len(cands), name))
        return self.run_function(cands[0], vals, this=obj), cands[0]


def seg_value(V, u):
    u = simp(u)
    if isinstance(u, Fraction) and u == 0:
        return ONE
    if len(V.cols) == 0:
        return ONE
    return atom("P{%s; %s}" % (V.key(), rkey(u)))


_BASIS_VARS = {}


def BASIS_VARS():
    if not _BASIS_VARS:
        for x in A.index(fe.ast_dump("BasisFunction")):
            if x.pattern and x.kind == "VarTemplateDecl" and x.file and x.file.startswith(fe.INCLUDE):
                vd = next((k for k in A.kids(x.node) if k.get("kind") == "VarDecl"), None)
                if vd is not None:
                    _BASIS_VARS[x.qname.split("::")[-1]] = vd
    return _BASIS_VARS


# ---- denotation -----------------------------------------------------------------------------------------------------

def fields(sp):
    return sp.f["m_g0"], sp.f["m_end_t"].items, sp.f["m_end_g"].items, sp.f["m_Vs"].items, sp.f["m_seg_T0"].items, sp.f["m_seg_Del"].items


def invariant(sp):
    """structural part of the state invariant; returns a complaint or None"""
    g0, et, eg, vs, t0, dl = fields(sp)
    n = len(et)
    if not (len(eg) == len(vs) == len(t0) == len(dl) == n):
        return "the five per-segment vectors have lengths %s" % {k: len(sp.f[k].items) for k in FIELDS[1:]}
    prev = Fraction(0)
    for i in range(n):
        for nm, x in (("m_end_t", et[i]), ("m_end_g", eg[i]), ("m_Vs", vs[i]), ("m_seg_T0", t0[i]), ("m_seg_Del", dl[i])):
            if x is mach.UNSET:
                return "%s[%d] is never written" % (nm, i)
        t = simp(et[i])
        if not isinstance(t, Fraction) or t <= prev:
            return "end times are not increasing at index %d (%s after %s)" % (i, show_val(t), prev)
        prev = t
    return None


def denote(sp, t, seg=None):
    """(value, velocity, acceleration) of the curve denoted by the state at time t (segment convention: end_t[i-1] <= t < end_t[i], the last
    segment includes its end)"""
    g0, et, eg, vs, t0, dl = fields(sp)
    n = len(et)
    if n == 0 or t < 0:
        return g0, Fraction(0), Fraction(0)
    if t > simp(et[-1]):
        return eg[-1], Fraction(0), Fraction(0)
    if seg is None:
        seg = n - 1
        for i in range(n):
            if t < simp(et[i]):
                seg = i
                break
    ta = Fraction(0) if seg == 0 else simp(et[seg - 1])
    tb = simp(et[seg])
    start = g0 if seg == 0 else eg[seg - 1]
    beta = simp(dl[seg]) / (tb - ta)
    u = simp(t0[seg]) + beta * (t - ta)
    u = max(Fraction(0), min(Fraction(1), u))
    V = vs[seg]
    val = start.mul(seg_value(V, simp(t0[seg])).inv()).mul(seg_value(V, u))
    if len(V.cols) == 0:
        return start, Fraction(0), Fraction(0)
    vel = simp(mach.to_rf(sym("vel{%s; %s}" % (V.key(), rkey(u)))) * mach.to_rf(beta))
    acc = simp(mach.to_rf(sym("acc{%s; %s}" % (V.key(), rkey(u)))) * mach.to_rf(beta * beta))
    return val, vel, acc


def closed(sp):
    """second part of the invariant: every stored end pose is the segment's value at its end"""
    g0, et, eg, vs, t0, dl = fields(sp)
    for i in range(len(et)):
        v, _, _ = denote(sp, simp(et[i]), seg=i)
        if v != eg[i]:
            return "m_end_g[%d] = %s, but segment %d ends at %s" % (i, eg[i].show(), i, v.show())
    return None


def abstract_spline(K, name, times, crops=None, g0="G0"):
    """abstract state with len(times) segments; crops = [(T0, Del), ...] or None for uncropped segments"""
    sp = new_spline(atom(g0) if g0 else ONE, K=K)
    cur = sp.f["m_g0"]
    for i, t in enumerate(times):
        V = VMat([sym("%s%d_%d" % (name, i, j)) for j in range(K)])
        T0, Del = crops[i] if crops else (Fraction(0), Fraction(1))
        sp.f["m_end_t"].items.append(Fraction(t))
        sp.f["m_Vs"].items.append(V)
        sp.f["m_seg_T0"].items.append(Fraction(T0))
        sp.f["m_seg_Del"].items.append(Fraction(Del))
        cur = cur.mul(seg_value(V, Fraction(T0)).inv()).mul(seg_value(V, Fraction(T0) + Fraction(Del)))
        sp.f["m_end_g"].items.append(cur)
    return sp


def sample_times(sp, extra=()):
    g0, et, *_ = fields(sp)
    ts = set(extra)
    prev = Fraction(0)
    for t in et:
        t = simp(t)
        ts.add(prev)
        ts.add((2 * prev + t) / 3)
        ts.add((prev + 3 * t) / 4)
        ts.add(t)
        prev = t
    return sorted(ts)


# ---- rules ------------------------------------------------------------------------------------------------------------

def spline_decls(dump, cls="Spline"):
    decls = {}
    seen = set()
    for x in A.index(dump):
        if not (x.pattern and x.kind in A.FUNCS and x.file and x.file.startswith(fe.INCLUDE) and A.body(x.node) is not None):
            continue
        if x.qname.split("::")[-2:-1] != [cls]:
            continue
        ident = (x.qname, x.file, x.line)
        if ident in seen:
            continue
        seen.add(ident)
        decls.setdefault(x.qname.split("::")[-1], []).append(x)
    return decls


STATES = {
    "3 segments": lambda K: abstract_spline(K, "a", [1, 3, Fraction(7, 2)]),
    "3 cropped segments": lambda K: abstract_spline(K, "a", [1, 3, Fraction(7, 2)], [(Fraction(1, 4), Fraction(1, 2)), (Fraction(1, 5), Fraction(3, 5)), (Fraction(1, 3), Fraction(1, 3))]),
    "1 segment": lambda K: abstract_spline(K, "a", [2]),
    "empty": lambda K: abstract_spline(K, "a", []),
}


class RuleBroken(Exception):
    pass


def run_guarded(rep, rule, fn, inst, node, thunk):
    """runs thunk(); maps machine outcomes to the report; returns (ok, value).  The first construct outside the machine ends the rule
    (analysis-broken is reported once, not per scenario)."""
    try:
        return True, thunk()
    except Unab as ex:
        rep.broke("%s: %s (%s) is outside the abstract machine: %s" % (rule, fn, inst, ex))
        raise RuleBroken()
    except AbstractViolation as ex:
        rep.instance(rule, fn, inst, ok=False, sample={})
        f, l = A.loc(node) if node is not None else (None, None)
        rep.violation(Finding(rule, fn, inst, "%s on the abstract state %s: %s" % (fn, inst, ex), f, l))
    return False, None


def method_decl(decls, name):
    c = [d for d in decls.get(name, []) if d.kind == "CXXMethodDecl"]
    return c[0] if len(c) == 1 else None


def check_eval(rep, decls):
    rep.rule("M1", "Spline::operator()(t, vel, acc), abstractly executed, returns the curve denoted by the state (value, velocity, acceleration) inside every "
             "segment, at knots and outside the range, for uncropped and pre-cropped states, K = 0, 1, 3; supplied optional outputs are always written", minimum=60)
    d = method_decl(decls, "operator()")
    if d is None:
        rep.broke("M1: Spline::operator() not found")
        return
    for K in (3, 1, 0):
        for sname, mk in STATES.items():
            sp0 = mk(K)
            for t in sample_times(sp0, extra=(Fraction(-1), Fraction(99))):
                for outs in ((True, True), (False, False), (True, False)):
                    if outs != (True, True) and t not in (Fraction(-1), Fraction(99), Fraction(1, 3), Fraction(2)):
                        continue
                    inst = "K=%d %s t=%s%s" % (K, sname, t, "" if outs == (True, True) else " outputs=%s" % (outs,))

                    def thunk(K=K, mk=mk, t=t, outs=outs):
                        M = SplineMachine(decls, K)
                        sp = mk(K)
                        vel, acc = Cell(mach.UNSET), Cell(mach.UNSET)
                        r = M.run_function(d, [Cell(t), Cell(Opt(vel if outs[0] else None, "vel")), Cell(Opt(acc if outs[1] else None, "acc"))], this=sp)
                        return sp, r, vel.get(), acc.get()
                    ok, res = run_guarded(rep, "M1", "Spline::operator()", inst, d.node, thunk)
                    if not ok:
                        continue
                    sp, r, vel, acc = res
                    wv, wvel, wacc = denote(sp0, t)
                    bad = None
                    if not isinstance(r, FG) or r != wv:
                        bad = "returns %s; the state denotes %s" % (show_val(r), wv.show())
                    elif outs[0] and (vel is mach.UNSET or not mach.num_equal(vel, wvel)):
                        bad = "velocity output is %s; the state denotes %s" % ("left unwritten" if vel is mach.UNSET else show_val(vel), show_val(wvel))
                    elif outs[1] and (acc is mach.UNSET or not mach.num_equal(acc, wacc)):
                        bad = "acceleration output is %s; the state denotes %s" % ("left unwritten" if acc is mach.UNSET else show_val(acc), show_val(wacc))
                    elif not same_state(sp, sp0):
                        bad = "the const member function changes the spline's state"
                    rep.instance("M1", "Spline::operator()", inst, ok=bad is None, sample={})
                    if bad:
                        f, l = A.loc(d.node)
                        rep.violation(Finding("M1", "Spline::operator()", inst, "operator()(t = %s) on %s (K = %d): %s" % (t, sname, K, bad), f, l))
                        break


def same_state(a, b):
    fa, fb = fields(a), fields(b)
    if fa[0] != fb[0]:
        return False
    for x, y in zip(fa[1:], fb[1:]):
        if len(x) != len(y):
            return False
        for p, q in zip(x, y):
            if isinstance(p, VMat):
                if not p.equal(q):
                    return False
            elif isinstance(p, FG):
                if p != q:
                    return False
            elif not mach.num_equal(p, q):
                return False
    return True


def compare_curves(res, want, shift, left, times):
    """res(s) == left * want(shift + s) for every s in times; returns complaint or None"""
    for s in times:
        rv, rvel, racc = denote(res, s)
        wv, wvel, wacc = denote(want, shift + s)
        wv = left.mul(wv)
        if rv != wv:
            return "at time %s the result denotes %s; expected %s" % (s, rv.show(), wv.show())
        if not mach.num_equal(rvel, wvel):
            return "at time %s the result has velocity %s; expected %s" % (s, show_val(rvel), show_val(wvel))
        if not mach.num_equal(racc, wacc):
            return "at time %s the result has acceleration %s; expected %s" % (s, show_val(racc), show_val(wacc))
    return None


def check_crop(rep, decls):
    rep.rule("M2", "Spline::crop(ta, tb, localize), abstractly executed: the result satisfies the state invariant and denotes the original curve on [ta, tb] shifted to 0 "
             "(left-multiplied by x(ta)^-1 when localize)", minimum=40)
    d = method_decl(decls, "crop")
    if d is None:
        rep.broke("M2: Spline::crop not found")
        return
    K = 3
    windows = [(Fraction(1, 4), Fraction(3, 4)), (Fraction(1, 2), Fraction(2)), (Fraction(1, 2), Fraction(13, 4)), (Fraction(0), Fraction(7, 2)), (Fraction(1), Fraction(3)),
               (Fraction(1), Fraction(13, 4)), (Fraction(5, 4), Fraction(3)), (Fraction(3, 2), Fraction(5, 2)), (Fraction(-1), Fraction(99)), (Fraction(2), Fraction(2)),
               (Fraction(3), Fraction(1)), (Fraction(13, 4), Fraction(27, 8)), (Fraction(0), Fraction(1)), (Fraction(3), Fraction(99))]
    for sname in ("3 segments", "3 cropped segments", "1 segment", "empty"):
        mk = STATES[sname]
        for (ta, tb) in windows:
            for localize in (True, False):
                inst = "%s [%s, %s] localize=%s" % (sname, ta, tb, localize)
                sp0 = mk(K)

                def thunk(mk=mk, ta=ta, tb=tb, localize=localize):
                    M = SplineMachine(decls, K)
                    sp = mk(K)
                    r = M.run_function(d, [Cell(ta), Cell(tb), Cell(localize)], this=sp)
                    return sp, r
                ok, res = run_guarded(rep, "M2", "Spline::crop", inst, d.node, thunk)
                if not ok:
                    continue
                sp, r = res
                bad = None
                tmax = simp(fields(sp0)[1][-1]) if fields(sp0)[1] else Fraction(0)
                a_, b_ = max(ta, Fraction(0)), min(tb, tmax)
                if not isinstance(r, Obj):
                    bad = "does not return a spline"
                elif not same_state(sp, sp0):
                    bad = "the const member function changes the spline's state"
                elif b_ <= a_:
                    if len(fields(r)[1]) != 0:
                        bad = "an empty window must give the empty spline, got %d segment(s)" % len(fields(r)[1])
                else:
                    bad = invariant(r) or closed(r)
                    if bad is None:
                        xa = denote(sp0, a_)[0]
                        left = xa.inv() if localize else ONE
                        if fields(r)[0] != left.mul(xa):
                            bad = "start pose is %s; expected %s" % (fields(r)[0].show(), left.mul(xa).show())
                        elif simp(fields(r)[1][-1]) != b_ - a_:
                            bad = "duration is %s; expected %s" % (show_val(fields(r)[1][-1]), b_ - a_)
                        else:
                            times = [s for s in sample_times(r) if not any(simp(k) == s for k in fields(r)[1])]
                            # result knots map to original knots: velocities there are compared from the right-hand segment in both
                            bad = compare_curves(r, sp0, a_, left, times)
                            if bad is None:
                                for kn in fields(r)[1]:
                                    if denote(r, simp(kn))[0] != left.mul(denote(sp0, a_ + simp(kn))[0]):
                                        bad = "at the knot %s the result denotes %s; expected %s" % (show_val(kn), denote(r, simp(kn))[0].show(), left.mul(denote(sp0, a_ + simp(kn))[0]).show())
                rep.instance("M2", "Spline::crop", inst, ok=bad is None, sample={})
                if bad:
                    f, l = A.loc(d.node)
                    rep.violation(Finding("M2", "Spline::crop", inst, "crop(%s, %s, %s) of %s: %s" % (ta, tb, str(localize).lower(), sname, bad), f, l))


def check_concat(rep, decls):
    rep.rule("M3", "concat_global / concat_local / operator+= / operator+, abstractly executed: the result denotes the first curve followed by the second (own frame / end frame of "
             "the first), also for x += x and empty operands", minimum=20)
    K = 3
    for fname, local in (("concat_global", False), ("concat_local", True), ("operator+=", True), ("operator+", True)):
        d = method_decl(decls, fname)
        if d is None:
            rep.broke("M3: Spline::%s not found" % fname)
            continue
        cases = [("3 segments", "1 segment", False), ("3 cropped segments", "3 segments", False), ("3 segments", "3 cropped segments", False), ("1 segment", "3 cropped segments", False), ("empty", "3 segments", False), ("3 segments", "empty", False),
                 ("3 segments", None, True), ("1 segment", None, True), ("empty", "empty", False)]
        for an, bn, alias in cases:
            inst = "%s %s %s" % (an, fname, "itself" if alias else bn)
            A0 = STATES[an](K)
            B0 = A0 if alias else rename(STATES[bn](K))

            def thunk(an=an, bn=bn, alias=alias):
                M = SplineMachine(decls, K)
                a = STATES[an](K)
                b = a if alias else rename(STATES[bn](K))
                r = M.run_function(d, [ItemRef([b], 0)], this=a)
                return a, b, r
            ok, res = run_guarded(rep, "M3", "Spline::" + fname, inst, d.node, thunk)
            if not ok:
                continue
            a, b, r = res
            R = r if fname == "operator+" else a
            bad = None
            if not isinstance(R, Obj):
                bad = "does not produce a spline"
            elif fname == "operator+" and not same_state(a, A0):
                bad = "operator+ changes its left operand"
            elif not alias and not same_state(b, B0):
                bad = "the right operand is changed"
            else:
                bad = invariant(R)
                if bad is None:
                    tA = simp(fields(A0)[1][-1]) if fields(A0)[1] else Fraction(0)
                    tB = simp(fields(B0)[1][-1]) if fields(B0)[1] else Fraction(0)
                    endA = fields(A0)[2][-1] if fields(A0)[2] else fields(A0)[0]
                    if (simp(fields(R)[1][-1]) if fields(R)[1] else Fraction(0)) != tA + tB:
                        bad = "duration is %s; expected %s" % (show_val(fields(R)[1][-1]) if fields(R)[1] else 0, tA + tB)
                    else:
                        # first part (excluding the junction instant, where the two curves may differ in the global variant)
                        tsA = [s for s in sample_times(A0) if s < tA]
                        if fields(A0)[1]:
                            bad = compare_curves(R, A0, Fraction(0), ONE, tsA)
                        if bad is None and fields(B0)[1]:
                            left = (endA if fields(A0)[1] else fields(A0)[0]) if local else ONE
                            tsB = sample_times(B0) + [tB + 1]        # ... and past the end, where the curve rests at end()
                            shifted = [tA + s for s in tsB]
                            for s, sb in zip(shifted, tsB):
                                rv, rvel, racc = denote(R, s)
                                wv, wvel, wacc = denote(B0, sb)
                                wv = left.mul(wv)
                                if rv != wv or not mach.num_equal(rvel, wvel) or not mach.num_equal(racc, wacc):
                                    bad = "at time %s (second curve at %s) the result denotes %s with velocity %s; expected %s with velocity %s" % (
                                        s, sb, rv.show(), show_val(rvel), wv.show(), show_val(wvel))
                                    break
                        if bad is None and not fields(B0)[1] and fields(A0)[1]:
                            # an empty right operand is the zero-duration curve resting at its start pose h: afterwards y(t) = h (global) / x1(t1) h (local)
                            rv, _, _ = denote(R, tA + 1)
                            wv = (endA if local else ONE).mul(fields(B0)[0])
                            if rv != wv:
                                bad = "past its end the result rests at %s; expected %s (the empty right operand rests at its start pose)" % (rv.show(), wv.show())
            rep.instance("M3", "Spline::" + fname, inst, ok=bad is None, sample={})
            if bad:
                f, l = A.loc(d.node)
                rep.violation(Finding("M3", "Spline::" + fname, inst, "%s: %s" % (inst, bad), f, l))


def rename(sp, g0="H0", pref="b"):
    """a second, independent abstract spline: same shape, other symbols"""
    g0_, et, eg, vs, t0, dl = fields(sp)
    K = len(vs[0].cols) if vs else 0
    crops = [(simp(a), simp(b)) for a, b in zip(t0, dl)]
    return abstract_spline(K, pref, [simp(t) for t in et], crops, g0=g0)


def check_make_local(rep, decls):
    rep.rule("M4", "make_local, abstractly executed: the result denotes x(0)^-1 x(t) and satisfies the state invariant", minimum=3)
    d = method_decl(decls, "make_local")
    if d is None:
        rep.broke("M4: Spline::make_local not found")
        return
    K = 3
    for sname in ("3 segments", "3 cropped segments", "1 segment", "empty"):
        sp0 = STATES[sname](K)

        def thunk(sname=sname):
            M = SplineMachine(decls, K)
            sp = STATES[sname](K)
            M.run_function(d, [], this=sp)
            return sp
        ok, sp = run_guarded(rep, "M4", "Spline::make_local", sname, d.node, thunk)
        if not ok:
            continue
        bad = invariant(sp) or closed(sp)
        if bad is None:
            left = fields(sp0)[0].inv()
            if fields(sp)[0] != ONE:
                bad = "start pose is %s, not the identity" % fields(sp)[0].show()
            else:
                bad = compare_curves(sp, sp0, Fraction(0), left, sample_times(sp0))
        rep.instance("M4", "Spline::make_local", sname, ok=bad is None, sample={})
        if bad:
            f, l = A.loc(d.node)
            rep.violation(Finding("M4", "Spline::make_local", sname, "make_local on %s: %s" % (sname, bad), f, l))


def check_ctors(rep, decls):
    rep.rule("M5", "constructors, abstractly executed: state (ga, [T], [ga P(V,1)], [V], [0], [1]); ConstantVelocity columns (T/K) v; ConstantVelocityGoal columns "
             "log(ga^-1 gb)/K; FixedCubic: exp(V0) exp(V1) exp(V2) = ga^-1 gb with V0 = T va/3, V2 = T vb/3", minimum=10)
    ga, gb = atom("GA"), atom("GB")
    T = Fraction(5, 2)
    for K in (3, 1, 2, 5):
        V = VMat([sym("c%d" % j) for j in range(K)])
        forms = [("Spline(T, V, ga)", lambda M, V=V: M.run_ctor([Cell(T), Cell(copy.deepcopy(V)), Cell(ga)])),
                 ("Spline(T, range of velocities, ga)", lambda M, V=V: M.run_ctor([Cell(T), Cell(Vec(list(V.cols), "vs")), Cell(ga)]))]
        for fname, mkf in forms:
            inst = "K=%d %s" % (K, fname)
            ctor_node = next((d.node for d in decls.get("Spline", []) if d.kind == "CXXConstructorDecl"), None)
            ok, sp = run_guarded(rep, "M5", "Spline::Spline", inst, ctor_node, lambda mkf=mkf, K=K: mkf(SplineMachine(decls, K)))
            if not ok:
                continue
            want = new_spline(ga, K=K)
            want.f["m_end_t"].items.append(T)
            want.f["m_Vs"].items.append(V)
            want.f["m_seg_T0"].items.append(Fraction(0))
            want.f["m_seg_Del"].items.append(Fraction(1))
            want.f["m_end_g"].items.append(ga.mul(seg_value(V, Fraction(1))))
            bad = invariant(sp) or (None if same_state(sp, want) else "stored state %s differs from (ga, [T], [ga P(V,1)], [V], [0], [1])" % state_show(sp))
            rep.instance("M5", "Spline::Spline", inst, ok=bad is None, sample={})
            if bad:
                f, l = A.loc(ctor_node) if ctor_node else (None, None)
                rep.violation(Finding("M5", "Spline::Spline", inst, "%s: %s" % (inst, bad), f, l))
        # ConstantVelocity / ConstantVelocityGoal
        for fname in ("ConstantVelocity", "ConstantVelocityGoal"):
            d = method_decl(decls, fname)
            if d is None:
                rep.broke("M5: Spline::%s not found" % fname)
                continue
            inst = "K=%d %s" % (K, fname)
            v = sym("v")

            def thunk(fname=fname, K=K, d=d):
                M = SplineMachine(decls, K)
                first = Cell(v) if fname == "ConstantVelocity" else Cell(gb)
                return M.run_function(d, [first, Cell(T), Cell(ga)], this=None)
            ok, sp = run_guarded(rep, "M5", "Spline::" + fname, inst, d.node, thunk)
            if not ok:
                continue
            bad = None
            if not isinstance(sp, Obj):
                bad = "does not return a spline"
            else:
                bad = invariant(sp)
                if bad is None:
                    col = simp(mach.to_rf(v) * mach.to_rf(T / K)) if fname == "ConstantVelocity" else simp(mach.to_rf(glog(ga.inv().mul(gb))) * mach.to_rf(Fraction(1, K)))
                    g0, et, eg, vs, t0, dl = fields(sp)
                    if len(et) != 1 or simp(et[0]) != T or g0 != ga:
                        bad = "state %s: expected one segment of duration T starting at ga" % state_show(sp)
                    elif not all(mach.num_equal(c, col) for c in vs[0].cols) or len(vs[0].cols) != K:
                        bad = "control velocities %s; a constant body velocity needs every column equal to %s" % (vs[0].key(), show_val(col))
            rep.instance("M5", "Spline::" + fname, inst, ok=bad is None, sample={})
            if bad:
                f, l = A.loc(d.node)
                rep.violation(Finding("M5", "Spline::" + fname, inst, "%s: %s" % (inst, bad), f, l))
    # ConstantVelocity with a zero duration: x(t) = ga exp(t v) on [0, 0] is the point ga
    d = method_decl(decls, "ConstantVelocity")
    if d is not None:
        for K, T0 in ((3, Fraction(0)), (1, Fraction(0))):
            inst = "K=%d ConstantVelocity T=%s" % (K, T0)
            ok, sp = run_guarded(rep, "M5", "Spline::ConstantVelocity", inst, d.node,
                                 lambda K=K, T0=T0: SplineMachine(decls, K).run_function(d, [Cell(sym("v")), Cell(T0), Cell(ga)], this=None))
            if not ok:
                continue
            bad = None
            if not isinstance(sp, Obj):
                bad = "does not return a spline"
            else:
                bad = invariant(sp)
                if bad is None:
                    for tq in (Fraction(-1), Fraction(0), Fraction(1)):
                        val, vel, acc = denote(sp, tq)
                        if val != ga:
                            bad = "the zero-duration curve is %s at t = %s; x(t) = ga exp(t v) on [0, 0] is the point ga (start() = end() = ga)" % (val.show(), tq)
                            break
            rep.instance("M5", "Spline::ConstantVelocity", inst, ok=bad is None, sample={})
            if bad:
                f, l = A.loc(d.node)
                rep.violation(Finding("M5", "Spline::ConstantVelocity", inst, "%s: %s" % (inst, bad), f, l))
    # FixedCubic
    d = method_decl(decls, "FixedCubic")
    if d is None:
        rep.broke("M5: Spline::FixedCubic not found")
        return
    va, vb = sym("va"), sym("vb")

    def thunk():
        M = SplineMachine(decls, 3)
        return M.run_function(d, [Cell(gb), Cell(va), Cell(vb), Cell(T), Cell(ga)], this=None)
    ok, sp = run_guarded(rep, "M5", "Spline::FixedCubic", "K=3", d.node, thunk)
    if ok:
        bad = None
        if not isinstance(sp, Obj):
            bad = "does not return a spline"
        else:
            bad = invariant(sp)
            if bad is None:
                g0, et, eg, vs, t0, dl = fields(sp)
                cols = vs[0].cols
                w0, w2 = simp(mach.to_rf(va) * mach.to_rf(T / 3)), simp(mach.to_rf(vb) * mach.to_rf(T / 3))
                if g0 != ga or simp(et[0]) != T:
                    bad = "state %s: expected one segment of duration T starting at ga" % state_show(sp)
                elif not mach.num_equal(cols[0], w0) or not mach.num_equal(cols[2], w2):
                    bad = "boundary control velocities are %s and %s; the requested end velocities need T va/3 and T vb/3" % (show_val(cols[0]), show_val(cols[2]))
                else:
                    prod = gexp(cols[0]).mul(gexp(cols[1])).mul(gexp(cols[2]))
                    if prod != ga.inv().mul(gb):
                        bad = "exp(V0) exp(V1) exp(V2) reduces to %s in the free group; reaching gb needs ga^-1 gb" % prod.show()
        rep.instance("M5", "Spline::FixedCubic", "K=3", ok=bad is None, sample={})
        if bad:
            f, l = A.loc(d.node)
            rep.violation(Finding("M5", "Spline::FixedCubic", "K=3", "FixedCubic(gb, va, vb, T, ga): %s" % bad, f, l))


def state_show(sp):
    g0, et, eg, vs, t0, dl = fields(sp)
    return "(g0=%s, end_t=%s, end_g=%s, Vs=%s, T0=%s, Del=%s)" % (g0.show() if isinstance(g0, FG) else g0, [show_val(x) for x in et], [x.show() if isinstance(x, FG) else str(x) for x in eg],
                                                           [v.key() if isinstance(v, VMat) else str(v) for v in vs], [show_val(x) for x in t0], [show_val(x) for x in dl])


def check_arclength(rep, decls):
    rep.rule("M6", "arclength(t), abstractly executed: sum over the segments that start before t of the absolute integral of the segment derivative over "
             "[T0, T0 + Del (min(t, tb) - ta)/(tb - ta)] with the monomial derivative coefficients of the cumulative polynomial", minimum=8)
    d = method_decl(decls, "arclength")
    if d is None:
        rep.broke("M6: Spline::arclength not found")
        return
    K = 3
    B = bernstein_cumulative(K)
    for sname in ("3 segments", "3 cropped segments", "1 segment", "empty"):
        sp0 = STATES[sname](K)
        for t in sample_times(sp0, extra=(Fraction(99), Fraction(-1))):
            inst = "%s t=%s" % (sname, t)

            def thunk(sname=sname, t=t):
                M = SplineMachine(decls, K)
                sp = STATES[sname](K)
                return M.run_function(d, [Cell(t)], this=sp)
            ok, r = run_guarded(rep, "M6", "Spline::arclength", inst, d.node, thunk)
            if not ok:
                continue
            g0, et, eg, vs, t0, dl = fields(sp0)
            want = Fraction(0)
            prev = Fraction(0)
            for i in range(len(et)):
                ta, tb = prev, simp(et[i])
                prev = tb
                if i > 0 and t <= ta:
                    break
                a = []
                for r_ in range(K + 1):
                    acc = Fraction(0)
                    for j in range(K):
                        acc = simp(mach.to_rf(acc) + mach.to_rf(B[r_][j + 1]) * mach.to_rf(vs[i].cols[j]))
                    a.append(acc)
                ua = simp(t0[i])
                ub = ua + simp(dl[i]) * (min(t, tb) - ta) / (tb - ta)
                term = usym("IAP", ua, ub, simp(mach.to_rf(a[3]) * mach.to_rf(3)), simp(mach.to_rf(a[2]) * mach.to_rf(2)), a[1])
                want = simp(mach.to_rf(want) + mach.to_rf(term))
            bad = None if (is_num(r) and mach.num_equal(r, want)) else "returns %s; expected %s" % (show_val(r)[:200], show_val(want)[:200])
            rep.instance("M6", "Spline::arclength", inst, ok=bad is None, sample={})
            if bad:
                f, l = A.loc(d.node)
                rep.violation(Finding("M6", "Spline::arclength", inst, "arclength(%s) on %s: %s" % (t, sname, bad), f, l))
                break


class BSplineMachine(SplineMachine):
    def __init__(self, decls, K, **kw):
        super().__init__(decls, K, **kw)
        f = self.funcs
        f["cspline_eval_gs"] = PyFunc(self.eval_gs, lazy=True)

    def eval_gs(self, M, args, env, name):
        gs = M.eval(args[0], env)
        if not isinstance(gs, Vec):
            raise Unab("cspline_eval_gs over %s" % show_val(gs))
        b = M.eval(args[1], env)
        if not isinstance(b, BasisTable):
            raise Unab("basis argument %s of cspline_eval_gs" % show_val(b))
        if b.kind != "Bspline" or b.K != self.K:
            raise AbstractViolation("BSpline evaluates with the %s, not the cumulative Bspline basis of degree %d" % (b.show(), self.K))
        u = simp(M.eval(args[2], env))
        key = "[" + ", ".join(self.need_fg(g).show() for g in gs.items) + "]"
        if len(gs.items) != self.K + 1:
            raise AbstractViolation("cspline_eval_gs is given a window of %d control points for degree %d" % (len(gs.items), self.K))
        for i, nm in ((3, "vel"), (4, "acc")):
            if len(args) > i:
                o = M.eval(args[i], env)
                if isinstance(o, Opt) and o.cell is not None:
                    o.cell.set(sym("%s{%s; %s}" % (nm, key, rkey(u))))
        return atom("Q{%s; %s}" % (key, rkey(u)))


def check_bspline(rep, tier):
    rep.rule("M7", "BSpline::operator()(t, vel, acc), abstractly executed: window = control points [i, i+K] with i = clamp(floor((t-t0)/dt), 0, N-K-1), u = (t-t0)/dt - i "
             "(0 below the range, 1 above), velocity / acceleration scaled by 1/dt, 1/dt^2; supplied outputs always written; t_max = t0 + (N-K) dt", minimum=40)
    decls = spline_decls(fe.ast_dump("BSpline"), "BSpline")
    d = method_decl(decls, "operator()")
    if d is None:
        rep.broke("M7: BSpline::operator() not found")
        return
    nviol = 0
    try:
        for K in (1, 3, 5):
            for N in (K + 1, K + 4):
                for t0, dt in ((Fraction(0), Fraction(1)), (Fraction(-3, 2), Fraction(2, 5))):
                    def state():
                        return Obj("BSpline", {"m_t0": t0, "m_dt": dt, "m_ctrl_pts": Vec([atom("C%d" % i) for i in range(N)], "m_ctrl_pts")})
                    nint = N - K
                    ts = [t0 - 3 * dt, t0 - dt / 2, t0, t0 + dt / 3, t0 + nint * dt - dt / 4, t0 + nint * dt, t0 + nint * dt + dt / 7, t0 + (nint + 5) * dt]
                    ts += [t0 + j * dt for j in range(1, nint)] + [t0 + j * dt + dt / 2 for j in range(0, nint)]
                    ts = sorted(set(ts))
                    if K == 3:
                        ts += [t0 + Fraction(10) ** 30 * dt, t0 - Fraction(10) ** 30 * dt, float("inf"), float("-inf")]      # far outside: (t - t0) / dt exceeds every integer type
                    for t in ts:
                        for outs in ((True, True), (False, False), (True, False), (False, True)):
                            if outs[0] != outs[1] and not (K == 3 and N == K + 4):
                                continue
                            inst = "K=%d N=%d t0=%s dt=%s t=%s%s" % (K, N, t0, dt, t, "" if outs == (True, True) else " outputs=%s" % (outs,))

                            def thunk(t=t, outs=outs, K=K):
                                M = BSplineMachine(decls, K)
                                sp = state()
                                vel, acc = Cell(mach.UNSET), Cell(mach.UNSET)
                                r = M.run_function(d, [Cell(t), Cell(Opt(vel if outs[0] else None, "vel")), Cell(Opt(acc if outs[1] else None, "acc"))], this=sp)
                                return r, vel.get(), acc.get()
                            ok, res = run_guarded(rep, "M7", "BSpline::operator()", inst, d.node, thunk)
                            if not ok:
                                continue
                            r, vel, acc = res
                            s_ = (t - t0) / dt if not isinstance(t, float) else (Fraction(10) ** 40 if t > 0 else -Fraction(10) ** 40)
                            if s_ < 0:
                                i, u = 0, Fraction(0)
                            elif s_ >= nint:
                                i, u = nint - 1, Fraction(1)
                            else:
                                i = s_.numerator // s_.denominator
                                u = s_ - i
                            key = "[" + ", ".join("C%d" % j for j in range(i, i + K + 1)) + "]"
                            wv = atom("Q{%s; %s}" % (key, rkey(u)))
                            wvel = simp(mach.to_rf(sym("vel{%s; %s}" % (key, rkey(u)))) * mach.to_rf(1 / dt))
                            wacc = simp(mach.to_rf(sym("acc{%s; %s}" % (key, rkey(u)))) * mach.to_rf(1 / (dt * dt)))
                            bad = None
                            if r != wv:
                                bad = "evaluates %s; the B-spline is %s there (window %d, u = %s)" % (show_val(r), wv.show(), i, u)
                            elif outs[0] and (vel is mach.UNSET or not mach.num_equal(vel, wvel)):
                                bad = "velocity output is %s; expected %s" % ("left unwritten" if vel is mach.UNSET else show_val(vel), show_val(wvel))
                            elif outs[1] and (acc is mach.UNSET or not mach.num_equal(acc, wacc)):
                                bad = "acceleration output is %s; expected %s" % ("left unwritten" if acc is mach.UNSET else show_val(acc), show_val(wacc))
                            rep.instance("M7", "BSpline::operator()", inst, ok=bad is None, sample={})
                            if bad:
                                f, l = A.loc(d.node)
                                nviol += 1
                                if nviol <= 3:
                                    rep.violation(Finding("M7", "BSpline::operator()", inst, "BSpline<%d> with %d control points, t0 = %s, dt = %s at t = %s: %s" % (K, N, t0, dt, t, bad), f, l))
                    # t_max / t_min
                    for nm, want in (("t_max", t0 + nint * dt), ("t_min", t0), ("dt", dt)):
                        dm = method_decl(decls, nm)
                        if dm is None:
                            rep.broke("M7: BSpline::%s not found" % nm)
                            continue
                        ok, r = run_guarded(rep, "M7", "BSpline::" + nm, "K=%d N=%d" % (K, N), dm.node, lambda dm=dm, K=K: BSplineMachine(decls, K).run_function(dm, [], this=state()))
                        if ok:
                            good = is_num(r) and mach.num_equal(r, want)
                            rep.instance("M7", "BSpline::" + nm, "K=%d N=%d t0=%s dt=%s" % (K, N, t0, dt), ok=good, sample={})
                            if not good:
                                f, l = A.loc(dm.node)
                                rep.violation(Finding("M7", "BSpline::" + nm, "K=%d N=%d" % (K, N), "%s() returns %s; expected %s" % (nm, show_val(r), want), f, l))
    except RuleBroken:
        pass


def check(rep, tier):
    dump = fe.ast_dump("Spline")
    decls = spline_decls(dump)
    for need in ("operator()", "crop", "concat_global", "concat_local", "make_local", "arclength", "find_idx", "Spline"):
        if need not in decls:
            rep.broke("M: Spline::%s has no body in the AST index" % need)
            return
    for rule in (check_eval, check_crop, check_concat, check_make_local, check_ctors, check_arclength):
        try:
            rule(rep, decls)
        except RuleBroken:
            pass
