"""C19 -- sparse Lie-group derivative routines equal the dense ones (structural clauses).

W1-W3 (engine M, props/c19m.py): the writers and the published patterns are abstractly executed on abstract groups / hosts.
O2 (M+I) published patterns contain every structurally non-zero entry: the patterns as executed by W2 are compared with the
       cells of the dense dr_exp / dr_expinv / d2r_exp / d2r_expinv that are ever stored something other than the constant 0
       in the -ffast-math IR (x*0 -> 0 folding is exactly "zero for every finite a").  Commutative groups: the generic
       pattern is the diagonal and the dense Jacobians store constants.
O5 (I) Impl::ad is homogeneous-linear with one term per cell (cell = 0 or +-a[k]*c), hence sum_k a_k ad(e_k) = ad(a), which
       is what ad_sparse computes from generators_sparse = ad(e_k).sparseView() (W3, W1).
"""
import re

import astlib as A
import fe
import groups
import ir
import c19m
import irw
from report import Finding

def dense_nonzeros(tier):
    """cells (r,c) of the dense derivative functions that are ever stored something else than the constant 0."""
    W = irw.IRW("c19", groups.PRELUDE, fastmath=True, chunk=2)
    targets = [("SE2Base", "smooth::SE2<double>", 3), ("SE3Base", "smooth::SE3<double>", 6),
               ("SO2", "smooth::SO2<double>", 1), ("C1", "smooth::C1<double>", 2)]
    for tag, ct, D in targets:
        for fn, cols in (("dr_exp", D), ("dr_expinv", D), ("d2r_exp", D * D), ("d2r_expinv", D * D)):
            W.add("d_%s_%s" % (tag, fn), "const double* a, double* out",
                  "  using GT = %s;\n  Eigen::Map<const Eigen::Matrix<double, %d, 1>> x(a); Eigen::Map<Eigen::Matrix<double, %d, %d>> o(out);\n"
                  "  o = GT::%s(x);\n" % (ct, D, D, cols, fn), tag=tag, fn=fn, rows=D, cols=cols)
    return W.build()


def check_o2(rep, executed, tier):
    rep.rule("O2", "published sparsity pattern (as abstractly executed by W2) contains every structurally non-zero entry of the dense result", minimum=12)
    patterns = {}
    for tag, gname in (("SE2Base", "SE2"), ("SE3Base", "SE3")):
        for v in ("d_exp_sparse_pattern", "d2_exp_sparse_pattern"):
            p = executed.get((v, gname))
            if p is None:
                rep.broke("O2: no executed pattern %s<%s>" % (v, gname))
                continue
            patterns[(tag, v)] = ({"cells": set(p.e), "dims": (p.rows, p.cols)}, None)
    facts = dense_nonzeros(tier)
    rep.unit("%d dense derivative witnesses (-ffast-math zero-structure build)" % len(facts))
    for fname, (ff, meta, mod) in sorted(facts.items()):
        tag, fn, rows, cols = meta["tag"], meta["fn"], meta["rows"], meta["cols"]
        cells, problems = irw.cell_writes(ff, 1, 8)
        if problems or irw.foreign_writes(ff, {1}):
            rep.broke("%s: %s" % (fname, (problems or ["foreign write"])[0]))
            continue
        if sorted(cells) != list(range(rows * cols)):
            rep.broke("%s: not all %d cells written" % (fname, rows * cols))
            continue
        nz = set()
        for k, ws in cells.items():
            if any(w["const"] != 0 for w in ws):
                nz.add((k % rows, k // rows))
        which = "d_exp_sparse_pattern" if fn in ("dr_exp", "dr_expinv") else "d2_exp_sparse_pattern"
        if tag in ("SO2", "C1"):
            # commutative: generic pattern = diagonal (Jacobian) / empty (Hessian)
            pat = {(i, i) for i in range(rows)} if which == "d_exp_sparse_pattern" else set()
            src = "generic commutative pattern"
            node = None
        else:
            if (tag, which) not in patterns:
                continue
            p, node = patterns[(tag, which)]
            pat = p["cells"]
            src = "lie_sparse<%s>::%s" % (tag, which)
            if p["dims"] != (rows, cols):
                f, l = A.loc(node)
                rep.violation(Finding("O2", src, "dims", "pattern has dimensions %s, dense result is %dx%d" % (p["dims"], rows, cols), f, l))
                continue
        missing = sorted(nz - pat)
        rep.instance("O2", src, fn, ok=not missing,
                     sample={"witness": fname, "pattern_cells": len(pat), "structural_nonzeros": len(nz), "unused_pattern_cells": len(pat - nz)})
        if missing:
            f, l = A.loc(node) if node else (None, None)
            rep.violation(Finding("O2", src, fn,
                                  "dense %s stores a value that is not identically zero in cell(s) %s which the published "
                                  "sparsity pattern does not contain (%d missing)" % (fn, missing[:6], len(missing)), f, l,
                                  detail={"witness": fname}))


# ----------------------------------------------------------------------------------------------

def check_o5(rep, tier):
    rep.rule("O5", "Impl::ad cells are 0 or a single linear term in one tangent coordinate", minimum=5)
    gs = [g for g in groups.catalogue(tier) if not g.comm]
    W = irw.IRW("c19ad", groups.PRELUDE, fastmath=True, chunk=4)
    for g in gs:
        W.add("ad_%s" % g.key, "const %s* a, %s* out" % (g.scalar, g.scalar),
              "  using GT = %s;\n  Eigen::Map<const Eigen::Matrix<%s, %d, 1>> x(a); Eigen::Map<Eigen::Matrix<%s, %d, %d>> o(out);\n  o = GT::ad(x);\n"
              % (g.ctype, g.scalar, g.dof, g.scalar, g.dof, g.dof), g=g)
    facts = W.build()
    for fname, (ff, meta, mod) in sorted(facts.items()):
        g = meta["g"]
        cells, problems = irw.cell_writes(ff, 1, g.ssize)
        if problems or irw.foreign_writes(ff, {1}):
            rep.broke("%s: %s" % (fname, (problems or ["foreign write"])[0]))
            continue
        bad = None
        nlin = 0
        for k, ws in sorted(cells.items()):
            for w in ws:
                if w["const"] is not None:
                    if w["const"] != 0:
                        bad = (k, "stored the non-zero constant %s (ad(0) must be 0)" % w["const"])
                    continue
                m = re.match(r"^store \S+ (\S+), ptr", w["text"])
                v = m.group(1)
                if not _single_linear(ff, v):
                    bad = (k, "value `%s` is not a single term c*a[j]" % (ff.f.defs[v].text[:60] if v in ff.f.defs else v))
                else:
                    nlin += 1
            if bad:
                break
        rep.instance("O5", g.ctype, "ad", ok=bad is None, sample={"witness": fname, "linear_cells": nlin, "cells": len(cells)})
        if bad:
            rep.violation(Finding("O5", g.ctype, "ad", "ad(a) cell %d: %s -- ad_sparse = sum_k a_k*ad(e_k) would differ from the dense ad"
                                  % bad, None, None, detail={"witness": fname}))


def _single_linear(ff, v, depth=0):
    ins = ff.f.defs.get(v)
    if ins is None or depth > 4:
        return False
    if ins.op == "load":
        m = re.match(r"^load (?:volatile )?(.*?), ptr (\S+?)(?:,|$| )", ins.text)
        p = ff.prov(m.group(2))
        return p.root == ("param", 0) and p.off is not None
    if ins.op == "fneg":
        names = re.findall(ir.NAME, ins.text)
        return len(names) == 1 and _single_linear(ff, names[0], depth + 1)
    if ins.op in ("fmul",):
        body = re.sub(r"^fmul (?:\w+ )*(?:double|float) ", "", ins.text)
        a, b = [x.strip() for x in body.split(",")[:2]]
        if ir.parse_const(a) is not None and b.startswith("%"):
            return _single_linear(ff, b, depth + 1)
        if ir.parse_const(b) is not None and a.startswith("%"):
            return _single_linear(ff, a, depth + 1)
    return False


def check(rep, tier, replay=None):
    rep.explanations.append(
        "C19: the sparse writers and the published patterns are abstractly executed on abstract groups and abstract host matrices (engine M: "
        "effects on the host -- structure, entries outside the block, values inside it -- are compared with the dense result); the executed "
        "patterns are compared with the zero structure LLVM's simplifier derives for the dense functions (IR); ad linearity (IR).")
    rep.trusted.update(["clang++-16 front end; -O2 -ffast-math pipeline as zero-structure abstract interpreter", "lib/ir.py", "lib/mach.py object models of "
                        "Eigen::SparseMatrix (coeffRef inserts when absent, insert requires absence, InnerIterator visits stored entries of one outer vector)"])
    rep.assumptions.append("W1-W3 are bounded abstract executions: abstract groups R2, SO3-like, SE2, SE3, Bundle<SE2,R2,SO3>; offsets 0 and 2; column-major hosts")
    names = ["generators_sparse", "ad_sparse_pattern", "ad_sparse", "d_exp_sparse_pattern", "d2_exp_sparse_pattern", "dr_exp_sparse", "dr_expinv_sparse",
             "d2r_exp_sparse", "d2r_expinv_sparse", "lie_sparse"]
    d = fe.ast_dumps(names)
    rep.unit("umbrella TU filtered lie_sparse.hpp / lie_group_sparse_impl.hpp declarations")
    patterns = c19m.check(rep, tier, d)
    check_o2(rep, patterns, tier)
    check_o5(rep, tier)
