#!/usr/bin/env python3
"""recheck_seeds.py [-j N] [id-substring ...]: re-runs the property's quick check against every stored seeded change (applied to a scratch copy of /repo's
include tree under /tmp, removed afterwards) and refreshes meta.json["check"] (exit code, rules reporting, first report lines).  Seeds whose patch no longer
applies to the current tree (e.g. the defect they build on was repaired) are reported as STALE and left untouched.  Exits 1 if an applicable seed is not detected."""
import json, os, re, shutil, subprocess, sys, tempfile
from concurrent.futures import ThreadPoolExecutor
VERIF = os.path.dirname(os.path.dirname(os.path.abspath(__file__)))


def run_one(sid):
    sdir = os.path.join(VERIF, "seeded", sid)
    meta = json.load(open(os.path.join(sdir, "meta.json")))
    d = tempfile.mkdtemp(prefix="smooth-sd-")
    try:
        for sub in ("include", "config"):
            shutil.copytree(os.path.join("/repo", sub), os.path.join(d, sub))
        shutil.copy("/repo/CMakeLists.txt", d)
        r = subprocess.run(["patch", "-p1", "-s", "-f", "-i", os.path.join(sdir, "patch.diff")], cwd=d, capture_output=True, text=True)
        if r.returncode != 0:
            return sid, "STALE", []
        prop = meta["property"]
        env = dict(os.environ, VERIF_REPO=d, VERIF_EVIDENCE_DIR=os.path.join(d, "evidence"), VERIF_TIER="quick")
        r = subprocess.run([os.path.join(VERIF, "check"), prop, "--tier", "quick"], capture_output=True, text=True, env=env, timeout=3600)
        out = r.stdout
        rules = sorted(set(re.findall(r"^  \[([\w.]+)\]", out, re.M)))
        lines = [l.strip()[:300] for l in out.splitlines() if l.startswith("  [")][:6]
        meta["check"] = {"command": "./check %s --tier quick" % prop, "exit": r.returncode, "detected": r.returncode == 1, "rules_reporting": rules, "report_lines": lines}
        json.dump(meta, open(os.path.join(sdir, "meta.json"), "w"), indent=1)
        if r.returncode != 1 and meta.get("not_decided"):
            return sid, "NOT-DECIDED(exit %d)" % r.returncode, rules        # documented in meta.json["not_decided"] and DESIGN.md 11.8
        return sid, "detected" if r.returncode == 1 else "MISSED(exit %d)" % r.returncode, rules
    finally:
        shutil.rmtree(d, ignore_errors=True)


def main():
    args = sys.argv[1:]
    j = 6
    sel = []
    i = 0
    while i < len(args):
        if args[i] == "-j":
            j = int(args[i + 1]); i += 2
        else:
            sel.append(args[i]); i += 1
    ids = sorted(x for x in os.listdir(os.path.join(VERIF, "seeded")) if os.path.isfile(os.path.join(VERIF, "seeded", x, "meta.json")))
    if sel:
        ids = [x for x in ids if any(s in x for s in sel)]
    bad = 0
    with ThreadPoolExecutor(max_workers=j) as ex:
        for sid, st, rules in ex.map(run_one, ids):
            print("%-62s %-16s %s" % (sid, st, ",".join(rules)))
            if st.startswith("MISSED"):
                bad += 1
    print("%d seeds, %d missed" % (len(ids), bad))
    sys.exit(1 if bad else 0)


if __name__ == "__main__":
    main()
