#!/usr/bin/env python3
"""Regenerates MANIFEST.json from the tables below (keeps it schema-valid)."""
import json
import os

HERE = os.path.dirname(os.path.dirname(os.path.abspath(__file__)))

CLAIMED = {
    # id: (engine, technique, level text, level note, design ref)
}

NOT_APPLICABLE = {
    "C01": "numerical equality (1e-12) of composition/inverse/action with a matrix oracle over all elements: relational floating-point reasoning through Eigen templates, no sound static argument in reach; layout facts it relies on are decided under C06/C16",
    "C03": "bilinear/matrix identities over all inputs (Ad, ad, hat, vee, bracket): would need symbolic evaluation of the formulas, a different technique family; no necessary structural clause beyond what the compiler already enforces",
    "C10": "backward-error/descent statements about LDLT solutions of runtime matrices: numerical linear algebra, one shared code path, nothing structural to cross-check",
    "C11": "Ad-transport recursions for spline derivatives and their Jacobians are differential identities over all inputs, not visible in code shape (basis-table facts are decided under C13/C20)",
}


def load():
    return json.load(open(os.path.join(HERE, "tools", "claims.json")))


def main():
    claims = load()
    checks = []
    for pid in sorted(claims):
        c = claims[pid]
        checks.append({
            "property_id": pid,
            "quick_cmd": "./check %s --tier quick" % pid,
            "thorough_cmd": "./check %s --tier thorough" % pid,
            "evidence_file": "/verif/evidence/%s.json" % pid,
            "replay_cmd_template": "./check %s --replay {path}" % pid,
            "engine": c["engine"],
            "level_claimed": {"category": "other", "text": c["text"], "design_ref": c.get("design_ref", "DESIGN.md section 4, " + pid)},
            "level_note": c["note"],
            "technique": c["technique"],
        })
    na = dict(NOT_APPLICABLE)
    for pid, reason in claims.get("_not_applicable", {}).items() if False else []:
        na[pid] = reason
    allp = [json.loads(l)["id"] for l in open(os.path.join(HERE, "properties.jsonl"))]
    na_list = []
    for pid in allp:
        if pid in claims:
            continue
        reason = na.get(pid, "not yet decided by a registered check in this revision; see DESIGN.md section 4")
        na_list.append({"property_id": pid, "reason": reason})
    man = {
        "version": 1,
        "setup_cmd": "true",
        "hooks": {
            "guard": "SMOOTH_VERIF",
            "enable": "no source hooks: all analyses read the unmodified headers and compile generated witness TUs kept under /verif",
            "baseline_off_cmd": "cmake --build /repo/_build -j16 && ctest --test-dir /repo/_build -j8 --timeout 900",
            "source_commits": [],
            "add_only": True,
        },
        "engines": [
            {"name": "FE", "path": "lib/fe.py", "serves_properties": sorted(claims), "kind_free_text": "front end: generated version header, umbrella TU, clang++-16 JSON AST dumps, witness TUs, optimized LLVM IR"},
            {"name": "A", "path": "lib/astlib.py", "serves_properties": sorted(p for p in claims if "A" in claims[p]["engine"].split("+")), "kind_free_text": "repository-specific rules over the type-checked syntax tree"},
            {"name": "J", "path": "lib/jet.py", "serves_properties": sorted(p for p in claims if "J" in claims[p]["engine"].split("+")), "kind_free_text": "truncated-series abstract domain for sibling agreement of small-angle switches"},
            {"name": "W", "path": "lib/wit.py", "serves_properties": sorted(p for p in claims if "W" in claims[p]["engine"].split("+")), "kind_free_text": "compile-fail / static_assert witnesses"},
            {"name": "P", "path": "lib/poly.py", "serves_properties": sorted(p for p in claims if "P" in claims[p]["engine"].split("+")), "kind_free_text": "path-wise polynomial / rational-function abstract interpretation of the optimized LLVM IR of loop-free witnesses (exact identities modulo representation constraints)"},
            {"name": "R", "path": "lib/rays.py", "serves_properties": sorted(p for p in claims if "R" in claims[p]["engine"].split("+")), "kind_free_text": "power series along rational rays as an abstract domain over the optimized LLVM IR (identity testing of transcendental closed forms against their defining series)"},
            {"name": "RND", "path": "props/roundir.py", "serves_properties": sorted(p for p in claims if "RND" in claims[p]["engine"].split("+")), "kind_free_text": "first-order rounding-bound and case-split-continuity abstract interpretation of the optimized LLVM IR over a grid of rotation angles"},
            {"name": "M", "path": "lib/mach.py", "serves_properties": sorted(p for p in claims if "M" in claims[p]["engine"].split("+")), "kind_free_text": "abstract machine over the clang AST: function bodies executed on free / symbolic models (free group, free Lie algebra, symbolic tables, sentinel hosts, scripted oracles), path splitting on undecided comparisons"},
            {"name": "I", "path": "lib/ir.py", "serves_properties": sorted(p for p in claims if "I" in claims[p]["engine"].split("+")), "kind_free_text": "effect / write-set / dependence / zero-structure facts from optimized LLVM IR of API-level witness functions"},
        ],
        "checks": checks,
        "not_applicable": na_list,
        "notes": "Static analysis only: no registered check compiles-and-runs library code on inputs; abstract execution happens on abstract values inside the checker. Exit 0 held / 1 VIOLATION / 2 analysis-broken (tool missing, anchor vanished, rule matched fewer instances than confirmed). Genuine defects found while building were repaired in /repo as fix: commits and are listed under 'fixed' in known_findings.json.",
    }
    json.dump(man, open(os.path.join(HERE, "MANIFEST.json"), "w"), indent=1)
    print("MANIFEST.json: %d checks, %d not applicable" % (len(checks), len(na_list)))


if __name__ == "__main__":
    main()
