"""C09 semantic rules on engine M: minimize<D>(f, x, cb, opts) and the trust-region strategies are abstractly executed against a scripted
oracle, and the resulting *trace* (callback invocations, evaluations of f and of its derivative, strategy calls, final arguments, result)
is checked against the contract.

The residual function, its Jacobian, the step solver and every vector are opaque terms; what the solver can observe about them is their
norms, which a script fixes per iteration as exact rationals: q = |f(x (+) dx)| / |f(x)|, p = |f(x) + J dx| / |f(x)|, the scaled step
norm, and whether |f(x)| is zero.  The real strategy objects (CeresStrategy, DisneyStrategy, executed from their own source) decide
acceptance from the gain ratio the solver hands them.  All scripts of length <= max_iter over a small alphabet are explored.

L.trace  (a) the callback sees the initial point first, then exactly the new point after every change of the arguments, and nothing else;
         (b) the arguments only ever change to wrt_rplus(x, dx) with dx the step solved from r, J evaluated at the current arguments;
         (c) every accepted point has cost <= the cost of the point before it, unless the step was forced by a degenerate guard
             (|f| = 0 or predicted reduction <= 0, for which the true model gives a zero step);
         (d) the strategy is asked exactly once per iteration, with rho = (1 - q^2) / (1 - p^2);
         (e) at most max_iter iterations; result.iter is their number; status is MaxIters exactly when the loop ran out without a
             convergence flag, Ftol / Ptol only when set by an accepted step that meets the documented criterion;
         (f) the arguments finally hold the last point shown to the callback.
L.strat  every step_and_update override, executed for rho in {NaN, -inf, -1, -0, 0, tiny, 1/2, 1, 10, +inf}: acceptance implies rho > 0 and not NaN;
         a rejection strictly shrinks the radius returned by get_delta(); an acceptance leaves it finite and positive."""
import itertools
import re
from fractions import Fraction

import astlib as A
import fe
import mach
import mmodels
from mach import AbstractViolation, Cell, Machine, Obj, PyFunc, Tup, Unab, Vec, is_num, show_val, simp
from mmodels import OptVal, Term
from report import Finding


class Script:
    """oracle of one run: per iteration (q, p, zero residual?, scaled step norm)"""

    def __init__(self, steps):
        self.steps = steps


class Strategy(Obj):
    pass


def field_inits(record_node):
    out = {}
    for k in A.kids(record_node):
        if k.get("kind") == "FieldDecl":
            ks = [c for c in A.kids(k) if not (c.get("kind") or "").endswith(("Attr", "Comment"))]
            out[k.get("name")] = ks[-1] if ks else None
    return out


class OptMachine(Machine):
    def __init__(self, decls, records, script, strat_cls, max_iter, scale=Fraction(1), **kw):
        super().__init__(decls=decls, type_factory=self.types, **kw)
        self.scale = Fraction(scale)  # unit of the residual: every quantity that carries the residual's dimension is multiplied by it
        self.ieee_division = True
        self.statics = {}
        self.records = records
        self.script = script
        self.k = -1                   # current iteration of the oracle (advanced by the derivative evaluation)
        self.events = []
        self.global_env = mach.Env()
        self.cost = {}                # point term -> |f| (Fraction)
        self.x0 = Term("X0")
        self.cost[self.x0.name] = self.scale if not (script.steps and script.steps[0][2]) else Fraction(0)
        f = self.funcs
        f["apply"] = PyFunc(self.std_apply, lazy=True)
        f["dr"] = PyFunc(self.dr, lazy=True)
        f["colwise_norm"] = PyFunc(lambda M, v: Term("colwise_norm(%s)" % show_val(v[0])))
        f["solve_trust_region"] = PyFunc(self.solve_tr)
        f["wrt_rplus"] = PyFunc(self.wrt_rplus)
        f["fpow"] = PyFunc(self.fpow, lazy=True)
        f["now"] = PyFunc(lambda M, v: Term("now()"))
        f["method:stableNorm"] = PyFunc(self.norm, lazy=True)
        f["method:norm"] = f["method:stableNorm"]
        f["method:size"] = PyFunc(lambda M, o, a, t, env: Fraction(3), lazy=True)
        f["method:rows"] = f["method:size"]
        f["method:cols"] = f["method:size"]
        f["name:*"] = PyFunc(self.other_name, lazy=True)
        f["make_shared"] = PyFunc(lambda M, args, env, name: self.new_strategy(name), lazy=True)
        f["forward"] = PyFunc(lambda M, args, env, name: M.ev(args[0], env), lazy=True)
        f["isnan"] = PyFunc(lambda M, v: isinstance(v[0], float) and v[0] != v[0])
        f["isfinite"] = PyFunc(lambda M, v: not (isinstance(v[0], float) and (v[0] != v[0] or abs(v[0]) == float("inf"))))
        f["print"] = PyFunc(lambda M, args, env, name: None, lazy=True)
        self.strat = self.new_object(strat_cls)
        self.opts = Obj("MinimizeOptions", {"strat": SharedPtr(self.strat), "ptol": Fraction(1, 10 ** 6), "ftol": Fraction(1, 10 ** 6),
                                            "max_iter": Fraction(max_iter), "verbose": False})

    def run_function(self, d, vals, **kw):
        nm = d.qname.split("::")[-1]
        if nm == "step_and_update" and vals:
            self.events.append(("strategy", self.k, simp(self.rv(vals[0]))))
        return super().run_function(d, vals, **kw)

    # -- objects ------------------------------------------------------------------------------------------
    def new_object(self, cls):
        rec = self.records.get(cls)
        if rec is None:
            raise Unab("class %s not found" % cls)
        o = Obj(cls)
        env = mach.Env(self.global_env)
        # static data members (named constants) are visible to the field initialisers and to the member functions
        st = self.statics.setdefault(cls, {})
        for k in A.kids(rec):
            if k.get("kind") == "VarDecl" and k.get("name") not in st:
                ks = [c for c in A.kids(k) if not (c.get("kind") or "").endswith(("Attr", "Comment"))]
                if ks:
                    v = self.rv(self.ev(mach.TE(ks[-1]), env))
                    if isinstance(v, Vec) and v.name == "initializer list" and v.items:
                        v = v.items[0]
                    st[k.get("name")] = v
            if k.get("kind") == "VarDecl" and k.get("name") in st:
                env.bind(k.get("name"), Cell(st[k.get("name")]))
        for nm, init in field_inits(rec).items():
            if init is None:
                o.f[nm] = mach.UNSET
            else:
                v = self.rv(self.ev(mach.TE(init), env))
                if isinstance(v, Vec) and v.name == "initializer list":
                    v = v.items[0] if v.items else Fraction(0)
                o.f[nm] = v
        return o

    def new_strategy(self, name):
        m = re.search(r"make_shared<(\w+)>", name or "")
        return SharedPtr(self.new_object(m.group(1))) if m else SharedPtr(self.strat)

    def types(self, M, tyn, args, env):
        if tyn.startswith(("std::optional<", "conststd::optional<")):
            if args is None or len(args) == 0:
                return OptVal()
            v = self.eval(args[0], env)
            if isinstance(v, Vec) and not v.items:
                return OptVal()
            return OptVal(v)
        if tyn in ("SolveResult", "constSolveResult") and args is not None:
            return Vec([self.copyval(self.ev(a, env)) for a in args], "SolveResult")
        if "JType" in tyn or "decltype" in tyn:
            return NotImplemented
        return NotImplemented

    def other_name(self, M, n, env, _):
        t = n or ""
        if isinstance(self.this, Obj) and t.split("::")[-1] in self.statics.get(self.this.tname, {}):
            return self.statics[self.this.tname][t.split("::")[-1]]
        m = re.match(r"^(?:SolveResult::)?(?:Status::)?(Ftol|Ptol|MaxIters)$", t)
        if m:
            return m.group(1)
        if t.endswith("ColsAtCompileTime") or t.endswith("RowsAtCompileTime"):
            return Fraction(3)
        return NotImplemented

    # -- oracle -------------------------------------------------------------------------------------------
    def point(self, x):
        x = self.rv(x)
        if isinstance(x, Tup) and len(x.items) == 1:
            return self.rv(x.items[0])
        raise Unab("the argument tuple is %s" % show_val(x))

    def std_apply(self, M, args, env, name):
        fn = M.eval(args[0], env)
        x = M.eval(args[1], env)
        pt = self.point(x)
        if isinstance(fn, Recorder):
            self.events.append((fn.kind, pt.name))
            if fn.kind == "cb":
                return None
            return Term("f(%s)" % pt.name)
        if isinstance(fn, (mach.Closure, PyFunc)):
            return M.apply(fn, [Cell(pt)], None, None)
        raise Unab("std::apply of %s" % show_val(fn))

    def dr(self, M, args, env, name):
        fn = M.eval(args[0], env)
        pt = self.point(M.eval(args[1], env))
        if not isinstance(fn, Recorder) or fn.kind != "f":
            raise Unab("diff::dr of %s" % show_val(fn))
        self.k += 1
        if self.k >= len(self.script.steps):
            raise Unab("the solver asks for more derivative evaluations than the scenario has iterations")
        self.events.append(("dr", pt.name, self.k))
        self.cur = pt
        return Tup([Cell(Term("f(%s)" % pt.name)), Cell(Term("J(%s)" % pt.name))])

    def solve_tr(self, M, v):
        J, d, r, Delta = v[:4]
        pt = self.cur.name
        ok = isinstance(J, Term) and J.name == "J(%s)" % pt and isinstance(r, Term) and r.name == "f(%s)" % pt
        self.events.append(("solve", pt, ok, show_val(Delta), show_val(d)))
        return Tup([Cell(Term("dx%d" % self.k)), Cell(Term("lambda%d" % self.k))])

    def wrt_rplus(self, M, v):
        pt = self.point(v[0])
        dx = v[1]
        new = Term("rplus(%s, %s)" % (pt.name, show_val(dx)))
        q = self.script.steps[self.k][0]
        base = self.cost.get(pt.name)
        if base is not None and q is not None:
            self.cost[new.name] = base * q if base != 0 else q * self.scale      # zero residual: the trial cost itself is scripted
        return Tup([Cell(new)])

    def fpow(self, M, args, env, name):
        m = re.search(r"fpow<(\d+)>", name or "")
        v = M.eval(args[0], env)
        r = Fraction(1)
        for _ in range(int(m.group(1)) if m else 2):
            r = M.arith("*", r, v)
        return r

    def norm(self, M, o, a, t, env):
        v = M.rv(o)
        if not isinstance(v, Term):
            raise Unab("norm of %s" % show_val(v))
        q, p, zero, stepn = self.script.steps[max(self.k, 0)]
        cur = self.cur.name
        base = self.cost[cur]
        m = re.match(r"^f\((.*)\)$", v.name)
        if m and m.group(1) in self.cost:
            return self.cost[m.group(1)]
        if v.name == "(f(%s) + (J(%s) * dx%d))" % (cur, cur, self.k) or v.name == "((J(%s) * dx%d) + f(%s))" % (cur, self.k, cur):
            return base * p if base != 0 else p * self.scale
        if re.match(r"^colwise_norm\(J\(.*\)\)\.unaryExpr\(.*\)\.cwiseProduct\(dx%d\)$" % self.k, v.name) or re.match(r"^dx%d\.cwiseProduct\(" % self.k, v.name):
            return stepn * self.scale          # D = column norms of J carries the residual's unit, dx does not
        if v.name.startswith("colwise_norm("):
            return self.scale
        raise Unab("the scenario has no value for the norm of %s" % v.name)


class Recorder:
    def __init__(self, kind):
        self.kind = kind

    def show(self):
        return "<%s>" % self.kind


class SharedPtr:
    def __init__(self, o):
        self.o = o

    def show(self):
        return "shared_ptr(%s)" % show_val(self.o)

    def __deepcopy__(self, memo):
        return SharedPtr(self.o)

    def deref(self):
        return self.o

    def m_get(self, M, a, t):
        return self.o

    def truth(self):
        return self.o is not None


def collect(d):
    decls, records = {}, {}
    seen = set()
    for key, objs in d.items():
        for x in A.index(objs):
            if not x.pattern or not x.file or not x.file.startswith(fe.INCLUDE):
                continue
            if x.kind in A.FUNCS and A.body(x.node) is not None:
                ident = (x.qname, x.file, x.line)
                if ident in seen:
                    continue
                seen.add(ident)
                decls.setdefault(x.qname.split("::")[-1], []).append(x)
            elif x.kind == "CXXRecordDecl" and x.node.get("completeDefinition"):
                records[x.qname.split("::")[-1]] = x.node
    return decls, records


def strategies(records):
    out = []
    for nm, node in records.items():
        bases = [b.get("type", {}).get("qualType", "") for b in node.get("bases", [])]
        if any("TrustRegionStrategy" in b for b in bases):
            out.append(nm)
    return sorted(out)


RHOS = [float("nan"), float("-inf"), Fraction(-1), Fraction(0), Fraction(1, 10 ** 6), Fraction(1, 2), Fraction(1), Fraction(10), float("inf")]


def check_strategies(rep, decls, records):
    rep.rule("L.strat", "every step_and_update override, abstractly executed: acceptance implies rho > 0 (and not NaN); a rejection strictly shrinks get_delta(); "
             "an acceptance leaves it finite and positive", minimum=16)
    names = strategies(records)
    if len(names) < 2:
        rep.broke("L.strat: %d TrustRegionStrategy implementations found (2 confirmed by hand)" % len(names))
    for cls in names:
        meths = {m: [d for d in decls.get(m, []) if d.qname.split("::")[-2:-1] == [cls]] for m in ("step_and_update", "get_delta")}
        if any(len(v) != 1 for v in meths.values()):
            rep.broke("L.strat: %s lacks step_and_update / get_delta bodies" % cls)
            continue
        su, gd = meths["step_and_update"][0], meths["get_delta"][0]
        for history in ([], [Fraction(1, 2)], [Fraction(-1)], [Fraction(-1), Fraction(-1)]):
            for rho in RHOS:
                inst = "%s rho=%s after %s" % (cls, rho, [str(h) for h in history])
                try:
                    M = OptMachine(decls, records, Script([]), cls, 1)
                    o = M.strat
                    for h in history:
                        M.run_function(su, [Cell(h)], this=o)
                    before = simp(M.run_function(gd, [], this=o))
                    verdict = M.run_function(su, [Cell(rho)], this=o)
                    after = simp(M.run_function(gd, [], this=o))
                except Unab as ex:
                    rep.broke("L.strat: %s is outside the abstract machine: %s" % (cls, ex))
                    break
                except AbstractViolation as ex:
                    rep.instance("L.strat", cls + "::step_and_update", inst, ok=False, sample={})
                    rep.violation(Finding("L.strat", cls + "::step_and_update", inst, "%s: %s" % (inst, ex), *A.loc(su.node)))
                    continue
                bad = None
                verdict = bool(verdict) if isinstance(verdict, bool) else M.truth(verdict)
                pos = (not isinstance(rho, float) and rho > 0) or (isinstance(rho, float) and rho == float("inf"))
                fin = lambda v: isinstance(v, Fraction) or (isinstance(v, float) and v == v and abs(v) != float("inf"))
                if verdict and not pos:
                    bad = "the step is accepted for rho = %s; the cost does not decrease for a gain ratio that is not positive (NaN arises from 0/0 reductions)" % rho
                elif verdict and not (fin(after) and after > 0):
                    bad = "after accepting rho = %s the radius is %s" % (rho, after)
                elif not verdict and not (fin(after) and fin(before) and 0 < after < before):
                    bad = "after rejecting rho = %s the radius goes from %s to %s; termination of the rejection loop needs it to shrink strictly" % (rho, before, after)
                rep.instance("L.strat", cls + "::step_and_update", inst, ok=bad is None, sample={})
                if bad:
                    rep.violation(Finding("L.strat", cls + "::step_and_update", inst, "%s: %s" % (cls, bad), *A.loc(su.node)))
            else:
                continue
            break


ALPHABET = [
    # (q = trial/current cost ratio, p = predicted/current ratio, zero residual, scaled step norm)
    (Fraction(1, 2), Fraction(1, 4), False, Fraction(1)),          # good step: rho = 0.8
    (Fraction(3, 2), Fraction(1, 2), False, Fraction(1)),          # cost increases: rho < 0
    (Fraction(1), Fraction(1), False, Fraction(1)),                # no predicted reduction (0/0)
    (Fraction(1, 2), Fraction(3, 2), False, Fraction(1)),          # negative predicted reduction
    (Fraction(999999, 1000000), Fraction(999998, 1000000), False, Fraction(1)),   # tiny reductions: Ftol
    (Fraction(1, 2), Fraction(1, 4), False, Fraction(1, 10 ** 9)),  # tiny step: Ptol
    (Fraction(4001, 4000), Fraction(1, 2), False, Fraction(1)),    # cost increases very slightly although a reduction was predicted
    (Fraction(0), Fraction(0), True, Fraction(1)),                 # zero residual at the current point
]


def check_trace(rep, decls, records, tier):
    rep.rule("L.trace", "minimize, abstractly executed against scripted oracles with the real strategies: callback sequence, argument updates, monotone cost of accepted "
             "points, gain ratio handed to the strategy, iteration bound / status contract, final arguments", minimum=100)
    mains = [d for d in decls.get("minimize", []) if len(A.params(d.node)) == 4]
    if len(mains) != 1:
        rep.broke("L.trace: expected one minimize(f, x, cb, opts) body, found %d" % len(mains))
        return
    fn = mains[0]
    names = strategies(records)
    depth = 3 if tier == "quick" else 4
    scripts = []
    for n in range(0, depth + 1):
        for combo in itertools.product(range(len(ALPHABET)), repeat=n):
            # a zero residual can only be the state of the *current* point: keep scripts consistent (zero only in first position or after a step to zero cost)
            if any(ALPHABET[c][2] for c in combo[1:]):
                continue
            scripts.append(combo)
    nviol = 0
    for cls in names:
        for combo in scripts:
            for max_iter in sorted({len(combo), max(len(combo) - 1, 0)}):
                if max_iter > len(combo):
                    continue
                steps = [ALPHABET[c] for c in combo]
                inst = "%s max_iter=%d script=%s" % (cls, max_iter, "".join(str(c) for c in combo) or "-")
                try:
                    M = OptMachine(decls, records, Script(steps), cls, max_iter)
                    xcell = Cell(Tup([Cell(M.x0)]))
                    res = M.run_function(fn, [Cell(Recorder("f")), xcell, Cell(Recorder("cb")), mach.ItemRef([M.opts], 0)], full="minimize<D>")
                except Unab as ex:
                    msg = str(ex)
                    if "more derivative evaluations" in msg:
                        rep.instance("L.trace", "minimize", inst, ok=False, sample={})
                        nviol += 1
                        if nviol <= 3:
                            rep.violation(Finding("L.trace", "minimize", inst, "%s: more than max_iter = %d iterations are executed" % (inst, max_iter), *A.loc(fn.node)))
                        continue
                    rep.broke("L.trace: minimize is outside the abstract machine (%s): %s" % (inst, ex))
                    return
                except AbstractViolation as ex:
                    rep.instance("L.trace", "minimize", inst, ok=False, sample={})
                    nviol += 1
                    if nviol <= 3:
                        rep.violation(Finding("L.trace", "minimize", inst, "%s: %s" % (inst, ex), *A.loc(fn.node)))
                    continue
                bad = judge(M, res, xcell, steps, max_iter)
                rep.instance("L.trace", "minimize", inst, ok=bad is None, sample={})
                if bad:
                    nviol += 1
                    if nviol <= 3:
                        rep.violation(Finding("L.trace", "minimize", inst, "%s: %s" % (inst, bad), *A.loc(fn.node)))


def outcome(M, res):
    """what a caller can observe of a run, modulo the unit of the residual: status, iteration count, callback sequence, strategy verdict inputs"""
    res = M.rv(res)
    status, iters = (res.items[0], simp(res.items[1])) if isinstance(res, Vec) and len(res.items) >= 2 else (show_val(res), None)
    return (status, iters, tuple(e[1] for e in M.events if e[0] == "cb"), tuple((e[1], e[2] if not isinstance(e[2], float) else repr(e[2])) for e in M.events if e[0] == "strategy"))


def check_scale(rep, decls, records, tier):
    """L.scale: multiplying the residual function by a positive constant does not move its minimiser, so no decision of minimize may depend on it: the same
    scenario (same cost ratios, same step) is run with every residual-dimension quantity of the oracle scaled by s, and the observable outcome must not change"""
    rep.rule("L.scale", "minimize, abstractly executed with the residual's unit scaled by 1e-8 and 1e8: status, iteration count, callback sequence and the gain ratios handed to the "
             "strategy are those of the unscaled scenario", minimum=20)
    mains = [d for d in decls.get("minimize", []) if len(A.params(d.node)) == 4]
    if len(mains) != 1:
        rep.broke("L.scale: expected one minimize(f, x, cb, opts) body, found %d" % len(mains))
        return
    fn = mains[0]
    names = strategies(records)
    depth = 2 if tier == "quick" else 3
    seen_kinds = set()
    for cls in names[:1] if tier == "quick" else names:
        for n in range(1, depth + 1):
            for combo in itertools.product(range(len(ALPHABET)), repeat=n):
                if any(ALPHABET[c][2] for c in combo[1:]):
                    continue
                steps = [ALPHABET[c] for c in combo]
                outs = {}
                try:
                    for sc in (Fraction(1), Fraction(1, 10 ** 8), Fraction(10 ** 8)):
                        M = OptMachine(decls, records, Script(steps), cls, len(combo), scale=sc)
                        xcell = Cell(Tup([Cell(M.x0)]))
                        res = M.run_function(fn, [Cell(Recorder("f")), xcell, Cell(Recorder("cb")), mach.ItemRef([M.opts], 0)], full="minimize<D>")
                        outs[sc] = outcome(M, res)
                except (Unab, AbstractViolation):
                    continue          # reported by L.trace
                base = outs[Fraction(1)]
                inst = "%s script=%s" % (cls, "".join(str(c) for c in combo))
                diff = [(sc, o) for sc, o in outs.items() if o != base]
                if not diff:
                    rep.instance("L.scale", "minimize", inst, ok=True, sample={})
                    continue
                sc, o = diff[0]
                which = "status" if o[0] != base[0] else ("iteration count" if o[1] != base[1] else ("callback sequence" if o[2] != base[2] else "gain ratio"))
                kind = "%s: %s -> %s" % (which, base[0] if which == "status" else base[1], o[0] if which == "status" else o[1])
                # one instance name per kind of dependence (the scripts that exhibit it are many)
                crit = "/".join(sorted({str(x) for x in (base[0], o[0]) if x != "MaxIters"})) or "loop"
                key = "the %s decision depends on the residual's unit" % crit
                rep.instance("L.scale", "minimize", key if key not in seen_kinds else inst, ok=False, sample={"script": inst, "scale": str(sc)})
                if key in seen_kinds:
                    continue
                seen_kinds.add(key)
                rep.violation(Finding("L.scale", "minimize", key,
                                      "scenario %s: with the residual multiplied by %s (same cost ratios, same step dx) minimize returns status %s after %s iteration(s) instead of %s after %s -- "
                                      "a termination test compares a quantity that carries the residual's unit (e.g. |D dx| with D the column norms of J) with a dimensionless tolerance, so convergence "
                                      "is declared for O(1) steps when the residual is expressed in small units" % (inst, float(sc), o[0], o[1], base[0], base[1]), *A.loc(fn.node)))


def judge(M, res, xcell, steps, max_iter):
    ev = M.events
    res = M.rv(res)
    if not (isinstance(res, Vec) and len(res.items) >= 2):
        return "the result is %s, not a SolveResult" % show_val(res)
    status, iters = res.items[0], simp(res.items[1])
    # (a), (b), (f): callback / argument discipline
    cbs = [e[1] for e in ev if e[0] == "cb"]
    if not cbs or cbs[0] != "X0":
        return "the callback does not see the initial point first (callback sequence %s)" % cbs[:3]
    final = M.point(xcell.get()).name
    if cbs[-1] != final:
        return "the arguments finally hold %s but the last point shown to the callback is %s" % (final, cbs[-1])
    if len(set(cbs)) != len(cbs):
        return "the callback is shown the same point twice (%s)" % cbs
    drs = [e for e in ev if e[0] == "dr"]
    n_it = len(drs)
    if n_it > max_iter:
        return "%d iterations executed with max_iter = %d" % (n_it, max_iter)
    if iters != n_it:
        return "result.iter = %s but %d iterations were executed" % (iters, n_it)
    for e in ev:
        if e[0] == "solve" and not e[2]:
            return "the step is solved from residual / Jacobian that were not evaluated at the current arguments"
    # per iteration: reconstruct what happened
    cur = "X0"
    ci = 1
    converged = None
    calls = [e for e in ev if e[0] == "strategy"]
    if [c[1] for c in calls] != list(range(n_it)):
        return "the strategy is consulted in iterations %s; exactly once per iteration (%d) is needed for the trust region to adapt" % ([c[1] for c in calls], n_it)
    at = {d[2]: d[1] for d in drs}
    for c in calls:
        q, p, zero, stepn = steps[c[1]]
        zero = zero or M.cost.get(at.get(c[1])) == 0
        if zero or p == 1:
            continue          # 0/0 or x/0: any NaN / inf is the honest value
        want = (1 - q * q) / (1 - p * p)
        if not (isinstance(c[2], Fraction) and c[2] == want):
            return "iteration %d hands rho = %s to the strategy; actual / predicted reduction is %s" % (c[1], c[2], want)
    for k, d in enumerate(drs):
        if d[1] != cur:
            return "iteration %d differentiates at %s while the arguments hold %s" % (k, d[1], cur)
        q, p, zero, stepn = steps[k]
        zero = zero or M.cost[cur] == 0
        cand = "rplus(%s, dx%d)" % (cur, k)
        moved = ci < len(cbs) and cbs[ci] == cand
        base = M.cost[cur]
        pred_red = None if zero else 1 - p * p
        actu_red = None if zero else 1 - q * q
        if moved:
            degenerate = zero or pred_red <= 0
            newc = M.cost.get(cand)
            if not degenerate and newc is not None and newc > base:
                return "iteration %d accepts a point of cost %s after cost %s (q = %s, p = %s): the accepted iterates are not monotone" % (k, newc, base, q, p)
            cur = cand
            ci += 1
            # documented Ftol criterion with IEEE semantics of rho = actu / pred (0/0 = NaN compares false, x/0 = +-inf)
            if zero:
                rho_le2 = False
            elif pred_red == 0:
                rho_le2 = actu_red < 0
            else:
                rho_le2 = actu_red / pred_red <= 2
            if not zero and abs(actu_red) < Fraction(1, 10 ** 6) and pred_red < Fraction(1, 10 ** 6) and rho_le2:
                converged = "Ftol"
            elif stepn < Fraction(1, 10 ** 6) * 3:
                converged = "Ptol"
            if converged and k != n_it - 1:
                return "a convergence criterion is met in iteration %d but the loop continues" % k
    if ci != len(cbs):
        return "the callback sequence %s does not follow the candidates of the iterations: %d invocation(s) after the initial one, %d of them the iteration's own wrt_rplus(x, dx)" % (
            cbs, len(cbs) - 1, ci - 1)
    if converged:
        if status != converged:
            return "status is %s; the last accepted step met the %s criterion" % (status, converged)
    else:
        if status != "MaxIters":
            return "status is %s although no accepted step met a convergence criterion (the loop ran out after %d iterations)" % (status, n_it)
        if n_it != max_iter:
            return "the loop stops after %d of max_iter = %d iterations without a convergence flag" % (n_it, max_iter)
    return None


def check(rep, tier):
    d = fe.ast_dumps(["minimize", "Strategy", "MinimizeOptions"])
    decls, records = collect(d)
    check_strategies(rep, decls, records)
    check_trace(rep, decls, records, tier)
    check_scale(rep, decls, records, tier)
