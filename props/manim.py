"""C07 semantic rules on engine M: the Manifold models (SubManifold, std::vector<M>, the LieGroup adapter, AnyManifold) are abstractly
executed over an *abstract* underlying manifold and the manifold axioms / structural contracts are read off the resulting values.

The underlying manifold M is uninterpreted: rplus_M(x, v) is the term RP(x, v); rminus_M(RP(x, v), x) = v is the only axiom the model
knows (this is M's own axiom, C07's premise); any other rminus_M(x, y) is a vector of fresh symbols.  Tangent coordinates are symbols.

F.sub   SubManifold over M with dof n in 0..5 and every set of fixed dimensions: rplus(a) = (m0, rplus_M(m, S a), fixed) with S the
        order-preserving embedding of the free coordinates; rminus gathers the free coordinates; dof = n - |fixed|; the axiom
        rminus(rplus(s, a), s) = a follows; cast keeps the roles of origin / value / fixed set.
F.vec   std::vector<M> (static element dof and run-time element dofs): element i is moved by the i-th consecutive segment of the tangent,
        rminus concatenates the element differences, dof is the sum of the element dofs; the axiom follows.
F.lie   the LieGroup adapter: rplus(g, a) = g exp(a), rminus(g1, g2) = log(g2^-1 g1) in the free group; the axiom follows.
F.any   AnyManifold: copy construction / copy assignment give an equal and *independent* value (changing one payload leaves the other),
        rplus / rminus / dof delegate to the payload."""
import itertools
import re
from fractions import Fraction

import astlib as A
import fe
import mach
import mmodels
import splinem
from mach import AbstractViolation, Cell, ItemRef, Machine, Obj, PyFunc, Unab, Vec, is_num, show_val, simp, sym
from mmodels import DVec, Term
from report import Finding


class RP:
    """rplus_M(base, v): a point of the abstract manifold"""

    def __init__(self, base, v):
        self.base, self.v = base, list(v)

    def show(self):
        return "rplus(%s, [%s])" % (show_val(self.base), ", ".join(show_val(x) for x in self.v))

    def __deepcopy__(self, memo):
        return RP(self.base, list(self.v))

    def same(self, o):
        return isinstance(o, RP) and same_point(self.base, o.base) and len(self.v) == len(o.v) and all(mach.num_equal(a, b) for a, b in zip(self.v, o.v))


def same_point(a, b):
    if isinstance(a, RP):
        return a.same(b)
    if isinstance(a, Term):
        return isinstance(b, Term) and a.name == b.name
    if isinstance(a, splinem.FG):
        return a == b
    return a is b


class Pt(Term):
    """an abstract point with a run-time dof"""

    def __init__(self, name, dof):
        super().__init__(name)
        self.dof = dof

    def __deepcopy__(self, memo):
        return self

    def m_isApprox(self, M, a, t):
        return same_point(self, a[0])


class TVec(DVec):
    """a tangent / coordinate vector of symbols with Eigen's sub-vector interface"""

    def __deepcopy__(self, memo):
        return TVec([x for x in self.items], self.name)

    def m_setZero(self, M, a, t):
        if a:
            n = int(simp(a[0]))
            self.items[:] = [Fraction(0)] * n
        else:
            for i in range(len(self.items)):
                self.items[i] = Fraction(0)
        return self

    def m_resize(self, M, a, t):
        n = int(simp(a[0]))
        self.items[:] = (self.items + [Fraction(0)] * n)[:n]

    def m_size(self, M, a, t):
        return Fraction(len(self.items))

    def seg(self, M, a, t):
        if len(a) == 2:
            start, n = int(simp(a[0])), int(simp(a[1]))
        elif t and len(a) == 1:
            start, n = int(simp(a[0])), int(simp(M.eval_targ(t)))
        else:
            raise Unab("segment form")
        if t and len(a) == 2:
            tn = simp(M.eval_targ(t))
            if isinstance(tn, Fraction) and tn >= 0 and int(tn) != n:
                raise AbstractViolation("segment<%d>(%d, %d): compile-time and run-time sizes differ" % (int(tn), start, n))
        if start < 0 or n < 0 or start + n > len(self.items):
            raise AbstractViolation("segment [%d, %d) of a vector of size %d" % (start, start + n, len(self.items)))
        return Seg(self, start, n)

    m_segment = seg
    m_middleRows = seg

    def m_head(self, M, a, t):
        n = int(simp(a[0])) if a else int(simp(M.eval_targ(t)))
        return Seg(self, 0, n)

    def m_tail(self, M, a, t):
        n = int(simp(a[0])) if a else int(simp(M.eval_targ(t)))
        return Seg(self, len(self.items) - n, n)

    def m_isApprox(self, M, a, t):
        o = a[0]
        return isinstance(o, Vec) and len(o.items) == len(self.items) and all(mach.num_equal(x, y) for x, y in zip(o.items, self.items))

    def m_begin(self, M, a, t):
        return mach.It(self, 0)

    def m_end(self, M, a, t):
        return mach.It(self, len(self.items))

    def _zipop(self, M, a, b, op):
        x, y = vec_values(a), vec_values(b)
        if x is not None and y is not None:
            if len(x) != len(y):
                raise AbstractViolation("vector %s of sizes %d and %d" % (op, len(x), len(y)))
            return TVec([M.arith(op, p, q) for p, q in zip(x, y)], "(%s)" % op)
        if x is not None and is_num(b):
            return TVec([M.arith(op, p, b) for p in x], "(%s)" % op)
        if y is not None and is_num(a) and op in ("*", "+", "-"):
            return TVec([M.arith(op, a, q) for q in y], "(%s)" % op)
        raise Unab("vector arithmetic %s on %s and %s" % (op, show_val(a), show_val(b)))

    def op_add(self, M, a, b):
        return self._zipop(M, a, b, "+")

    def op_sub(self, M, a, b):
        return self._zipop(M, a, b, "-")

    def op_mul(self, M, a, b):
        return self._zipop(M, a, b, "*")

    def op_div(self, M, a, b):
        return self._zipop(M, a, b, "/")


class Seg:
    """v.segment(start, n): a view that can be read as a vector and assigned to"""

    def __init__(self, v, start, n):
        self.v, self.start, self.n = v, start, n

    def show(self):
        return "%s[%d:%d]" % (self.v.name, self.start, self.start + self.n)

    def values(self):
        return self.v.items[self.start:self.start + self.n]

    def assign_from(self, M, val):
        val = M.rv(val)
        items = val.values() if isinstance(val, Seg) else (val.items if isinstance(val, Vec) else None)
        if items is None or len(items) != self.n:
            raise AbstractViolation("assignment of %s to a segment of size %d" % (show_val(val), self.n))
        self.v.items[self.start:self.start + self.n] = list(items)

    def m_eval(self, M, a, t):
        return TVec(self.values(), self.show())

    def m_size(self, M, a, t):
        return Fraction(self.n)

    def index(self, M, idx):
        i = int(simp(idx[0]))
        if not (0 <= i < self.n):
            raise AbstractViolation("index %d of a segment of size %d" % (i, self.n))
        return ItemRef(self.v.items, self.start + i)


def vec_values(v):
    if isinstance(v, Seg):
        return v.values()
    if isinstance(v, Vec):
        return list(v.items)
    return None


class UPtr:
    def __init__(self, o=None):
        self.o = o

    def show(self):
        return "unique_ptr(%s)" % show_val(self.o)

    def __deepcopy__(self, memo):
        return UPtr(self.o)        # unique_ptr cannot be copied: every "copy" in the model is a move

    def deref(self):
        if self.o is None:
            raise AbstractViolation("dereference of an empty unique_ptr")
        return self.o

    def m_get(self, M, a, t):
        return self.o

    def truth(self):
        return self.o is not None

    def m_reset(self, M, a, t):
        self.o = a[0] if a else None

    def m_swap(self, M, a, t):
        o = a[0]
        if not isinstance(o, UPtr):
            raise Unab("swap with %s" % show_val(o))
        self.o, o.o = o.o, self.o

    def assign_from(self, M, v):
        v = M.rv(v)
        if isinstance(v, UPtr):
            self.o = v.o
        elif v is None:
            self.o = None
        else:
            raise Unab("assignment of %s to a unique_ptr" % show_val(v))


class ManiMachine(Machine):
    def __init__(self, decls, records, elem_dof=None, static_dof=None, **kw):
        super().__init__(decls=decls, type_factory=self.types, **kw)
        self.records = records
        self.scalar_vectors = False
        self.static_dof = static_dof       # traits::man<M>::Dof of the abstract element type (-1: run-time)
        self.global_env = mach.Env()
        self.fresh = 0
        f = self.funcs
        f["dof"] = PyFunc(self.dof_of, lazy=True)
        f["rplus"] = PyFunc(self.m_rplus, lazy=True)
        f["rminus"] = PyFunc(self.m_rminus, lazy=True)
        f["cast"] = PyFunc(lambda M, args, env, name: self.cast(M.eval(args[0], env), name), lazy=True)
        f["Default"] = PyFunc(lambda M, v: Pt("Default", 0))
        f["name:*"] = PyFunc(self.other_name, lazy=True)
        f["make_unique"] = PyFunc(self.make_unique, lazy=True)
        f["make_shared"] = PyFunc(self.make_unique, lazy=True)
        f["composition"] = PyFunc(lambda M, v: self.fg(v[0]).mul(self.fg(v[1])))
        f["inverse"] = PyFunc(lambda M, v: self.fg(v[0]).inv())
        f["exp"] = PyFunc(lambda M, v: splinem.gexp(self.scalar(v[0])))
        f["log"] = PyFunc(lambda M, v: TVec([splinem.glog(self.fg(v[0]))], "log"))
        f["__assert_fail"] = PyFunc(self.assert_fail, lazy=True)
        f["assert"] = f["__assert_fail"]
        f["Zero"] = PyFunc(lambda M, v: TVec([Fraction(0)] * (int(simp(v[0])) if v else 0), "Zero"))
        f["runtime_error"] = PyFunc(lambda M, v: Term("runtime_error"))

    @staticmethod
    def assert_fail(M, args, env, name):
        what = " `%s`" % args[0][1] if args and args[0][0] == "str" else ""
        raise AbstractViolation("the library's own assertion%s fails on the abstract state" % what)

    def scalar(self, v):
        vals = vec_values(v)
        if vals is not None:
            if len(vals) != 1:
                raise Unab("exp of a vector of size %d (the abstract group has dof 1)" % len(vals))
            return vals[0]
        return v

    def fg(self, v):
        if isinstance(v, splinem.FG):
            return v
        raise Unab("a group element is expected, got %s" % show_val(v))

    def eval_targ(self, t):
        env = getattr(self, "call_env", None) or self.global_env
        t = (t or "").strip().replace("typename", "").replace("template", "")
        if re.match(r"^-?\d+$", t):
            return Fraction(int(t))
        if re.match(r"^(traits::)?man<M>::Dof$|^Dof<M>$", t):
            if self.static_dof is None:
                raise Unab("static dof of the abstract manifold is not set")
            return Fraction(self.static_dof)
        return self.eval(("ref", t, None), env)

    def other_name(self, M, n, env, _):
        t = (n or "").replace("typename", "").replace("template", "").replace("::smooth::", "")
        if re.match(r"^(traits::)?man<M>::Dof$|^Dof<M>$", t):
            if self.static_dof is None:
                raise Unab("static dof of the abstract manifold is not set")
            return Fraction(self.static_dof)
        if re.search(r"IsCommutative(<\w+>)?$", t):
            return bool(getattr(self, "commutative", False))
        return NotImplemented

    def dof_of(self, M, args, env, name):
        v = M.eval(args[0], env)
        if isinstance(v, Pt):
            return Fraction(v.dof)
        if isinstance(v, RP):
            return Fraction(len(v.v))
        if isinstance(v, splinem.FG):
            return Fraction(1)
        if isinstance(v, Obj):
            return M.rv(M.mcall(("mcall", args[0], "dof", None, []), env))
        raise Unab("dof of %s" % show_val(v))

    def m_rplus(self, M, args, env, name):
        x, a = M.eval(args[0], env), M.eval(args[1], env)
        vals = vec_values(a)
        if vals is None:
            raise Unab("rplus with a tangent %s" % show_val(a))
        if isinstance(x, Obj):
            return M.rv(M.mcall(("mcall", args[0], "rplus", None, [args[1]]), env))
        if isinstance(x, splinem.FG):
            return x.mul(splinem.gexp(self.scalar(a)))
        d = x.dof if isinstance(x, Pt) else (len(x.v) if isinstance(x, RP) else None)
        if d is None:
            raise Unab("rplus on %s" % show_val(x))
        if len(vals) != d:
            raise AbstractViolation("rplus of a point with %d degrees of freedom and a tangent of size %d" % (d, len(vals)))
        return RP(x, vals)

    def m_rminus(self, M, args, env, name):
        x, y = M.eval(args[0], env), M.eval(args[1], env)
        if isinstance(x, Obj):
            return M.rv(M.mcall(("mcall", args[0], "rminus", None, [args[1]]), env))
        if isinstance(x, splinem.FG) and isinstance(y, splinem.FG):
            return TVec([splinem.glog(y.inv().mul(x))], "rminus")
        if isinstance(x, RP) and same_point(x.base, y):
            return TVec(list(x.v), "rminus")                 # the axiom of the underlying manifold
        d = x.dof if isinstance(x, Pt) else (len(x.v) if isinstance(x, RP) else None)
        if d is None:
            raise Unab("rminus on %s" % show_val(x))
        return TVec([sym("rminus(%s, %s)[%d]" % (show_val(x), show_val(y), i)) for i in range(d)], "rminus")

    def cast(self, v, name):
        if isinstance(v, Pt):
            return Pt("cast(%s)" % v.name, v.dof)
        if isinstance(v, Vec):
            return v
        raise Unab("cast of %s" % show_val(v))

    def make_unique(self, M, args, env, name):
        m = re.search(r"make_(?:unique|shared)<\s*(?:typename\s+)?(\w+)", name or "")
        cls = m.group(1) if m else None
        if cls is None or cls not in self.records:
            raise Unab("make_unique of %s" % name)
        return UPtr(self.construct_record(cls, [self.ev(a, env) for a in args], env))

    def ctor_match(self, ty, v):
        t = ty.replace(" ", "")
        if isinstance(v, UPtr):
            return "unique_ptr" in t or "shared_ptr" in t
        if "unique_ptr" in t or "shared_ptr" in t:
            return False
        if isinstance(v, Obj):
            return (v.tname in t) or None
        if isinstance(v, Vec):
            return ("Vector" in t or "Ref<" in t or "MatrixBase" in t) or None
        return None

    def types(self, M, tyn, args, env):
        m = re.match(r"^(?:const)?(SubManifold|AnyManifold)(?:<.*>)?$", tyn)
        if m is None and tyn in ("PlainObject", "CastT<NewScalar>", "constPlainObject") and getattr(self, "plain_object", None):
            m = re.match(r"^(\w+)$", self.plain_object)
        if m and args is not None:
            return self.construct_record(m.group(1), [self.ev(a, env) for a in args if a != ("default",)], env)
        if re.match(r"^(const)?(Tangent<M>|Eigen::Vector<.*>|Eigen::VectorX<.*>|Eigen::VectorXd|Eigen::VectorXi|Eigen::Matrix<Scalar,Dof,1>)$", tyn):
            if args is None or len(args) == 0:
                return TVec([], "v")
            if len(args) == 1:
                v = self.eval(args[0], env)
                if isinstance(v, (Vec, Seg)):
                    return TVec(vec_values(v), "v")
                if is_num(v):
                    return TVec([Fraction(0)] * int(simp(v)), "v")
        if tyn in ("PlainObject", "constPlainObject") and args is not None and len(args) == 0:
            return Vec([], "vector")
        if tyn.startswith(("std::unique_ptr<", "conststd::unique_ptr<", "std::shared_ptr<", "conststd::shared_ptr<")):
            if args is None or not args:
                return UPtr(None)
            v = self.eval(args[0], env)
            return UPtr(v.o if isinstance(v, UPtr) else v)
        if tyn in ("M", "constM") and args is not None and len(args) == 1:
            return self.copyval(self.ev(args[0], env))
        return NotImplemented

    def default_value(self, ty, nm, env):
        tyn = re.sub(r"\s+", "", ty or "")
        if tyn in ("PlainObject", "constPlainObject"):
            return Vec([], nm or "vector")
        return super().default_value(ty, nm, env)


def collect(dumps):
    decls, records = {}, {}
    seen = {}
    for objs in dumps.values():
        for x in A.index(objs):
            if not x.pattern or not x.file or not x.file.startswith(fe.INCLUDE):
                continue
            if x.kind in A.FUNCS and A.body(x.node) is not None:
                ident = (x.file, x.line, x.kind)
                short = re.sub(r"<.*$", "", x.qname.split("::")[-1]) if x.kind == "CXXConstructorDecl" else x.qname.split("::")[-1]
                if ident in seen:
                    # the same declaration reached through another dump filter: keep the better qualified name
                    old = seen[ident]
                    if len(x.qname) > len(old.qname):
                        lst = decls[short]
                        lst[lst.index(old)] = x
                        seen[ident] = x
                    continue
                seen[ident] = x
                decls.setdefault(short, []).append(x)
            elif x.kind == "CXXRecordDecl" and x.node.get("completeDefinition"):
                records.setdefault(x.qname.split("::")[-1].split("<")[0], x.node)
            elif x.kind in ("ClassTemplateSpecializationDecl", "ClassTemplatePartialSpecializationDecl") and x.node.get("completeDefinition"):
                records.setdefault(x.qname.split("::")[-1], x.node)
    return decls, records


def by_file(decls, name, suffix, cls=None):
    out = [d for d in decls.get(name, []) if d.file.endswith(suffix) and (cls is None or d.qname.split("::")[-2:-1] == [cls])]
    return out


def guarded(rep, rule, fn, inst, node, thunk):
    try:
        return True, thunk()
    except Unab as ex:
        rep.broke("%s: %s (%s) is outside the abstract machine: %s" % (rule, fn, inst, ex))
        raise splinem.RuleBroken()
    except AbstractViolation as ex:
        rep.instance(rule, fn, inst, ok=False, sample={})
        f, l = A.loc(node) if node is not None else (None, None)
        rep.violation(Finding(rule, fn, inst, "%s on %s: %s" % (fn, inst, ex), f, l))
    return False, None


# ---- F.sub --------------------------------------------------------------------------------------------------------

def check_sub(rep, decls, records):
    rep.rule("F.sub", "SubManifold over an abstract manifold, abstractly executed for dof 0..5 and every fixed set: rplus scatters / rminus gathers the free coordinates in order, "
             "dof = n - |fixed|, rminus(rplus(s, a), s) = a, cast keeps origin / value / fixed set", minimum=60)
    rp = by_file(decls, "rplus", "submanifold.hpp", "SubManifold")
    rm = by_file(decls, "rminus", "submanifold.hpp", "SubManifold")
    df = by_file(decls, "dof", "submanifold.hpp", "SubManifold")
    cast = [d for d in decls.get("cast", []) if d.file.endswith("submanifold.hpp")]
    if len(rp) != 1 or len(rm) != 1 or len(df) != 1 or len(cast) != 1:
        rep.broke("F.sub: SubManifold::rplus / rminus / dof / man<SubManifold>::cast not found (%d, %d, %d, %d)" % (len(rp), len(rm), len(df), len(cast)))
        return
    rp, rm, df, cast = rp[0], rm[0], df[0], cast[0]
    nviol = 0
    for n in range(0, 6):
        for k in range(0, n + 1):
            for fixed in itertools.combinations(range(n), k):
                inst = "dof %d fixed %s" % (n, list(fixed))
                free = [i for i in range(n) if i not in fixed]

                def mk(M, value=None):
                    # the constructor sorts the fixed set: hand it over unsorted
                    given = TVec([Fraction(i) for i in reversed(fixed)], "fixed_dims")
                    return M.construct_record("SubManifold", [Cell(Pt("M0", n)), Cell(value if value is not None else Pt("X", n)), Cell(given)])

                def thunk():
                    M = ManiMachine(decls, records)
                    s = mk(M)
                    a = TVec([sym("a%d" % j) for j in range(len(free))], "a")
                    r = M.run_function(rp, [Cell(a)], this=s)
                    dofv = M.run_function(df, [], this=s)
                    # gather: difference to an independent second point, and the axiom on the result of rplus
                    other = mk(M, Pt("Y", n))
                    g = M.run_function(rm, [Cell(other)], this=s)
                    ax = M.run_function(rm, [Cell(s)], this=r) if isinstance(r, Obj) else None
                    return s, r, dofv, g, ax, None
                ok, res = guarded(rep, "F.sub", "SubManifold", inst, rp.node, thunk)
                if not ok:
                    continue
                s, r, dofv, g, ax, c = res
                bad = None
                want_v = [Fraction(0)] * n
                for j, i in enumerate(free):
                    want_v[i] = sym("a%d" % j)
                if not isinstance(r, Obj):
                    bad = "rplus does not return a SubManifold"
                elif not same_point(r.f.get("m_m0"), Pt("M0", n)):
                    bad = "rplus changes the origin to %s" % show_val(r.f.get("m_m0"))
                elif vec_values(r.f.get("m_fixed_dims")) != [Fraction(i) for i in fixed]:
                    bad = "rplus changes the fixed set to %s" % show_val(r.f.get("m_fixed_dims"))
                elif not (isinstance(r.f.get("m_m"), RP) and r.f["m_m"].same(RP(Pt("X", n), want_v))):
                    bad = "rplus(a) moves the value to %s; the free coordinates %s need rplus(X, %s)" % (show_val(r.f.get("m_m")), free, [show_val(x) for x in want_v])
                elif simp(dofv) != n - k:
                    bad = "dof() = %s, expected %d" % (show_val(dofv), n - k)
                else:
                    gv = vec_values(g)
                    wg = [sym("rminus(X, Y)[%d]" % i) for i in free]
                    if gv is None or len(gv) != len(wg) or not all(mach.num_equal(x, y) for x, y in zip(gv, wg)):
                        bad = "rminus returns %s; the free coordinates %s of the embedded difference are %s" % (show_val(g), free, [show_val(x) for x in wg])
                    else:
                        av = vec_values(ax)
                        wa = [sym("a%d" % j) for j in range(len(free))]
                        if av is None or len(av) != len(wa) or not all(mach.num_equal(x, y) for x, y in zip(av, wa)):
                            bad = "rminus(rplus(s, a), s) = %s, not a" % show_val(ax)
                rep.instance("F.sub", "SubManifold", inst, ok=bad is None, sample={})
                if bad:
                    nviol += 1
                    if nviol <= 3:
                        rep.violation(Finding("F.sub", "SubManifold", inst, "SubManifold with %s: %s" % (inst, bad), *A.loc(rp.node)))
    # cast keeps the roles (origin, value, fixed set)
    def thunk_cast():
        M = ManiMachine(decls, records)
        M.plain_object = "SubManifold"
        s = M.construct_record("SubManifold", [Cell(Pt("M0", 3)), Cell(Pt("X", 3)), Cell(TVec([Fraction(1)], "fixed_dims"))])
        return M.run_function(cast, [Cell(s)])
    ok, c = guarded(rep, "F.sub", "man<SubManifold>::cast", "roles", cast.node, thunk_cast)
    if ok:
        good = isinstance(c, Obj) and same_point(c.f.get("m_m0"), Pt("cast(M0)", 3)) and same_point(c.f.get("m_m"), Pt("cast(X)", 3)) and vec_values(c.f.get("m_fixed_dims")) == [Fraction(1)]
        rep.instance("F.sub", "man<SubManifold>::cast", "roles", ok=good, sample={})
        if not good:
            rep.violation(Finding("F.sub", "man<SubManifold>::cast", "roles", "cast of (origin M0, value X, fixed {1}) gives %s; origin and value must keep their roles" % show_val(c), *A.loc(cast.node)))


# ---- F.vec --------------------------------------------------------------------------------------------------------

def check_vec(rep, decls, records):
    rep.rule("F.vec", "std::vector<M>, abstractly executed with static and run-time element dofs: element i is moved by the i-th consecutive tangent segment, rminus concatenates "
             "the element differences, dof sums the element dofs, rminus(rplus(m, a), m) = a", minimum=6)
    fn = {nm: [d for d in decls.get(nm, []) if d.file.endswith("manifolds/vector.hpp")] for nm in ("rplus", "rminus", "dof")}
    if any(len(v) != 1 for v in fn.values()):
        rep.broke("F.vec: man<std::vector<M>>::rplus / rminus / dof not found")
        return
    cases = [("static dof 2", 2, [2, 2, 2]), ("static dof 1", 1, [1]), ("run-time dofs", -1, [2, 3, 1]), ("run-time dofs with an empty element", -1, [2, 0, 3]), ("empty vector (static)", 3, []),
             ("empty vector (run-time)", -1, [])]
    for name, sd, dofs in cases:
        total = sum(dofs)

        def thunk():
            M = ManiMachine(decls, records, static_dof=sd)
            m = Vec([Pt("X%d" % i, d) for i, d in enumerate(dofs)], "m")
            m2 = Vec([Pt("Y%d" % i, d) for i, d in enumerate(dofs)], "m2")
            a = TVec([sym("a%d" % j) for j in range(total)], "a")
            r = M.run_function(fn["rplus"][0], [Cell(m), Cell(a)])
            g = M.run_function(fn["rminus"][0], [Cell(m), Cell(m2)])
            ax = M.run_function(fn["rminus"][0], [Cell(r), Cell(m)]) if isinstance(r, Vec) else None
            dv = M.run_function(fn["dof"][0], [Cell(m)])
            return r, g, ax, dv
        ok, res = guarded(rep, "F.vec", "man<std::vector<M>>", name, fn["rplus"][0].node, thunk)
        if not ok:
            continue
        r, g, ax, dv = res
        bad = None
        off = 0
        want_r = []
        want_g = []
        for i, d in enumerate(dofs):
            want_r.append(RP(Pt("X%d" % i, d), [sym("a%d" % j) for j in range(off, off + d)]))
            want_g += [sym("rminus(X%d, Y%d)[%d]" % (i, i, j)) for j in range(d)]
            off += d
        if not (isinstance(r, Vec) and len(r.items) == len(dofs) and all(isinstance(x, RP) and x.same(w) for x, w in zip(r.items, want_r))):
            bad = "rplus gives %s; element i must be moved by the i-th consecutive segment: %s" % (show_val(r), [w.show() for w in want_r])
        elif simp(dv) != total:
            bad = "dof = %s, the element dofs sum to %d" % (show_val(dv), total)
        else:
            gv = vec_values(g)
            if gv is None or len(gv) != total or not all(mach.num_equal(x, y) for x, y in zip(gv, want_g)):
                bad = "rminus gives %s; expected the concatenation %s" % (show_val(g), [show_val(x) for x in want_g])
            else:
                av = vec_values(ax)
                if av is None or len(av) != total or not all(mach.num_equal(x, sym("a%d" % j)) for j, x in enumerate(av)):
                    bad = "rminus(rplus(m, a), m) = %s, not a" % show_val(ax)
        rep.instance("F.vec", "man<std::vector<M>>", name, ok=bad is None, sample={})
        if bad:
            rep.violation(Finding("F.vec", "man<std::vector<M>>", name, "std::vector<M> with %s %s: %s" % (name, dofs, bad), *A.loc(fn["rplus"][0].node)))


# ---- F.lie --------------------------------------------------------------------------------------------------------

def check_lie(rep, decls, records):
    rep.rule("F.lie", "LieGroup adapter, abstractly executed in the free group: rplus(g, a) = g exp(a), rminus(g1, g2) = log(g2^-1 g1), rminus(rplus(g, a), g) = a", minimum=3)
    fn = {nm: [d for d in decls.get(nm, []) if d.file.endswith("concepts/lie_group.hpp") and d.kind == "CXXMethodDecl" and "man" in d.qname] for nm in ("rplus", "rminus")}
    if any(len(v) != 1 for v in fn.values()):
        rep.broke("F.lie: traits::man<LieGroup>::rplus / rminus not found (%s)" % {k: len(v) for k, v in fn.items()})
        return
    g, h = splinem.atom("G"), splinem.atom("H")
    a = TVec([sym("a")], "a")

    def run(name, vals, comm=False):
        M = ManiMachine(decls, records)
        M.commutative = comm
        for nm in ("composition", "inverse", "exp", "log"):
            M.funcs["method:" + nm] = PyFunc(lambda M_, o, args, t, env, nm=nm: M_.funcs[nm].f(M_, [M_.rv(x) for x in args]), lazy=True)
        return M.run_function(fn[name][0], [Cell(v) for v in vals])
    try:
        ok, r = guarded(rep, "F.lie", "man<LieGroup>::rplus", "g, a", fn["rplus"][0].node, lambda: run("rplus", [g, a]))
        if ok:
            good = isinstance(r, splinem.FG) and r == g.mul(splinem.gexp(sym("a")))
            rep.instance("F.lie", "man<LieGroup>::rplus", "g exp(a)", ok=good, sample={})
            if not good:
                rep.violation(Finding("F.lie", "man<LieGroup>::rplus", "definition", "rplus(g, a) evaluates to %s in the free group; the right-plus is g exp(a)" % show_val(r), *A.loc(fn["rplus"][0].node)))
        ok2, d = guarded(rep, "F.lie", "man<LieGroup>::rminus", "g, h", fn["rminus"][0].node, lambda: run("rminus", [g, h]))
        if ok2:
            dv = vec_values(d) if vec_values(d) is not None else [d]
            good = len(dv) == 1 and mach.num_equal(dv[0], splinem.glog(h.inv().mul(g)))
            rep.instance("F.lie", "man<LieGroup>::rminus", "log(h^-1 g)", ok=good, sample={})
            if not good:
                rep.violation(Finding("F.lie", "man<LieGroup>::rminus", "definition", "rminus(g, h) evaluates to %s; the right-minus is log(h^-1 g)" % show_val(d), *A.loc(fn["rminus"][0].node)))
        for what, thunk_, want_ in (("rplus (commutative group)", lambda: run("rplus", [g, a], True), g.mul(splinem.gexp(sym("a")))),):
            okc, rc = guarded(rep, "F.lie", "man<LieGroup>::rplus", what, fn["rplus"][0].node, thunk_)
            if okc:
                good = isinstance(rc, splinem.FG) and rc == want_
                rep.instance("F.lie", "man<LieGroup>::rplus", what, ok=good, sample={})
                if not good:
                    rep.violation(Finding("F.lie", "man<LieGroup>::rplus", what, "for a commutative group rplus(g, a) evaluates to %s; the right-plus is g exp(a)" % show_val(rc), *A.loc(fn["rplus"][0].node)))
        okc, dc = guarded(rep, "F.lie", "man<LieGroup>::rminus", "commutative group", fn["rminus"][0].node, lambda: run("rminus", [g, h], True))
        if okc:
            dv = vec_values(dc) if vec_values(dc) is not None else [dc]
            good = len(dv) == 1 and mach.num_equal(dv[0], splinem.glog(h.inv().mul(g)))
            rep.instance("F.lie", "man<LieGroup>::rminus", "commutative group", ok=good, sample={})
            if not good:
                rep.violation(Finding("F.lie", "man<LieGroup>::rminus", "commutative group", "for a commutative group rminus(g, h) evaluates to %s; the right-minus is log(h^-1 g) "
                                      "(log(g) - log(h) differs from it by a period whenever the principal logarithm wraps, e.g. on SO2 or C1)" % show_val(dc), *A.loc(fn["rminus"][0].node)))
        if ok and isinstance(r, splinem.FG):
            ok3, ax = guarded(rep, "F.lie", "man<LieGroup>::rminus", "axiom", fn["rminus"][0].node, lambda: run("rminus", [r, g]))
            if ok3:
                av = vec_values(ax) if vec_values(ax) is not None else [ax]
                good = len(av) == 1 and mach.num_equal(av[0], sym("a"))
                rep.instance("F.lie", "man<LieGroup>", "axiom", ok=good, sample={})
                if not good:
                    rep.violation(Finding("F.lie", "man<LieGroup>", "axiom", "rminus(rplus(g, a), g) reduces to %s, not a" % show_val(ax), *A.loc(fn["rminus"][0].node)))
    except splinem.RuleBroken:
        pass


# ---- F.any --------------------------------------------------------------------------------------------------------

def check_any(rep, decls, records):
    rep.rule("F.any", "AnyManifold, abstractly executed: copy construction / copy assignment give an equal and independent value; rplus / rminus / dof delegate to the payload", minimum=6)
    if "AnyManifold" not in records or "wrapper" not in records:
        rep.broke("F.any: AnyManifold / wrapper class definitions not found")
        return
    node = records["AnyManifold"]

    def payload(o):
        u = o.f.get("m_val")
        w = u.o if isinstance(u, UPtr) else None
        return w.f.get("m_val") if isinstance(w, Obj) else None

    def mk(M, pt):
        return M.construct_record("AnyManifold", [Cell(pt)])

    def mutate(o, pt):
        o.f["m_val"].o.f["m_val"] = pt

    try:
        for how in ("copy construction", "copy assignment", "self assignment", "copy assignment then source destroyed"):
            def thunk():
                M = ManiMachine(decls, records)
                a = mk(M, Pt("P", 3))
                if how == "copy construction":
                    b = M.construct_record("AnyManifold", [ItemRef([a], 0)])
                else:
                    b = a if how == "self assignment" else mk(M, Pt("Q", 2))
                    cands = [d for d in decls.get("operator=", []) if d.qname.split("::")[-2:-1] == ["AnyManifold"] and "&&" not in A.params(d.node)[0].get("type", {}).get("qualType", "")]
                    if len(cands) != 1:
                        raise Unab("%d copy-assignment operators" % len(cands))
                    M.run_function(cands[0], [ItemRef([a], 0)], this=b)
                return a, b
            ok, res = guarded(rep, "F.any", "AnyManifold", how, node, thunk)
            if not ok:
                continue
            a, b = res
            bad = None
            if not same_point(payload(b), Pt("P", 3)):
                bad = "the copy holds %s, the source holds P" % show_val(payload(b))
            elif how != "self assignment":
                if b.f["m_val"].o is a.f["m_val"].o:
                    bad = "source and copy share one wrapped value (a change through one is seen through the other)"
                else:
                    mutate(a, Pt("P'", 3))
                    if not same_point(payload(b), Pt("P", 3)):
                        bad = "changing the source changes the copy"
            rep.instance("F.any", "AnyManifold", how, ok=bad is None, sample={})
            if bad:
                rep.violation(Finding("F.any", "AnyManifold", how, "%s: %s" % (how, bad), *A.loc(node)))
        # delegation
        def thunk2():
            M = ManiMachine(decls, records)
            a, b = mk(M, Pt("P", 3)), mk(M, Pt("Q", 3))
            v = TVec([sym("a%d" % j) for j in range(3)], "a")
            meth = {nm: [d for d in decls.get(nm, []) if d.qname.split("::")[-2:-1] == ["AnyManifold"]] for nm in ("rplus", "rminus", "dof")}
            if any(len(x) != 1 for x in meth.values()):
                raise Unab("AnyManifold::rplus / rminus / dof not found")
            r = M.run_function(meth["rplus"][0], [Cell(v)], this=a)
            d = M.run_function(meth["rminus"][0], [ItemRef([b], 0)], this=a)
            n = M.run_function(meth["dof"][0], [], this=a)
            return r, d, n
        ok, res = guarded(rep, "F.any", "AnyManifold", "delegation", node, thunk2)
        if ok:
            r, d, n = res
            bad = None
            want = RP(Pt("P", 3), [sym("a%d" % j) for j in range(3)])
            if not (isinstance(r, Obj) and isinstance(payload(r), RP) and payload(r).same(want)):
                bad = "rplus gives %s; expected a wrapper of %s" % (show_val(payload(r)) if isinstance(r, Obj) else show_val(r), want.show())
            elif vec_values(d) is None or not all(mach.num_equal(x, sym("rminus(P, Q)[%d]" % i)) for i, x in enumerate(vec_values(d))) or len(vec_values(d)) != 3:
                bad = "rminus gives %s; expected rminus(P, Q)" % show_val(d)
            elif simp(n) != 3:
                bad = "dof gives %s; expected 3" % show_val(n)
            for what in ("rplus", "rminus", "dof"):
                rep.instance("F.any", "AnyManifold", "delegation " + what, ok=bad is None, sample={})
            if bad:
                rep.violation(Finding("F.any", "AnyManifold", "delegation", bad, *A.loc(node)))
        # the wrapped value is replaced through the mutable accessor get<M>() (a run-time-sized payload that is resized): dof / rminus follow the current value
        def thunk3():
            M = ManiMachine(decls, records)
            a = mk(M, Pt("P", 3))
            gets = [d for d in decls.get("get", []) if d.qname.split("::")[-2:-1] == ["AnyManifold"] and "const" not in (d.node.get("type", {}).get("qualType", "").split(")")[-1])]
            if len(gets) != 1:
                raise Unab("%d mutable AnyManifold::get" % len(gets))
            got = M.run_function(gets[0], [], this=a)
            if not same_point(M.rv(got), Pt("P", 3)):
                raise AbstractViolation("get<M>() yields %s, the wrapped value is P" % show_val(M.rv(got)))
            # get<M>() hands out M&: whatever the caller assigns through that reference reaches the wrapped object directly (no member function can observe it)
            mutate(a, Pt("R", 5))
            dofs = [d for d in decls.get("dof", []) if d.qname.split("::")[-2:-1] == ["AnyManifold"]]
            n = M.run_function(dofs[0], [], this=a)
            return payload(a), n
        ok, res = guarded(rep, "F.any", "AnyManifold", "dof after get<M>() = ...", node, thunk3)
        if ok:
            pl, n = res
            bad = None
            if not same_point(pl, Pt("R", 5)):
                bad = "assigning through get<M>() leaves the wrapped value at %s" % show_val(pl)
            elif simp(n) != 5:
                bad = "after the wrapped value was replaced through get<M>() by one with 5 degrees of freedom, dof() still gives %s (a value cached at construction): rplus / rminus and dof() disagree" % show_val(n)
            rep.instance("F.any", "AnyManifold", "dof after get<M>() = ...", ok=bad is None, sample={})
            if bad:
                rep.violation(Finding("F.any", "AnyManifold", "dof after get<M>() = ...", bad, *A.loc(node)))
    except splinem.RuleBroken:
        pass


def check(rep, tier):
    dumps = fe.ast_dumps(["SubManifold", "AnyManifold", "man"])
    decls, records = collect(dumps)
    for rule in (check_sub, check_vec, check_lie, check_any):
        try:
            rule(rep, decls, records)
        except splinem.RuleBroken:
            pass
