"""C19 semantic rules on engine M: the sparse writers and the published patterns are *abstractly executed* on abstract groups.

W1  every writer (ad_sparse, dr_exp_sparse, dr_expinv_sparse, d2r_exp_sparse, d2r_expinv_sparse), run on a host matrix whose
    structure is the published pattern placed at the block offset plus sentinel entries around it, (a) causes no structural
    event (insertion, clearing, re-assignment, raw storage access), (b) leaves every entry outside the designated block
    untouched, (c) leaves in every pattern entry of the block exactly the dense value (the symbol dr_exp<G>(a)[r,c] ...), with
    Bundles equal to the block arrangement of their parts' dense values, for offsets i0 = 0 and i0 > 0.
W2  the pattern of a Bundle is the block arrangement of its parts' patterns; generic non-commutative groups publish the full
    pattern, commutative ones the diagonal (first order) and the empty pattern (second order).
W3  generators_sparse[i] has exactly the non-zero cells of ad(e_i) with their values; ad_sparse_pattern is their union with
    zero values.

The groups are abstract: a commutative R2, a generic non-commutative group (so(3) structure constants), SE2 and SE3 with their
hand-written patterns, and Bundle<SE2, R2, SO3>; matrix entries are opaque symbols.  The verdict is about the effect on the
abstract host matrix, so it does not depend on how loops, index formulas or helpers are written."""
import re
from fractions import Fraction

import astlib as A
import fe
import mach
import mmodels
from mach import AbstractViolation, Cell, Machine, PyFunc, Unab, Vec, sym
from mmodels import Dense, InnerIt, Sparse
from report import Finding


class G:
    def __init__(self, name, dof, commutative=False, kind="generic", parts=None, ad=None):
        self.name, self.dof, self.commutative, self.kind = name, dof, commutative, kind
        self.parts = parts or []
        self.starts = []
        s = 0
        for p in self.parts:
            self.starts.append(s)
            s += p.dof
        self.ad = ad

    def show(self):
        return self.name


def so3_ad(i):
    # ad(e_i)[j,k] = eps_{j i k}  ([e_i, e_k] = eps_{ikj} e_j)
    t = {}
    for j in range(3):
        for k in range(3):
            if len({i, j, k}) == 3:
                sgn = 1 if (i, k, j) in ((0, 1, 2), (1, 2, 0), (2, 0, 1)) else -1
                t[(j, k)] = Fraction(sgn)
    return t


def se2_ad(i):
    # a = (vx, vy, w): ad(a) = [[0, -w, vy], [w, 0, -vx], [0, 0, 0]]
    return {0: {(1, 2): Fraction(-1)}, 1: {(0, 2): Fraction(1)}, 2: {(0, 1): Fraction(-1), (1, 0): Fraction(1)}}[i]


R2 = G("R2", 2, commutative=True)
SO3 = G("SO3", 3, ad=so3_ad)
SE2 = G("SE2", 3, kind="SE2", ad=se2_ad)
SE3 = G("SE3", 6, kind="SE3", ad=None)
BUN = G("Bundle<SE2,R2,SO3>", 8, kind="Bundle", parts=[SE2, R2, SO3])


class TanVec:
    def __init__(self, off, n, name="a"):
        self.off, self.n, self.name = off, n, name

    def show(self):
        return "%s[%d:%d]" % (self.name, self.off, self.off + self.n)

    def index(self, M, idx):
        k = int(mach.simp(idx[0]))
        if not (0 <= k < self.n):
            raise AbstractViolation("tangent coordinate %d outside a tangent of dimension %d" % (k, self.n))
        return sym("%s[%d]" % (self.name, self.off + k))

    def m_size(self, M, a, t):
        return Fraction(self.n)

    m_rows = m_size

    def seg(self, M, a, t):
        if t:
            n = int(mach.simp(M.eval_text(t)))
            start = int(mach.simp(a[0]))
        else:
            start, n = int(mach.simp(a[0])), int(mach.simp(a[1]))
        if start < 0 or start + n > self.n:
            raise AbstractViolation("segment [%d, %d) outside a tangent of dimension %d" % (start, start + n, self.n))
        return TanVec(self.off + start, n, self.name)

    m_segment = seg
    m_middleRows = seg

    def m_head(self, M, a, t):
        n = int(mach.simp(M.eval_text(t))) if t else int(mach.simp(a[0]))
        return TanVec(self.off, n, self.name)

    def m_tail(self, M, a, t):
        n = int(mach.simp(M.eval_text(t))) if t else int(mach.simp(a[0]))
        return TanVec(self.off + self.n - n, n, self.name)

    def m_eval(self, M, a, t):
        return self

    def m_isZero(self, M, a, t):
        return M.decide("isZero:%s@%d:%d" % (self.name, self.off, self.n), "%s is the zero tangent" % self.show())

    def m_norm(self, M, a, t):
        return mmodels.usym("norm", sym("%s@%d:%d" % (self.name, self.off, self.n)))

    m_squaredNorm = m_norm
    m_stableNorm = m_norm


class SparseMachine(Machine):
    """engine M specialised to lie_sparse.hpp: names and template arguments are resolved against the abstract group of the
    function being executed (variable `G` of its environment)"""

    def __init__(self, var_decls, fn_decls, **kw):
        super().__init__(decls=fn_decls, type_factory=self.types, **kw)
        self.var_decls = var_decls        # name -> {"generic": VarDecl node, "SE2": ..., "SE3": ..., "Bundle": ...}
        self.cache = {}
        f = self.funcs
        f["name:Dof"] = PyFunc(lambda M, n, env, _: Fraction(self.group(n, env).dof), lazy=True)
        f["name:IsCommutative"] = PyFunc(lambda M, n, env, _: self.group(n, env).commutative, lazy=True)
        for v in ("generators_sparse", "ad_sparse_pattern", "d_exp_sparse_pattern", "d2_exp_sparse_pattern"):
            f["name:" + v] = PyFunc(lambda M, n, env, _, v=v: self.variable(v, n, env, spec=bool(re.search(r"lie_sparse<|^T::", (n or "").replace("typename", "")))), lazy=True)
        f["name:*"] = PyFunc(self.dependent_name, lazy=True)
        f["requires"] = PyFunc(self.requires, lazy=True)
        f["static_for"] = PyFunc(self.static_for, lazy=True)
        f["enter:*"] = PyFunc(self.enter, lazy=True)
        for nm in ("dr_exp", "dr_expinv", "d2r_exp", "d2r_expinv"):
            f[nm] = PyFunc(lambda M, args, env, name, nm=nm: self.dense(nm, args, env, name), lazy=True)
        f["ad"] = PyFunc(self.ad, lazy=True)
        f["Unit"] = PyFunc(lambda M, args, env, name: ("unit", int(mach.simp(M.eval(args[0], env)))), lazy=True)
        f["Ones"] = PyFunc(self.ones, lazy=True)
        f["__assert_fail"] = PyFunc(self.assert_fail, lazy=True)
        f["assert"] = PyFunc(self.assert_fail, lazy=True)
        f["__builtin_expect"] = PyFunc(lambda M, args, env, name: M.eval(args[0], env), lazy=True)
        for nm in ("dr_exp_sparse", "dr_expinv_sparse", "d2r_exp_sparse", "d2r_expinv_sparse"):
            f["select:" + nm] = PyFunc(self.select, lazy=True)
        self.global_env = mach.Env()

    @staticmethod
    def assert_fail(M, args, env, name):
        what = ""
        if args and args[0][0] == "str":
            what = " `%s`" % args[0][1]
        r = env.find("sp")
        sp = M.rv(r) if r is not None else None
        if isinstance(sp, Sparse) and sp.log:
            ev = sp.log[0]
            raise AbstractViolation("the library's own assertion%s fails after %s on the host matrix" % (
                what, "the insertion of a new entry %s (an entry outside the caller's allocated pattern was addressed)" % (ev[1],) if ev[0] == "insert" else "the structural event %s" % (ev,)))
        raise AbstractViolation("the library's own assertion%s fails on the abstract state" % what)

    # -- groups ---------------------------------------------------------------------------------------------
    def cur(self, env):
        r = env.find("G")
        if r is None:
            raise Unab("no current group in this scope")
        return self.rv(r)

    def group(self, text, env):
        """group denoted by the template arguments of `text` (X<G>, X<typename G::template PartType<I>>, plain X)"""
        g = self.cur(env)
        m = re.search(r"<(.*)>", text or "")
        if not m:
            return g
        return self.group_arg(m.group(1), env)

    def group_arg(self, arg, env):
        g = self.cur(env)
        arg = arg.replace("typename", "").replace("template", "")
        first = _split_top(arg)[0]
        m = re.match(r"^G::PartType<(\w+)>$", first)
        if m:
            i = int(mach.simp(self.eval(("ref", m.group(1), None), env)))
            return g.parts[i]
        if first == "G":
            return g
        raise Unab("group template argument %s" % first)

    def dependent_name(self, M, n, env, _):
        t = (n or "").replace("typename", "").replace("template", "")
        g = self.cur(env) if env.find("G") is not None else None
        if g is None:
            return NotImplemented
        if t == "G::BundleSize":
            return Fraction(len(g.parts))
        m = re.match(r"^G::(PartStart|PartDof)<(\w+)>$", t)
        if m:
            i = int(mach.simp(self.eval(("ref", m.group(2), None), env)))
            return Fraction(g.starts[i] if m.group(1) == "PartStart" else g.parts[i].dof)
        m = re.match(r"^(?:traits::lie_sparse<G>|T|::smooth::traits::lie_sparse<G>)::(d_exp_sparse_pattern|d2_exp_sparse_pattern)$", t)
        if m:
            return self.variable(m.group(1), "spec", env, spec=True)
        return NotImplemented

    def requires(self, M, text, env, _=None):
        g = self.cur(env)
        if re.search(r"lie_sparse<G>::d2?_exp_sparse_pattern|T::d2?_exp_sparse_pattern", text):
            return g.kind in ("SE2", "SE3", "Bundle")
        if re.search(r"T::d2?r_exp(inv)?_sparse\(|lie_sparse<G>::d2?r_exp(inv)?_sparse\(", text):
            return g.kind == "Bundle"
        raise Unab("requires-expression %s" % text[:60])

    def static_for(self, M, args, env, name):
        m = re.search(r"static_for<(.*)>$", name or "")
        n = int(mach.simp(self.eval_text(m.group(1), env))) if m else None
        if n is None:
            raise Unab("static_for without a count")
        f = self.eval(args[0], env)
        for i in range(n):
            c = Cell(Fraction(i))
            c.is_int = True
            self.apply(f, [c], None, env)

    def eval_text(self, text, env=None):
        """value of a small template-argument expression given as source text"""
        env = env or getattr(self, "call_env", None) or self._env
        t = text.replace("typename", "").replace("template", "")
        toks = re.findall(r"[A-Za-z_:][\w:]*(?:<[^<>]*(?:<[^<>]*>)?[^<>]*>)?|\d+|[()+\-*/%]", t)
        out = []
        for k in toks:
            if re.match(r"^\d+$", k) or k in "()+-*/%":
                out.append(k)
            else:
                v = mach.simp(self.rv(self.name(re.sub(r"<.*$", "", k).split("::")[-1] if "<" not in k and "::" not in k else k, env, k)))
                if not isinstance(v, (Fraction, bool)):
                    raise Unab("template argument %s is not a constant" % k)
                out.append(str(int(v)))
        try:
            return Fraction(eval("".join(out).replace("/", "//"), {"__builtins__": {}}))
        except Exception:
            raise Unab("template argument expression %s" % text)

    def enter(self, M, info, _a, _b):
        d, full, new, caller = info
        g = None
        inv = None
        m = re.search(r"<(.*)>$", full or "")
        if m and caller is not None:
            parts = _split_top(m.group(1))
            g = self.group_arg(parts[0], caller)
            if len(parts) > 1:
                inv = parts[1] in ("true", "1") if parts[1] in ("true", "false", "0", "1") else self.truth(self.eval(("ref", parts[1], None), caller))
        if g is None and caller is not None and caller.find("G") is not None:
            g = self.cur(caller)
        if g is not None:
            new.bind("G", Cell(g))
        if inv is None:
            inv = False
        new.bind("Inv", Cell(inv))
        self._env = new

    def select(self, M, cands, full, args, env):
        member = (full or "").replace(" ", "").startswith(("T::", "traits::lie_sparse", "::smooth::traits::lie_sparse"))
        pick = [d for d in cands if (d.kind == "CXXMethodDecl") == member]
        if len(pick) != 1:
            raise Unab("call of %s resolves to %d bodies" % (full, len(pick)))
        return pick[0]

    # -- values ---------------------------------------------------------------------------------------------
    def types(self, M, tyn, args, env):
        if "InnerIterator" in tyn:
            vals = [self.eval(a, env) for a in args]
            return InnerIt(vals[0], vals[1])
        if tyn.startswith(("Eigen::SparseMatrix<", "constEigen::SparseMatrix<")) or tyn.startswith("SparseMatrix<"):
            if args is None or len(args) == 0:
                return Sparse(0, 0, name="ret", compressed=False)
            vals = [self.eval(a, env) for a in args]
            if len(vals) == 2:
                return Sparse(int(mach.simp(vals[0])), int(mach.simp(vals[1])), name="ret", compressed=False)
            if len(vals) == 1 and isinstance(vals[0], Sparse):
                return self.copyval(vals[0])
        if tyn.startswith(("std::array<Eigen::SparseMatrix", "conststd::array<Eigen::SparseMatrix")):
            n = int(mach.simp(self.eval_text(_split_top(tyn[tyn.index("<") + 1:-1])[-1], env)))
            return Vec([Sparse(0, 0, name="ret[%d]" % i, compressed=False) for i in range(n)], "array")
        if tyn.startswith("Scalar<") and args is not None and len(args) == 1:
            return self.eval(args[0], env)
        return NotImplemented

    def dense(self, nm, args, env, name):
        g = self.group(name, env)
        a = self.eval(args[0], env)
        off = a.off if isinstance(a, TanVec) else 0
        hess = nm.startswith("d2")
        return Dense("%s<%s>(a@%d)" % (nm, g.name, off), g.dof, g.dof * g.dof if hess else g.dof)

    def ad(self, M, args, env, name):
        g = self.group(name, env)
        u = self.eval(args[0], env)
        if g.ad is None:
            raise Unab("no structure constants for %s" % g.name)
        if isinstance(u, TanVec):
            tab = {}
            for k in range(g.dof):
                for cell, v in g.ad(k).items():
                    tab[cell] = mach.simp(mach.to_rf(tab.get(cell, Fraction(0))) + mach.to_rf(v) * u.index(M, [Fraction(k)]))
            return Dense("ad<%s>(a)" % g.name, g.dof, g.dof, table=tab, default=Fraction(0))
        if not (isinstance(u, tuple) and u and u[0] == "unit"):
            raise Unab("ad of %s" % mach.show_val(u))
        return Dense("ad<%s>(e%d)" % (g.name, u[1]), g.dof, g.dof, table=g.ad(u[1]), default=Fraction(0))

    def ones(self, M, args, env, name):
        m = re.match(r"^(?:Eigen::)?Matrix<(.*)>::Ones$", name or "")
        if not m:
            raise Unab("Ones of %s" % name)
        parts = _split_top(m.group(1))
        r, c = (int(mach.simp(self.eval_text(p, env))) for p in parts[1:3])
        return Dense("Ones", r, c, default=Fraction(1))

    def variable(self, v, text, env, spec=False):
        """value of a (member) variable template: its initialiser is executed once per abstract group"""
        g = self.cur(env) if spec else self.group(text, env)
        kind = g.kind if spec else "generic"
        key = (v, g.name, kind)
        if key in self.cache:
            return self.cache[key]
        node = self.var_decls.get(v, {}).get(kind)
        if node is None:
            raise Unab("no initialiser found for %s (%s)" % (v, kind))
        init = [k for k in A.kids(node) if not (k.get("kind") or "").endswith(("Attr", "Comment"))]
        new = mach.Env(self.global_env)
        new.bind("G", Cell(g))
        saved = getattr(self, "_env", None)
        self._env = new
        try:
            val = self.rv(self.ev(mach.TE(init[-1]), new))
        finally:
            self._env = saved
        if isinstance(val, Sparse):
            val.name = "%s<%s>" % (v, g.name)
            val.log = []
        self.cache[key] = Cell(val)
        return self.cache[key]


def _split_top(s):
    out, depth, cur = [], 0, ""
    for ch in s:
        if ch in "<(":
            depth += 1
        elif ch in ">)":
            depth -= 1
        if ch == "," and depth == 0:
            out.append(cur)
            cur = ""
        else:
            cur += ch
    if cur:
        out.append(cur)
    return [x.strip() for x in out]


# ---------------------------------------------------------------------------------------------------------------

def collect(d):
    """variable initialisers and function bodies of lie_sparse.hpp / lie_group_sparse_impl.hpp from the filtered AST dumps"""
    var_decls, fn_decls = {}, {}
    seen = set()
    for key, objs in d.items():
        for x in A.index(objs):
            if not x.pattern or not x.file or not x.file.startswith(fe.INCLUDE):
                continue
            ident = (x.qname, x.file, x.line, x.kind)
            if ident in seen:
                continue
            seen.add(ident)
            short = x.qname.split("::")[-1]
            if x.kind in A.FUNCS and A.body(x.node) is not None:
                fn_decls.setdefault(short, []).append(x)
            elif x.kind == "VarTemplateDecl":
                vd = next((k for k in A.kids(x.node) if k.get("kind") == "VarDecl"), None)
                if vd is not None and A.kids(vd):
                    var_decls.setdefault(short, {})["generic"] = vd
            elif x.kind == "VarDecl" and x.qname.startswith("lie_sparse<") or (x.kind == "VarDecl" and "lie_sparse" in x.qname):
                if A.kids(x.node):
                    kind = spec_kind(x)
                    if kind:
                        var_decls.setdefault(short, {})[kind] = x.node
    return var_decls, fn_decls


def spec_kind(x):
    """which partial specialisation of traits::lie_sparse a member belongs to, from the requires-clause of its class"""
    p = x.parent
    if p is None:
        return None
    t = A.ntext(p.node)[:400]
    for k, base in (("SE2", "SE2Base"), ("SE3", "SE3Base"), ("Bundle", "BundleBase")):
        if base in t.split("{")[0]:
            return k
    return None


def host(g, i0, pattern, hess):
    """host matrix: the pattern at the block offset, plus sentinels around the block (same rows, same columns, corners)"""
    rows = i0 + g.dof + 2
    cols = rows * (rows + 1) if hess else rows      # a Hessian host wider than rows^2 (the writers only require cols >= rows (i0 + Dof)): the block stride is the row count, not cols / rows
    e = {}
    block = {}
    for (r, c) in pattern:
        if hess:
            cc = rows * (i0 + c // g.dof) + i0 + c % g.dof
        else:
            cc = i0 + c
        block[(i0 + r, cc)] = (r, c)
        e[(i0 + r, cc)] = sym("old[%d,%d]" % (i0 + r, cc))
    sent = set()
    cands = [(0, cols - 1), (rows - 1, 0), (rows - 1, cols - 1), (i0, cols - 1), (rows - 1, i0)]
    if i0 > 0:
        cands += [(0, 0), (i0 - 1, i0), (i0, i0 - 1), (i0 - 1, i0 - 1)]
    cands += [(i0 + g.dof, i0 + g.dof), (i0, i0 + g.dof), (i0 + g.dof, i0)]
    if hess:
        cands += [(i0, rows * (i0 + g.dof) + i0), (i0 + 1 if g.dof > 1 else i0, rows * i0 + i0 + g.dof), (i0, rows * i0 + (i0 - 1 if i0 else rows - 1))]
        if i0 > 0:
            cands += [(i0, rows * (i0 - 1) + i0), (i0, i0), (i0, rows * i0)]
    for k in cands:
        if 0 <= k[0] < rows and 0 <= k[1] < cols and k not in block:
            sent.add(k)
            e[k] = sym("sentinel[%d,%d]" % k)
    sp = Sparse(rows, cols, e, name="sp", compressed=True)
    return sp, block, sent


def expected_dense(g, nm, off, hess):
    """{(r, c): value} of the dense result on the pattern of g (Bundle: block arrangement of the parts)"""
    out = {}
    if g.kind == "Bundle":
        for p, s in zip(g.parts, g.starts):
            sub = expected_dense(p, nm, off + s, hess)
            for (r, c), v in sub.items():
                if hess:
                    out[(s + r, g.dof * (s + c // p.dof) + s + c % p.dof)] = v
                else:
                    out[(s + r, s + c)] = v
        return out
    if g.commutative:
        if not hess:
            for i in range(g.dof):
                out[(i, i)] = Fraction(1)
        return out
    name = "%s<%s>(a@%d)" % (nm, g.name, off)
    D = Dense(name, g.dof, g.dof * g.dof if hess else g.dof)
    for r in range(D.rows):
        for c in range(D.cols):
            out[(r, c)] = D.entry(r, c)
    return out


def check(rep, tier, d):
    rep.rule("W1", "sparse writers, abstractly executed: no structural event on the host, nothing outside the block touched, every pattern entry of the block "
             "receives the dense value (Bundles: block arrangement of the parts), offsets i0 = 0 and i0 > 0", minimum=30)
    rep.rule("W2", "published patterns, abstractly executed: Bundle = block arrangement of the parts' patterns; generic non-commutative = full; commutative = "
             "diagonal / empty", minimum=8)
    rep.rule("W3", "generators_sparse[i] = non-zero cells of ad(e_i); ad_sparse_pattern = their union with zero values", minimum=4)
    var_decls, fn_decls = collect(d)
    need_v = {"generators_sparse": ["generic"], "ad_sparse_pattern": ["generic"], "d_exp_sparse_pattern": ["generic", "SE2", "SE3", "Bundle"],
              "d2_exp_sparse_pattern": ["generic", "SE2", "SE3", "Bundle"]}
    for v, kinds in need_v.items():
        for k in kinds:
            if var_decls.get(v, {}).get(k) is None:
                rep.broke("W: initialiser of %s (%s) not found" % (v, k))
                return {}
    for f in ("ad_sparse", "dr_exp_sparse", "dr_expinv_sparse", "d2r_exp_sparse", "d2r_expinv_sparse"):
        if f not in fn_decls:
            rep.broke("W: body of %s not found" % f)
            return {}

    def machine():
        return SparseMachine(var_decls, fn_decls)

    def pattern_of(M, v, g):
        env = mach.Env(M.global_env)
        env.bind("G", Cell(g))
        M._env = env
        return M.rv(M.variable(v, v + "<G>", env))

    patterns = {}
    groups = [R2, SO3, SE2, SE3, BUN]
    # ---- W2 ---------------------------------------------------------------------------------------------
    for g in groups:
        for v, hess in (("d_exp_sparse_pattern", False), ("d2_exp_sparse_pattern", True)):
            inst = "%s<%s>" % (v, g.name)
            try:
                M = machine()
                p = pattern_of(M, v, g)
            except Unab as ex:
                rep.broke("W2: %s is outside the abstract machine: %s" % (inst, ex))
                continue
            except AbstractViolation as ex:
                rep.instance("W2", v, g.name, ok=False, sample={})
                rep.violation(Finding("W2", v, g.name, "building %s: %s" % (inst, ex), *loc_of(var_decls[v].get(g.kind) or var_decls[v]["generic"])))
                continue
            if not isinstance(p, Sparse):
                rep.broke("W2: %s does not evaluate to a sparse matrix" % inst)
                continue
            patterns[(v, g.name)] = p
            want_shape = (g.dof, g.dof * g.dof if hess else g.dof)
            cells = set(p.e)
            want = None
            if g.kind == "Bundle":
                want = set()
                for part, s in zip(g.parts, g.starts):
                    pp = patterns.get((v, part.name))
                    if pp is None:
                        want = None
                        break
                    for (r, c) in pp.e:
                        want.add((s + r, g.dof * (s + c // part.dof) + s + c % part.dof) if hess else (s + r, s + c))
            elif g.commutative:
                want = set() if hess else {(i, i) for i in range(g.dof)}
            elif g.kind == "generic":
                want = {(r, c) for r in range(want_shape[0]) for c in range(want_shape[1])}
            ok = (p.rows, p.cols) == want_shape and (want is None or cells == want) and p.compressed
            rep.instance("W2", v, g.name, ok=ok, sample={"entries": len(cells), "shape": [p.rows, p.cols]})
            if not ok:
                why = []
                if (p.rows, p.cols) != want_shape:
                    why.append("shape %dx%d, expected %dx%d" % (p.rows, p.cols, want_shape[0], want_shape[1]))
                if want is not None and cells != want:
                    why.append("missing cells %s, extra cells %s" % (sorted(want - cells)[:4], sorted(cells - want)[:4]))
                if not p.compressed:
                    why.append("not compressed")
                rep.violation(Finding("W2", v, g.name, "%s: %s" % (inst, "; ".join(why)), *loc_of(var_decls[v].get(g.kind if g.kind != "generic" else "generic") or var_decls[v]["generic"])))
    # ---- W3 ---------------------------------------------------------------------------------------------
    for g in (SO3, SE2, R2):
        if g.commutative:
            continue
        try:
            M = machine()
            gens = pattern_of(M, "generators_sparse", g)
            M2 = machine()
            adp = pattern_of(M2, "ad_sparse_pattern", g)
        except Unab as ex:
            rep.broke("W3: generators_sparse / ad_sparse_pattern of %s outside the abstract machine: %s" % (g.name, ex))
            continue
        except AbstractViolation as ex:
            rep.instance("W3", "generators_sparse", g.name, ok=False, sample={})
            rep.violation(Finding("W3", "generators_sparse", g.name, "building the generators of %s: %s" % (g.name, ex), *loc_of(var_decls["generators_sparse"]["generic"])))
            continue
        bad = None
        if not isinstance(gens, Vec) or len(gens.items) != g.dof:
            bad = "generators_sparse has %s elements, expected %d" % (len(gens.items) if isinstance(gens, Vec) else "?", g.dof)
        else:
            for i, s in enumerate(gens.items):
                want = g.ad(i)
                if not isinstance(s, Sparse) or {k: v for k, v in s.e.items()} != want or (s.rows, s.cols) != (g.dof, g.dof):
                    bad = "generators_sparse[%d] has cells %s; ad(e_%d) has %s" % (i, sorted(s.e.items())[:6] if isinstance(s, Sparse) else s, i, sorted(want.items()))
                    break
        rep.instance("W3", "generators_sparse", g.name, ok=bad is None, sample={})
        if bad:
            rep.violation(Finding("W3", "generators_sparse", g.name, bad, *loc_of(var_decls["generators_sparse"]["generic"])))
        union = set()
        for i in range(g.dof):
            union |= set(g.ad(i))
        ok = isinstance(adp, Sparse) and set(adp.e) == union and all(mach.simp(v) == 0 for v in adp.e.values()) and adp.compressed
        rep.instance("W3", "ad_sparse_pattern", g.name, ok=ok, sample={"cells": len(union)})
        if not ok:
            rep.violation(Finding("W3", "ad_sparse_pattern", g.name, "ad_sparse_pattern<%s> has cells %s with values %s; expected the union %s of the generators' cells with zero values, compressed"
                                  % (g.name, sorted(adp.e)[:9] if isinstance(adp, Sparse) else adp, sorted({mach.show_val(v) for v in adp.e.values()})[:3] if isinstance(adp, Sparse) else "?", sorted(union)),
                                  *loc_of(var_decls["ad_sparse_pattern"]["generic"])))
        patterns[("ad_sparse_pattern", g.name)] = adp
    # ---- W1 ---------------------------------------------------------------------------------------------
    writers = [("dr_exp_sparse", "dr_exp", "d_exp_sparse_pattern", False), ("dr_expinv_sparse", "dr_expinv", "d_exp_sparse_pattern", False),
               ("d2r_exp_sparse", "d2r_exp", "d2_exp_sparse_pattern", True), ("d2r_expinv_sparse", "d2r_expinv", "d2_exp_sparse_pattern", True)]
    for g in groups:
        for fname, dense_name, pv, hess in writers:
            pat = patterns.get((pv, g.name))
            if pat is None:
                continue
            for i0 in (0, 2):
                if tier == "quick" and g is SE3 and hess and i0 == 2:
                    continue
                inst = "%s i0=%d" % (g.name, i0)
                cands = [x for x in fn_decls[fname] if x.kind == "FunctionDecl"]
                if len(cands) != 1:
                    rep.broke("W1: %d free functions named %s" % (len(cands), fname))
                    break

                def scenario(dec, g=g, i0=i0, pat=pat, hess=hess, fname=fname, cands=cands):
                    sp, block, sent = host(g, i0, set(pat.e), hess)
                    before = dict(sp.e)
                    M = SparseMachine(var_decls, fn_decls, decisions=dec)
                    env = mach.Env(M.global_env)
                    env.bind("G", Cell(g))
                    M._env = env
                    i0c = Cell(Fraction(i0))
                    i0c.is_int = True
                    M.run_function(cands[0], [Cell(sp), Cell(TanVec(0, g.dof)), i0c], full=fname + "<G>", caller_env=env)
                    return sp, before, block, sent
                try:
                    results = mach.run_paths(scenario)
                except Unab as ex:
                    rep.broke("W1: %s<%s> is outside the abstract machine: %s" % (fname, g.name, ex))
                    break
                except AbstractViolation as ex:
                    rep.instance("W1", fname, inst, ok=False, sample={})
                    rep.violation(Finding("W1", fname, inst, "%s<%s>(sp, a, %d): %s" % (fname, g.name, i0, ex), *loc_of(cands[0].node)))
                    continue
                bad = None
                for shown, (sp, before, block, sent) in results:
                    want = expected_dense(g, dense_name, 0, hess)
                    zero_path = [k for k, v in shown.items() if "is the zero tangent" in k and v]
                    if zero_path:
                        # on a path on which the code decided that (part of) the tangent is zero the dense result is known exactly for the
                        # first-order functions (dr_exp(0) = dr_expinv(0) = I); second-order values are not compared on such a path
                        if hess:
                            want = {}
                        elif any(k.startswith("a[0:%d]" % g.dof) for k in zero_path):
                            want = {k: (Fraction(1) if k[0] == k[1] else Fraction(0)) for k in want}
                        else:
                            want = {}
                    bad = verdict(sp, before, block, sent, want, g)
                    if bad:
                        if shown:
                            bad += " (path: %s)" % ", ".join("%s=%s" % kv for kv in sorted(shown.items()))
                        break
                sp = results[0][1][0]
                rep.instance("W1", fname, inst, ok=bad is None, sample={"host": [sp.rows, sp.cols], "block_entries": len(results[0][1][2]), "sentinels": len(results[0][1][3]), "paths": len(results)})
                if bad:
                    rep.violation(Finding("W1", fname, inst, "%s<%s>(sp, a, i0 = %d) on a %dx%d host: %s" % (fname, g.name, i0, sp.rows, sp.cols, bad), *loc_of(cands[0].node)))
    # ad_sparse (no offset)
    for g in (SO3, SE2):
        pat = patterns.get(("ad_sparse_pattern", g.name))
        if pat is None:
            continue
        sp = Sparse(g.dof, g.dof, {k: sym("old[%d,%d]" % k) for k in pat.e}, name="sp", compressed=True)
        try:
            M = machine()
            env = mach.Env(M.global_env)
            env.bind("G", Cell(g))
            M._env = env
            cands = [x for x in fn_decls["ad_sparse"] if x.kind == "FunctionDecl"]
            M.run_function(cands[0], [Cell(sp), Cell(TanVec(0, g.dof))], full="ad_sparse<G>", caller_env=env)
        except Unab as ex:
            rep.broke("W1: ad_sparse<%s> is outside the abstract machine: %s" % (g.name, ex))
            continue
        except AbstractViolation as ex:
            rep.instance("W1", "ad_sparse", g.name, ok=False, sample={})
            rep.violation(Finding("W1", "ad_sparse", g.name, "ad_sparse<%s>: %s" % (g.name, ex), *loc_of(cands[0].node)))
            continue
        want = {}
        for k in range(g.dof):
            for cell, v in g.ad(k).items():
                want[cell] = mach.simp(mach.to_rf(want.get(cell, Fraction(0))) + mach.to_rf(v) * sym("a[%d]" % k))
        bad = None
        if sp.log:
            bad = "structural event %s on the host matrix" % (sp.log[0],)
        elif set(sp.e) != set(want):
            bad = "cells %s differ from the pattern" % sorted(set(sp.e) ^ set(want))[:4]
        else:
            for cell in sorted(want):
                if not mach.num_equal(sp.e[cell], want[cell]):
                    bad = "cell %s holds %s; ad(a) has %s there" % (cell, mach.show_val(sp.e[cell]), mach.show_val(want[cell]))
                    break
        rep.instance("W1", "ad_sparse", g.name, ok=bad is None, sample={})
        if bad:
            rep.violation(Finding("W1", "ad_sparse", g.name, "ad_sparse<%s>: %s" % (g.name, bad), *loc_of(cands[0].node)))
    return patterns


def verdict(sp, before, block, sent, want, g):
    if sp.log:
        ev = sp.log[0]
        if ev[0] == "insert":
            return "a new entry %s is inserted into the host matrix (structure change: the caller's allocated pattern is %s)" % (
                ev[1], "not respected" if ev[1] not in block else "incomplete")
        return "structural event %s on the host matrix" % (ev,)
    if not sp.compressed:
        return "the host matrix is left uncompressed"
    for k in sorted(sent):
        if k not in sp.e or not mach.num_equal(sp.e[k], before[k]):
            return "entry %s outside the designated block is overwritten (%s -> %s)" % (k, mach.show_val(before[k]), mach.show_val(sp.e.get(k, "removed")))
    for k, (r, c) in sorted(block.items()):
        w = want.get((r, c))
        if w is None:
            continue
        if not mach.num_equal(sp.e[k], w):
            return "block entry (%d, %d) [host %s] holds %s; the dense result has %s there" % (r, c, k, mach.show_val(sp.e[k]), mach.show_val(w))
    return None


def loc_of(node):
    f, l = A.loc(node)
    return f, l
