"""Object models for engine M (lib/mach.py): Eigen sparse matrices and their inner iterators, dense matrices of opaque symbols,
dense vectors.  A model records *events* that rules look at (structural insertions, raw storage access)."""
import copy
from fractions import Fraction

import mach
from mach import AbstractViolation, Cell, ItemRef, Unab, Vec, is_num, show_val, simp, sym


class Sparse:
    def __init__(self, rows, cols, entries=None, rowmajor=False, name="sparse", compressed=True):
        self.rows, self.cols = int(rows), int(cols)
        self.e = dict(entries or {})
        self.rowmajor = rowmajor
        self.name = name
        self.compressed = compressed
        self.log = []           # structural events: ("insert", (r, c)) / ("clear",) / ("assign",) / ("raw", member)

    def show(self):
        return "%s(%dx%d, %d entries)" % (self.name, self.rows, self.cols, len(self.e))

    def __deepcopy__(self, memo):
        s = Sparse(self.rows, self.cols, dict(self.e), self.rowmajor, self.name, self.compressed)
        return s

    def key(self, a):
        r, c = simp(a[0]), simp(a[1])
        if not (isinstance(r, Fraction) and isinstance(c, Fraction) and r.denominator == 1 and c.denominator == 1):
            raise Unab("sparse index (%s, %s) is not concrete" % (show_val(r), show_val(c)))
        r, c = int(r), int(c)
        if not (0 <= r < self.rows and 0 <= c < self.cols):
            raise AbstractViolation("entry (%d, %d) is outside the %d x %d matrix %s" % (r, c, self.rows, self.cols, self.name))
        return r, c

    def m_rows(self, M, a, t):
        return Fraction(self.rows)

    def m_cols(self, M, a, t):
        return Fraction(self.cols)

    def m_outerSize(self, M, a, t):
        return Fraction(self.rows if self.rowmajor else self.cols)

    def m_innerSize(self, M, a, t):
        return Fraction(self.cols if self.rowmajor else self.rows)

    def m_nonZeros(self, M, a, t):
        return Fraction(len(self.e))

    def m_isCompressed(self, M, a, t):
        return self.compressed

    def m_coeffRef(self, M, a, t):
        k = self.key(a)
        if k not in self.e:
            self.log.append(("insert", k))
            self.e[k] = Fraction(0)
            self.compressed = False
        return ItemRef(self.e, k, "%s(%d,%d)" % (self.name, k[0], k[1]))

    def m_insert(self, M, a, t):
        k = self.key(a)
        if k in self.e:
            raise AbstractViolation("insert(%d, %d) of an entry that already exists in %s (Eigen asserts / corrupts the matrix)" % (k[0], k[1], self.name))
        self.log.append(("insert", k))
        self.e[k] = Fraction(0)
        return ItemRef(self.e, k, "%s(%d,%d)" % (self.name, k[0], k[1]))

    def m_coeff(self, M, a, t):
        return self.e.get(self.key(a), Fraction(0))

    def m_makeCompressed(self, M, a, t):
        self.compressed = True

    def m_setZero(self, M, a, t):
        self.log.append(("clear",))
        self.e.clear()

    def m_reserve(self, M, a, t):
        return None

    def m_resize(self, M, a, t):
        self.log.append(("clear",))
        self.rows, self.cols = int(simp(a[0])), int(simp(a[1]))
        self.e.clear()

    def m_coeffs(self, M, a, t):
        return CoeffsView(self)

    def m_eval(self, M, a, t):
        return self

    def m_pruned(self, M, a, t):
        raise Unab("pruned()")

    def m_prune(self, M, a, t):
        raise Unab("prune()")

    def raw(self, what):
        self.log.append(("raw", what))
        raise Unab("raw storage access %s() on %s" % (what, self.name))

    def order(self):
        """storage order of a compressed matrix"""
        if not self.compressed:
            raise Unab("raw storage access on an uncompressed matrix")
        if self.rowmajor:
            return sorted(self.e, key=lambda k: (k[0], k[1]))
        return sorted(self.e, key=lambda k: (k[1], k[0]))

    def m_valuePtr(self, M, a, t):
        self.log_raw = getattr(self, "log_raw", []) + ["valuePtr"]
        return RawValues(self)

    def m_innerIndexPtr(self, M, a, t):
        return Vec([Fraction(k[1] if self.rowmajor else k[0]) for k in self.order()], self.name + ".innerIndexPtr()")

    def m_outerIndexPtr(self, M, a, t):
        n = self.rows if self.rowmajor else self.cols
        o = self.order()
        starts = []
        for j in range(n + 1):
            starts.append(Fraction(sum(1 for k in o if (k[0] if self.rowmajor else k[1]) < j)))
        return Vec(starts, self.name + ".outerIndexPtr()")

    def m_innerNonZeroPtr(self, M, a, t):
        return None

    def m_toDense(self, M, a, t):
        d = Dense(self.name + ".toDense()", self.rows, self.cols, table=dict(self.e), default=Fraction(0))
        return d

    def iop_add(self, M, v, sign=1):
        v = M.rv(v)
        if not isinstance(v, Sparse):
            raise Unab("sparse += %s" % show_val(v))
        if (v.rows, v.cols) != (self.rows, self.cols):
            raise AbstractViolation("sparse += of a %dx%d matrix into a %dx%d matrix" % (v.rows, v.cols, self.rows, self.cols))
        for k, x in v.e.items():
            if k not in self.e:
                self.log.append(("insert", k))
                self.e[k] = Fraction(0)
            self.e[k] = M.arith("+" if sign > 0 else "-", self.e[k], x)

    def iop_sub(self, M, v):
        self.iop_add(M, v, -1)

    def iop_mul(self, M, v):
        for k in self.e:
            self.e[k] = M.arith("*", self.e[k], v)

    def op_mul(self, M, a, b):
        s, k = (a, b) if isinstance(a, Sparse) else (b, a)
        if not is_num(k):
            raise Unab("product of a sparse matrix and %s" % show_val(k))
        return Sparse(s.rows, s.cols, {kk: M.arith("*", v, k) for kk, v in s.e.items()}, s.rowmajor, "(%s*%s)" % (show_val(k)[:12], s.name))

    def op_add(self, M, a, b):
        r = copy.deepcopy(a)
        r.log = []
        r.iop_add(M, b)
        r.log = []
        return r

    def assign_from(self, M, v):
        v = M.rv(v)
        if isinstance(v, Sparse):
            self.log.append(("assign",))
            self.rows, self.cols = v.rows, v.cols
            self.e = dict(v.e)
            self.compressed = v.compressed
            return
        raise Unab("assignment of %s to a sparse matrix" % show_val(v))

    def outer(self, k):
        if self.rowmajor:
            return sorted((c, (r, c)) for (r, c) in self.e if r == k)
        return sorted((r, (r, c)) for (r, c) in self.e if c == k)


class RawValues:
    """valuePtr() of a compressed sparse matrix: element k is the k-th stored entry in storage order"""

    def __init__(self, s):
        self.s = s
        self.keys = s.order()
        self.off = 0

    def show(self):
        return self.s.name + ".valuePtr()"

    def index(self, M, idx):
        k = simp(idx[0])
        if not (isinstance(k, Fraction) and k.denominator == 1):
            raise Unab("raw value index is not concrete")
        k = int(k) + self.off
        if not (0 <= k < len(self.keys)):
            raise AbstractViolation("valuePtr()[%d] is outside the %d stored entries of %s" % (k, len(self.keys), self.s.name))
        cell = self.keys[k]
        return ItemRef(self.s.e, cell, "%s(%d,%d)" % (self.s.name, cell[0], cell[1]))

    def op_add(self, M, a, b):
        r, k = (a, b) if isinstance(a, RawValues) else (b, a)
        n = RawValues.__new__(RawValues)
        n.s, n.keys, n.off = r.s, r.keys, r.off + int(simp(k))
        return n

    def deref(self):
        return self.index(None, [Fraction(0)])


class CoeffsView:
    def __init__(self, s):
        self.s = s

    def show(self):
        return self.s.name + ".coeffs()"

    def m_setZero(self, M, a, t):
        for k in self.s.e:
            self.s.e[k] = Fraction(0)

    def m_setConstant(self, M, a, t):
        for k in self.s.e:
            self.s.e[k] = a[0]


class InnerIt:
    def __init__(self, mat, k):
        if not isinstance(mat, Sparse):
            raise Unab("InnerIterator over %s" % show_val(mat))
        k = simp(k)
        n = mat.rows if mat.rowmajor else mat.cols
        if not (isinstance(k, Fraction) and k.denominator == 1 and 0 <= k < n):
            raise AbstractViolation("InnerIterator over outer vector %s of %s (outer size %d)" % (show_val(k), mat.name, n))
        self.mat = mat
        self.items = [kk for _, kk in mat.outer(int(k))]
        self.pos = 0

    def show(self):
        return "InnerIterator(%s)" % self.mat.name

    def __deepcopy__(self, memo):
        it = InnerIt.__new__(InnerIt)
        it.mat, it.items, it.pos = self.mat, list(self.items), self.pos
        return it

    def truth(self):
        return self.pos < len(self.items)

    def inc(self):
        self.pos += 1

    def m_operator_bool(self, M, a, t):
        return self.truth()

    def cur(self):
        if self.pos >= len(self.items):
            raise AbstractViolation("InnerIterator advanced past its end")
        return self.items[self.pos]

    def m_row(self, M, a, t):
        return Fraction(self.cur()[0])

    def m_col(self, M, a, t):
        return Fraction(self.cur()[1])

    def m_index(self, M, a, t):
        r, c = self.cur()
        return Fraction(c if self.mat.rowmajor else r)

    def m_outer(self, M, a, t):
        r, c = self.cur()
        return Fraction(r if self.mat.rowmajor else c)

    def m_value(self, M, a, t):
        return self.mat.e[self.cur()]

    def m_valueRef(self, M, a, t):
        k = self.cur()
        return ItemRef(self.mat.e, k, "%s(%d,%d)" % (self.mat.name, k[0], k[1]))


class Dense:
    """a dense matrix of opaque symbols name[r,c]; `table` overrides individual entries (known zeros / ones)"""

    def __init__(self, name, rows, cols, table=None, default=None):
        self.name, self.rows, self.cols = name, int(rows), int(cols)
        self.table = dict(table or {})
        self.default = default

    def show(self):
        return "%s(%dx%d)" % (self.name, self.rows, self.cols)

    def entry(self, r, c):
        if (r, c) in self.table:
            return self.table[(r, c)]
        if self.default is not None:
            return self.default
        return sym("%s[%d,%d]" % (self.name, r, c))

    def index(self, M, idx):
        if len(idx) == 1 and self.cols == 1:
            idx = [idx[0], Fraction(0)]
        if len(idx) != 2:
            raise Unab("%d indices on the dense matrix %s" % (len(idx), self.name))
        r, c = simp(idx[0]), simp(idx[1])
        if not (isinstance(r, Fraction) and isinstance(c, Fraction) and r.denominator == 1 and c.denominator == 1):
            raise Unab("dense index is not concrete")
        r, c = int(r), int(c)
        if not (0 <= r < self.rows and 0 <= c < self.cols):
            raise AbstractViolation("read of %s(%d, %d) outside its %d x %d extent" % (self.name, r, c, self.rows, self.cols))
        return self.entry(r, c)

    def m_coeff(self, M, a, t):
        return self.index(M, a)

    def m_rows(self, M, a, t):
        return Fraction(self.rows)

    def m_cols(self, M, a, t):
        return Fraction(self.cols)

    def m_size(self, M, a, t):
        return Fraction(self.rows * self.cols)

    def m_eval(self, M, a, t):
        return self

    def m_sparseView(self, M, a, t):
        e = {}
        for r in range(self.rows):
            for c in range(self.cols):
                v = self.entry(r, c)
                if not (isinstance(simp(v), Fraction) and simp(v) == 0):
                    e[(r, c)] = v
        return Sparse(self.rows, self.cols, e, False, self.name + ".sparseView()", compressed=True)


class DVec(Vec):
    """a dense Eigen vector with concrete size (elements are numbers)"""

    def __deepcopy__(self, memo):
        return DVec([copy.deepcopy(x, memo) for x in self.items], self.name)

    def index(self, M, idx):
        return self.at(idx[0])

    def m_setZero(self, M, a, t):
        if a:
            self.items[:] = [Fraction(0)] * int(simp(a[0]))
        else:
            for i in range(len(self.items)):
                self.items[i] = Fraction(0)
        return self

    def m_resize(self, M, a, t):
        n = int(simp(a[0]))
        self.items[:] = (self.items + [mach.UNSET] * n)[:n]

    def m_size(self, M, a, t):
        return Fraction(len(self.items))

    def m_rows(self, M, a, t):
        return Fraction(len(self.items))

    def m_cols(self, M, a, t):
        return Fraction(1)

    def m_eval(self, M, a, t):
        return self

    m_noalias = m_eval
    m_array = m_eval
    m_matrix = m_eval
    m_derived = m_eval

    def m_cwiseSqrt(self, M, a, t):
        return DVec([usym("sqrt", x) for x in self.items], self.name + ".cwiseSqrt()")

    m_sqrt = m_cwiseSqrt

    def assign_from(self, M, v):
        v = M.rv(v)
        if isinstance(v, Vec):
            if len(v.items) != len(self.items) and self.items:
                raise AbstractViolation("assignment of a vector of size %d to one of size %d" % (len(v.items), len(self.items)))
            self.items[:] = list(v.items)
            return
        raise Unab("assignment of %s to a dense vector" % show_val(v))


def usym(fname, *args):
    """uninterpreted pure function application as a symbol named by the canonical form of its arguments"""
    parts = []
    for a in args:
        a = simp(a) if is_num(a) else a
        if isinstance(a, Fraction):
            parts.append(str(a))
        elif hasattr(a, "n") and hasattr(a, "d"):
            parts.append("%r/%r" % (sorted(a.n.items()), sorted(a.d.items())))
        else:
            parts.append(show_val(a))
    if fname == "sqrt" and len(args) == 1:
        a = simp(args[0])
        if isinstance(a, Fraction) and a >= 0:
            import math
            n, d = math.isqrt(a.numerator), math.isqrt(a.denominator)
            if n * n == a.numerator and d * d == a.denominator:
                return Fraction(n, d)
    return sym("%s(%s)" % (fname, "; ".join(parts)))


class Term:
    """an opaque value (an Eigen vector / matrix / clock reading ...) named by the expression that produced it; pure member functions and
    arithmetic build new terms, so equal computations give equal terms"""

    PURE = {"cwiseProduct", "unaryExpr", "transpose", "adjoint", "eval", "cwiseAbs2", "cwiseAbs", "normalized", "array", "matrix", "head", "tail", "segment", "col", "row",
            "asDiagonal", "cwiseQuotient", "cwiseSqrt", "sparseView", "derived", "template"}

    def __init__(self, name):
        self.name = name

    def show(self):
        return self.name

    def __eq__(self, o):
        return isinstance(o, Term) and o.name == self.name

    def __hash__(self):
        return hash(self.name)

    def __deepcopy__(self, memo):
        return self

    def __getattr__(self, attr):
        if attr.startswith("m_") and attr[2:] in Term.PURE:
            meth = attr[2:]

            def f(M, a, t, meth=meth):
                return Term("%s.%s(%s)" % (self.name, meth, ", ".join(show_val(x) for x in a)))
            return f
        raise AttributeError(attr)

    def _bin(self, M, a, b, op):
        return Term("(%s %s %s)" % (show_val(a), op, show_val(b)))

    def op_add(self, M, a, b):
        return self._bin(M, a, b, "+")

    def op_sub(self, M, a, b):
        return self._bin(M, a, b, "-")

    def op_mul(self, M, a, b):
        return self._bin(M, a, b, "*")

    def op_div(self, M, a, b):
        return self._bin(M, a, b, "/")


class OptVal:
    """std::optional<T> holding a plain value"""

    def __init__(self, v=mach.UNSET):
        self.v = v

    def show(self):
        return "optional(%s)" % ("empty" if self.v is mach.UNSET else show_val(self.v))

    def __deepcopy__(self, memo):
        return OptVal(copy.deepcopy(self.v, memo))

    def m_has_value(self, M, a, t):
        return self.v is not mach.UNSET

    def truth(self):
        return self.v is not mach.UNSET

    def m_value(self, M, a, t):
        if self.v is mach.UNSET:
            raise AbstractViolation("value() of an empty optional")
        return mach.FnRef(lambda: self.v, self.set)

    def deref(self):
        return self.m_value(None, [], None)

    def set(self, v):
        self.v = v

    def m_value_or(self, M, a, t):
        return self.v if self.v is not mach.UNSET else a[0]

    def m_reset(self, M, a, t):
        self.v = mach.UNSET

    def m_emplace(self, M, a, t):
        self.v = a[0]

    def assign_from(self, M, v):
        v = M.rv(v)
        if isinstance(v, OptVal):
            self.v = v.v
        elif isinstance(v, Vec) and v.name == "initializer list" and not v.items:
            self.v = mach.UNSET
        elif v is None:
            self.v = mach.UNSET
        else:
            self.v = v


class DenseCols:
    """a dense matrix seen through its column / row reductions only"""

    def __init__(self, name, rows, cols):
        self.name, self.rows, self.cols = name, rows, cols

    def show(self):
        return "%s(%dx%d dense)" % (self.name, self.rows, self.cols)

    def m_rows(self, M, a, t):
        return Fraction(self.rows)

    def m_cols(self, M, a, t):
        return Fraction(self.cols)

    def m_colwise(self, M, a, t):
        return Reduction(self, "col", self.cols)

    def m_rowwise(self, M, a, t):
        return Reduction(self, "row", self.rows)

    def m_eval(self, M, a, t):
        return self


class Reduction:
    def __init__(self, m, axis, n):
        self.m, self.axis, self.n = m, axis, n

    def show(self):
        return "%s.%swise()" % (self.m.name, self.axis)

    def red(self, what):
        return DVec([sym("%s(%s %d of %s)" % (what, self.axis, i, self.m.name)) for i in range(self.n)], "%s.%swise().%s()" % (self.m.name, self.axis, what))

    def m_norm(self, M, a, t):
        return self.red("norm")

    def m_stableNorm(self, M, a, t):
        return self.red("norm")

    def m_squaredNorm(self, M, a, t):
        return self.red("squaredNorm")

    def m_sum(self, M, a, t):
        return self.red("sum")
