"""C10 -- the trust-region step solver returns the regularised least-squares minimiser (thin structural clauses N1..N4).

The solver is three statements of linear algebra.  They are abstracted into a symbolic operator normal form and compared
with the normal equations (J'J + lambda D'D) dx = -J'r and with the derivative of phi(lambda) = |D dx(lambda)|:
  H x = -J'r  =>  D^2 x + H x' = 0  =>  x' = -H^-1 D^2 x ,  phi' = <D x, D x'> / |D x| = -<D^2 x, H^-1 D^2 x> / |D x|.
"""
import re

import astlib as A
import fe
import pe
from report import Finding


class V:
    """vector in normal form: sign * (word of operators) applied to x, optionally divided by |(norm word) x|"""

    def __init__(self, sign, ops, norm=None):
        self.sign, self.ops, self.norm = sign, tuple(ops), norm

    def key(self):
        return (self.sign, self.ops, self.norm)


def check(rep, tier, replay=None):
    rep.explanations.append(
        "C10 (thin): N1 the factorised matrix is J'J with lambda*d_i^2 added to every diagonal entry; N2 the solution is the LDLT solve "
        "of -J'r with that matrix, in one code path for dense and sparse J; N3 the optional output dphi equals, in a symbolic operator "
        "normal form, the derivative of |D dx(lambda)| obtained by differentiating the normal equations; N4 solve_trust_region uses "
        "lambda = 1/Delta and returns that solution together with lambda.  In exact arithmetic the minimiser property, equality of "
        "dense and sparse results and |J dx + r| <= |r| follow; backward error and conditioning claims are numerical and NOT decided.")
    rep.trusted.add("clang++-16 front end; Eigen's LDLT / SimplicialLDLT solve A x = b for the matrix they were constructed from")
    rep.assumptions.append("1e-8 backward error, 1e-6 dense/sparse agreement under conditioning <= 1e8 and rank-deficient inputs are not decided")
    d = fe.ast_dumps(["solve_linear_ldlt", "solve_trust_region"])
    rep.unit("umbrella TU filtered solve_linear_ldlt / solve_trust_region")
    idx = A.index(d["solve_linear_ldlt"])
    fns = [x for x in idx if x.kind in A.FUNCS and x.pattern and x.qname.split("::")[-1] == "solve_linear_ldlt" and A.body(x.node) is not None]
    if len(fns) != 1:
        rep.broke("solve_linear_ldlt not found (%d)" % len(fns))
        return
    fn = fns[0]
    b = A.body(fn.node)
    locs = {}
    decl_nodes = {}
    for x in A.walk(b):
        if x.get("kind") == "VarDecl" and A.kids(x):
            locs[x.get("name")] = A.to_expr(A.kids(x)[-1])
            decl_nodes[x.get("name")] = x

    def norm(e):
        return re.sub(r"\s", "", A.show(e))
    # ---- N1
    rep.rule("N1", "factorised matrix is J'J + lambda * diag(d)^2")
    hname = next((n for n, e in locs.items() if norm(e) in ("(J.transpose()*J)",)), None)
    okdiag = False
    loop = None
    if hname:
        for x in A.kids(b):
            if x.get("kind") == "ForStmt":
                ks = A.kids(x)
                var = next((v.get("name") for v in A.kids(ks[0]) if v.get("kind") == "VarDecl"), None) if ks[0].get("kind") == "DeclStmt" else None
                cond = A.to_expr(ks[2])
                full = (cond[0] == "op" and cond[1] == "<" and cond[2][0] == "ref" and cond[2][1] == var
                        and norm(cond[3]) in ("%s.rows()" % hname, "%s.cols()" % hname) and locs.get(var, ("num", 1)) == ("num", 0))
                for y in A.walk(ks[4]):
                    if y.get("kind") in ("CompoundAssignOperator", "CXXOperatorCallExpr", "BinaryOperator"):
                        e = A.to_expr(y)
                        if e[0] == "op" and e[1] == "+=" and e[2][0] == "mcall" and e[2][2] == "coeffRef" and e[2][1][0] == "ref" and e[2][1][1] == hname:
                            ij = e[2][4]
                            try:
                                val = pe.ev(e[3], {"lambda": 3, "d(%s)" % var: 5, "d[%s]" % var: 5})
                            except pe.PEError:
                                val = None
                            okdiag = full and len(ij) == 2 and all(a[0] == "ref" and a[1] == var for a in ij) and val == 75
                            loop = x
    rep.instance("N1", "solve_linear_ldlt", "H", ok=bool(hname) and okdiag, sample={"file": fe.rel(fn.file), "line": fn.line, "H": hname})
    if not (hname and okdiag):
        f, l = A.loc(loop) if loop else (fn.file, fn.line)
        rep.violation(Finding("N1", "solve_linear_ldlt", "H", "the matrix handed to the factorisation is not J'J with lambda*d(i)^2 added to every diagonal entry i < rows", f, l))
    # ---- N2
    rep.rule("N2", "dx = LDLT(J'J + lambda D^2).solve(-J'r), one path for dense and sparse J")
    lname = None
    for n, x in decl_nodes.items():
        ty = x.get("type", {}).get("qualType", "")
        if "LDLTt" in ty:
            init = A.to_expr(A.kids(x)[-1])
            if norm(init) in (hname or "?", "LDLTt(%s)" % hname, "%s" % hname):
                lname = n
    xname = None
    for n, e in locs.items():
        if e[0] == "mcall" and e[2] == "solve" and e[1][0] == "ref" and e[1][1] == lname and len(e[4]) == 1:
            if norm(e[4][0]) in ("(-(J.transpose())*r)", "-((J.transpose()*r))", "(-(J.transpose()*r))"):
                xname = n
    rets = [x for x in A.walk_nolambda(b) if x.get("kind") == "ReturnStmt"]
    okret = len(rets) == 1 and A.to_expr(A.kids(rets[0])[0]) == ("ref", xname, A.to_expr(A.kids(rets[0])[0])[2])
    ifs_sparse = [x for x in A.walk(b) if x.get("kind") == "IfStmt" and "is_sparse" in A.ntext(A.kids(x)[0])]
    ok2 = bool(lname and xname and okret) and not ifs_sparse
    rep.instance("N2", "solve_linear_ldlt", "dx", ok=ok2, sample={"ldlt": lname, "dx": xname})
    if not ok2:
        rep.violation(Finding("N2", "solve_linear_ldlt", "dx", "the returned step is not ldlt(H).solve(-J' r) with the regularised normal matrix H "
                              "(ldlt=%s, dx=%s, single return=%s, separate sparse branch=%s)" % (lname, xname, okret, bool(ifs_sparse)), fn.file, fn.line))
    # ---- N3
    rep.rule("N3", "dphi == d/dlambda |D dx(lambda)| in operator normal form")

    def vec(e, depth=0):
        if depth > 12:
            raise ValueError("too deep")
        if e[0] == "ref" and e[1] == xname:
            return V(1, ())
        if e[0] == "ref" and e[1] in locs:
            return vec(locs[e[1]], depth + 1)
        if e[0] == "neg":
            v = vec(e[1], depth + 1)
            return V(-v.sign, v.ops, v.norm)
        if e[0] == "mcall" and e[2] == "cwiseProduct" and e[1][0] == "ref" and e[1][1] == "d" and len(e[4]) == 1:
            v = vec(e[4][0], depth + 1)
            return V(v.sign, ("D",) + v.ops, v.norm)
        if e[0] == "mcall" and e[2] == "solve" and e[1][0] == "ref" and e[1][1] == lname and len(e[4]) == 1:
            v = vec(e[4][0], depth + 1)
            return V(v.sign, ("Hinv",) + v.ops, v.norm)
        if e[0] == "mcall" and e[2] == "normalized" and not e[4]:
            v = vec(e[1], depth + 1)
            if v.norm is not None:
                raise ValueError("double normalisation")
            return V(v.sign, v.ops, v.ops)
        raise ValueError("vector expression %s" % A.show(e)[:50])
    dphi = None
    for x in A.walk(b):
        if x.get("kind") in ("BinaryOperator", "CXXOperatorCallExpr"):
            e = A.to_expr(x)
            if e[0] == "op" and e[1] == "=" and "dphi" in norm(e[2]):
                dphi = (e[3], x)
    ok3 = False
    got = None
    if dphi is not None and xname:
        try:
            e = dphi[0]
            sign = 1
            while e[0] == "neg":
                sign, e = -sign, e[1]
            if e[0] == "mcall" and e[2] == "dot" and len(e[4]) == 1:
                a, c = vec(e[1]), vec(e[4][0])
                sign *= a.sign * c.sign
                # <A x, B x> with D, Hinv symmetric: move everything to one canonical word  D^p Hinv D^q  (one Hinv expected)
                word = tuple(reversed(a.ops)) + c.ops
                norms = [n for n in (a.norm, c.norm) if n is not None]
                got = (sign, word, tuple(norms))
                ok3 = got == (-1, ("D", "D", "Hinv", "D", "D"), (("D",),))
        except ValueError as ex:
            rep.broke("N3: cannot abstract dphi: %s" % ex)
            return
    rep.instance("N3", "solve_linear_ldlt", "dphi", ok=ok3, sample={"normal_form": str(got)})
    if not ok3:
        f, l = A.loc(dphi[1]) if dphi else (fn.file, fn.line)
        rep.violation(Finding("N3", "solve_linear_ldlt", "dphi",
                              "dphi has normal form %s; the derivative of |D dx(lambda)| is -<D^2 x, H^-1 D^2 x> / |D x|, i.e. (-1, (D,D,Hinv,D,D), (|D x|,))" % (got,), f, l))
    # ---- N4
    rep.rule("N4", "solve_trust_region: lambda = 1/Delta, returns {solve_linear_ldlt(J,d,r,lambda), lambda}")
    idx2 = A.index(d["solve_trust_region"])
    fns2 = [x for x in idx2 if x.kind in A.FUNCS and x.pattern and x.qname.split("::")[-1] == "solve_trust_region" and A.body(x.node) is not None]
    if len(fns2) != 1:
        rep.broke("solve_trust_region not found")
        return
    f2 = fns2[0]
    l2 = {}
    for x in A.walk(A.body(f2.node)):
        if x.get("kind") == "VarDecl" and A.kids(x):
            l2[x.get("name")] = A.to_expr(A.kids(x)[-1])
    lam = next((n for n, e in l2.items() if _is_recip(e, "Delta")), None)
    dx = next((n for n, e in l2.items() if e[0] == "call" and str(e[1]).split("::")[-1] == "solve_linear_ldlt"
               and [norm(a) for a in e[2]] == ["J", "d", "r", lam]), None)
    rets = [x for x in A.walk_nolambda(A.body(f2.node)) if x.get("kind") == "ReturnStmt"]
    okr = False
    if len(rets) == 1:
        e = A.to_expr(A.kids(rets[0])[0])
        items = e[1] if e[0] == "init" else (e[2] if e[0] == "ctor" else [])
        okr = len(items) == 2 and norm(items[0]) == (dx or "?") and norm(items[1]) == (lam or "?")
    ok4 = bool(lam and dx and okr)
    rep.instance("N4", "solve_trust_region", "lambda", ok=ok4, sample={"file": fe.rel(f2.file), "line": f2.line, "lambda": lam, "dx": dx})
    if not ok4:
        rep.violation(Finding("N4", "solve_trust_region", "lambda", "solve_trust_region is not {solve_linear_ldlt(J, d, r, 1/Delta), 1/Delta}", f2.file, f2.line))


def _is_recip(e, name):
    try:
        return pe.ev(e, {name: 4}) * 4 == 1 and pe.ev(e, {name: 7}) * 7 == 1
    except pe.PEError:
        return False
