import algebra
import layers
import switches


def check(rep, tier, replay=None):
    switches.run(rep, "C04")
    layers.run(rep, 1)
    layers.run_rminus(rep)
    rep.explanations.append(
        "dr_action: for SO2/SO3/SE2/SE3/Galilei the returned matrix equals, column by column, matrix(g) hat(e_i) [v;1] -- the derivative of "
        "(g exp(eps e_i)) v at eps = 0 -- as an exact polynomial identity modulo the unit-norm constraints (optimized IR, polynomial domain).")
    algebra.check_identities(rep, tier, "C04")
