"""J rules: sibling agreement of the two branches of every small-angle switch (C02 / C04 / C05).

Sites are found structurally: an `if` (or ?:) whose condition compares a local/parameter V with an
expression mentioning `eps2`, inside functions of include/smooth/detail.  Both branches are abstracted into the
truncated-series domain (lib/jet.py) with V := x^2 and compared:

  J0  the branch selected for V -> 0 is the polynomial one (no sqrt/sin/cos/tan/atan2),
  J1  every coefficient the polynomial branch states equals the closed form's Taylor coefficient,
  J2  the first omitted term at theta* = sqrt(threshold) is below tolerance,

J1/J2 are one inequality:  sup_{x<=theta*} |closed(x) - series(x)| * use_weight(x)  <=  tolerance(property).
Use weights live in tables/switch_weights.json (derived by reading; one reason each), keyed by
(function, index in the returned array) or (tail function, caller).
"""
import json
import math
import re
import os
from fractions import Fraction

import astlib as A
import fe
import jet
from report import Finding, VERIF

TRANSC = {"sqrt", "sin", "cos", "tan", "atan2", "atan", "asin", "acos", "std::sqrt", "std::sin", "std::cos",
          "std::tan", "std::atan2"}
TOL = {"C02": 1e-9, "C04": 1e-7, "C05": 1e-5}
FILTERS = ["Impl", "detail::cos_", "detail::sin_", "eps2"]


def load_weights():
    return json.load(open(os.path.join(VERIF, "tables", "switch_weights.json")))


class Site:
    def __init__(self, decl, node, ordinal):
        self.decl = decl
        self.node = node
        self.ordinal = ordinal
        self.file, self.line = A.loc(node)


def _mentions_eps2(e):
    """the expression refers to a switch threshold constant (eps2 or a constant whose name starts with eps2, e.g. eps2_tails)"""
    return any(str(r).startswith("eps2") for r in A.refs(e))


def find_sites(idx):
    """All small-angle switches in pattern functions under include/smooth."""
    sites = []
    for d in idx:
        if d.kind not in A.FUNCS or not d.pattern or not d.file or not d.file.startswith(fe.INCLUDE):
            continue
        b = A.body(d.node)
        if b is None:
            continue
        n = 0
        for x in A.walk(b):
            if x.get("kind") in ("IfStmt", "ConditionalOperator"):
                c = A.to_expr(A.kids(x)[0])
                if c[0] == "op" and c[1] in ("<", ">", "<=", ">=") and (_mentions_eps2(c[2]) != _mentions_eps2(c[3])):
                    sites.append(Site(d, x, n))
                    n += 1
    return sites


def tail_calls(idx, tails):
    """(caller qname, tail name, file, line) for every call of a Taylor-tail function."""
    out = []
    for d in idx:
        if d.kind not in A.FUNCS or not d.pattern or not d.file or not d.file.startswith(fe.INCLUDE):
            continue
        b = A.body(d.node)
        if b is None:
            continue
        for x in A.walk(b):
            if x.get("kind") == "CallExpr":
                nm = A.callee_name(A.kids(x)[0]) or ""
                base = nm.split("::")[-1]
                if base in tails:
                    f, l = A.loc(x)
                    out.append((d.qname, base, f, l))
    return out



TAIL_ORDER = {"cos_2": 2, "sin_3": 3, "cos_4": 4, "sin_5": 5, "cos_6": 6, "sin_7": 7}


def tail_series(name, x2):
    """Taylor tail detail::<name> of a squared-argument series (the library's own helper, decided by J1J2 at its own switch)"""
    n = TAIL_ORDER[name]
    x = x2.sqrt()
    base = x.cos() if n % 2 == 0 else x.sin()
    # subtract the Taylor polynomial of degree < n
    from math import factorial
    k = 0 if n % 2 == 0 else 1
    sgn = 1
    while k < n:
        base = base - (x ** k) * Fraction(sgn, factorial(k))
        k += 2
        sgn = -sgn
    return base / (x ** n)


def tail_value(name, x2):
    """numeric value of the tail, summed from its series for small arguments"""
    import math
    n = TAIL_ORDER[name]
    if x2 > 1.0:
        x = math.sqrt(x2)
        base = math.cos(x) if n % 2 == 0 else math.sin(x)
        k, sgn = (0 if n % 2 == 0 else 1), 1
        while k < n:
            base -= sgn * x ** k / math.factorial(k)
            k += 2
            sgn = -sgn
        return base / x ** n
    tot, sgn = 0.0, (1 if (n // 2) % 2 == 0 else -1)
    for j in range(0, 12):
        tot += sgn * x2 ** j / math.factorial(2 * j + n)
        sgn = -sgn
    return tot


class Env:
    """Lazy evaluation of locals of the enclosing function into the series domain."""

    def __init__(self, fn_node, bindings):
        self.vars = {}
        for x in A.walk(fn_node):
            if x.get("kind") == "VarDecl" and A.kids(x):
                init = [k for k in A.kids(x) if k.get("kind") not in ("TypeLoc",)]
                if init:
                    self.vars[x.get("id")] = (x.get("name"), init[-1])
        self.bound = dict(bindings)   # printable expression text -> Series
        self.cache = {}

    def ev(self, e):
        t = e[0]
        key = A.show(e)
        if key in self.bound:
            return self.bound[key]
        if t == "num":
            return jet.Series.const(e[1])
        if t == "ref":
            name, did = e[1], e[2]
            if name in self.bound:
                return self.bound[name]
            if did in self.cache:
                return self.cache[did]
            if did in self.vars:
                v = self.ev(A.to_expr(self.vars[did][1]))
                self.cache[did] = v
                return v
            raise jet.Unsupported("free variable %s" % name)
        if t == "op":
            op = e[1]
            a, b = self.ev(e[2]), self.ev(e[3])
            if op == "+":
                return a + b
            if op == "-":
                return a - b
            if op == "*":
                return a * b
            if op == "/":
                return a / b
            raise jet.Unsupported("operator %s" % op)
        if t == "neg":
            return -self.ev(e[1])
        if t == "call":
            nm = e[1] if isinstance(e[1], str) else None
            base = (nm or "").split("::")[-1]
            args = [self.ev(a) for a in e[2]]
            if base == "sqrt":
                return args[0].sqrt()
            if base == "sin":
                return args[0].sin()
            if base == "cos":
                return args[0].cos()
            if base == "tan":
                return args[0].tan()
            if base == "atan2":
                return jet.Series.atan2(args[0], args[1])
            if base == "acos":
                return args[0].acos()
            if base == "asin":
                return args[0].asin()
            if base == "atan":
                return args[0].atan()
            if base in TAIL_ORDER:
                return tail_series(base, args[0])
            if base == "abs":
                return args[0]
            raise jet.Unsupported("call %s" % nm)
        raise jet.Unsupported("expression %s" % A.show(e)[:60])


class ErrEnv(Env):
    """J3: first-order rounding model on the closed-form expression tree at theta = theta*.
    Every node is (series value, absolute error bound at theta*).  Unit roundoff u per operation and per elementary function;
    the input angle is taken as exact (its rounding is a backward error of the input)."""

    def __init__(self, fn_node, bindings, theta, u):
        super().__init__(fn_node, bindings)
        self.theta = theta
        self.u = u
        self.ecache = {}

    def mag(self, sr):
        """|value| of a series at theta* (exact rational evaluation of the computed terms)"""
        return abs(sum(float(c) * self.theta ** k for k, c in sr.c.items()))

    def eve(self, e):
        t = e[0]
        key = A.show(e)
        if key in self.bound:
            return self.bound[key], 0.0
        if t == "num":
            return jet.Series.const(e[1]), 0.0
        if t == "ref":
            name, did = e[1], e[2]
            if name in self.bound:
                return self.bound[name], 0.0
            if did in self.ecache:
                return self.ecache[did]
            if did in self.vars:
                r = self.eve(A.to_expr(self.vars[did][1]))
                self.ecache[did] = r
                return r
            raise jet.Unsupported("free variable %s" % name)
        if t == "neg":
            v, er = self.eve(e[1])
            return -v, er
        if t == "op":
            op = e[1]
            (a, ea), (b, eb) = self.eve(e[2]), self.eve(e[3])
            if op in ("+", "-"):
                r = a + b if op == "+" else a - b
                return r, ea + eb + self.u * self.mag(r)
            if op == "*":
                r = a * b
                return r, self.mag(a) * eb + self.mag(b) * ea + self.u * self.mag(r)
            if op == "/":
                r = a / b
                mb = self.mag(b)
                if mb == 0:
                    raise jet.Unsupported("division by a quantity that vanishes at theta*")
                return r, ea / mb + self.mag(a) * eb / (mb * mb) + self.u * self.mag(r)
            raise jet.Unsupported("operator %s" % op)
        if t == "call":
            nm = e[1] if isinstance(e[1], str) else None
            base = (nm or "").split("::")[-1]
            args = [self.eve(a) for a in e[2]]
            if base in ("sqrt", "sin", "cos", "tan"):
                x, ex = args[0]
                r = {"sqrt": x.sqrt, "sin": x.sin, "cos": x.cos, "tan": x.tan}[base]()
                # |f'(x)| <= 1 for sin/cos near 0; sqrt'(x) = 1/(2 sqrt x); tan' ~ 1
                if base == "sqrt":
                    d = 0.5 / max(self.mag(r), 1e-300)
                else:
                    d = 1.0
                return r, d * ex + self.u * self.mag(r)
            if base in TAIL_ORDER:
                x, ex = args[0]
                r = tail_series(base, x)
                return r, ex + self.u * self.mag(r)
            if base in ("acos", "asin"):
                x, ex = args[0]
                r = x.acos() if base == "acos" else x.asin()
                # |d/dx| = 1/sqrt(1 - x^2): unbounded as |x| -> 1
                one_minus = self.mag(jet.Series.const(1, x.N) - x * x)
                d = 1.0 / max(one_minus, 1e-300) ** 0.5
                return r, d * (ex + self.u * self.mag(x)) + self.u * self.mag(r)
            if base == "atan":
                x, ex = args[0]
                return x.atan(), ex + self.u * self.mag(x.atan())
            if base == "atan2":
                (y, ey), (x, ex) = args
                r = jet.Series.atan2(y, x)
                return r, ey / max(self.mag(x), 1e-300) + ex * self.mag(y) / max(self.mag(x) ** 2, 1e-300) + self.u * self.mag(r)
            raise jet.Unsupported("call %s" % nm)
        raise jet.Unsupported("expression %s" % A.show(e)[:60])



class NumEnv:
    """numeric (float) evaluation of AST expressions of one function at a given angle -- used only to locate the boundary of a
    nested case split inside a closed-form branch and to compare the two alternatives there (rule J4)"""

    def __init__(self, fn_node, num_bindings):
        self.vars = {}
        for x in A.walk(fn_node):
            if x.get("kind") == "VarDecl" and A.kids(x):
                init = [k for k in A.kids(x) if k.get("kind") not in ("TypeLoc",)]
                if init:
                    self.vars[x.get("id")] = (x.get("name"), init[-1])
        self.bound = dict(num_bindings)
        self.cache = {}

    def ev(self, e):
        import math
        t = e[0]
        key = A.show(e)
        if key in self.bound:
            return self.bound[key]
        if t == "num":
            return float(e[1])
        if t == "bool":
            return bool(e[1])
        if t == "ref":
            name, did = e[1], e[2]
            if name in self.bound:
                return self.bound[name]
            if did in self.cache:
                return self.cache[did]
            if did in self.vars:
                v = self.ev(A.to_expr(self.vars[did][1]))
                self.cache[did] = v
                return v
            if name in ("M_PI",):
                return math.pi
            raise jet.Unsupported("free variable %s" % name)
        if t == "neg":
            return -self.ev(e[1])
        if t == "un" and e[1] == "!":
            return not self.ev(e[2])
        if t == "ctor" and len(e[2]) == 1:
            return self.ev(e[2][0])
        if t == "op":
            op = e[1]
            if op == "&&":
                return bool(self.ev(e[2])) and bool(self.ev(e[3]))
            if op == "||":
                return bool(self.ev(e[2])) or bool(self.ev(e[3]))
            a, b = self.ev(e[2]), self.ev(e[3])
            if op == "/":
                if b == 0:
                    return float("inf") if a > 0 else (float("-inf") if a < 0 else float("nan"))
                return a / b
            return {"+": lambda: a + b, "-": lambda: a - b, "*": lambda: a * b, "<": lambda: a < b, "<=": lambda: a <= b,
                    ">": lambda: a > b, ">=": lambda: a >= b, "==": lambda: a == b, "!=": lambda: a != b}[op]()
        if t == "call":
            base = (e[1] if isinstance(e[1], str) else "").split("::")[-1]
            args = [self.ev(a) for a in e[2]]
            if base in TAIL_ORDER:
                return tail_value(base, args[0])
            f = {"sqrt": math.sqrt, "sin": math.sin, "cos": math.cos, "tan": math.tan, "abs": abs, "fabs": abs, "atan2": math.atan2,
                 "atan": math.atan, "acos": math.acos, "asin": math.asin, "exp": math.exp, "log": math.log}.get(base)
            if f is None:
                raise jet.Unsupported("call %s" % e[1])
            try:
                return f(*args)
            except (ValueError, OverflowError):
                return float("nan")
        raise jet.Unsupported("expression %s" % A.show(e)[:60])


def nested_alternatives(br):
    """[(condition expr or None, return expression node)] when the branch is a sequence of declarations, `if (c) return e;` statements
    and a final return; None otherwise"""
    br = A.strip(br)
    if br.get("kind") != "CompoundStmt":
        return None
    out = []
    for st in A.kids(br):
        k = st.get("kind")
        if k == "DeclStmt":
            continue
        if k == "IfStmt":
            ks = A.kids(st)
            if len(ks) != 2:
                return None
            rets = [x for x in A.walk(ks[1]) if x.get("kind") == "ReturnStmt"]
            if len(rets) != 1:
                return None
            out.append((A.to_expr(ks[0]), A.kids(rets[0])[0]))
        elif k == "ReturnStmt":
            out.append((None, A.kids(st)[0]))
            return out
        else:
            return None
    return None


NESTED_AT = {"theta": None, "num_bindings": None, "fn": None, "found": []}


def feasible_return(br):
    """expression node returned by the branch just above the switch; records nested case splits for rule J4"""
    alts = nested_alternatives(br)
    if alts is None or len(alts) < 2 or NESTED_AT["theta"] is None:
        return None
    NESTED_AT["found"].append((br, alts))
    ne = NumEnv(NESTED_AT["fn"], NESTED_AT["num_bindings"](NESTED_AT["theta"] * 1.001))
    for c, r in alts:
        if c is None or ne.ev(c):
            return r
    return None



class NumErrEnv(NumEnv):
    """first-order rounding model evaluated numerically at one angle: every node is (value, absolute error bound); unit roundoff u per
    operation and elementary function; the angle itself is exact"""

    def __init__(self, fn_node, num_bindings, u):
        super().__init__(fn_node, num_bindings)
        self.u = u
        self.ecache = {}

    def eve(self, e):
        import math
        t = e[0]
        key = A.show(e)
        if key in self.bound:
            return float(self.bound[key]), 0.0
        if t == "num":
            return float(e[1]), 0.0
        if t == "ref":
            name, did = e[1], e[2]
            if name in self.bound:
                return float(self.bound[name]), 0.0
            if did in self.ecache:
                return self.ecache[did]
            if did in self.vars:
                r = self.eve(A.to_expr(self.vars[did][1]))
                self.ecache[did] = r
                return r
            raise jet.Unsupported("free variable %s" % name)
        if t == "neg":
            v, er = self.eve(e[1])
            return -v, er
        if t == "ctor" and len(e[2]) == 1:
            return self.eve(e[2][0])
        if t == "cond":
            return self.eve(e[2]) if self.ev(e[1]) else self.eve(e[3])
        if t == "op":
            op = e[1]
            (a, ea), (b, eb) = self.eve(e[2]), self.eve(e[3])
            if op in ("+", "-"):
                r = a + b if op == "+" else a - b
                return r, ea + eb + self.u * abs(r)
            if op == "*":
                r = a * b
                return r, abs(a) * eb + abs(b) * ea + self.u * abs(r)
            if op == "/":
                if b == 0:
                    raise jet.Unsupported("division by zero at the evaluation angle")
                r = a / b
                return r, ea / abs(b) + abs(a) * eb / (b * b) + self.u * abs(r)
            raise jet.Unsupported("operator %s" % op)
        if t == "call":
            base = (e[1] if isinstance(e[1], str) else "").split("::")[-1]
            args = [self.eve(a) for a in e[2]]
            x, ex = args[0]
            if base in TAIL_ORDER:
                r = tail_value(base, x)
                return r, ex + self.u * abs(r)
            if base in ("sin", "cos"):
                r = math.sin(x) if base == "sin" else math.cos(x)
                return r, ex + self.u * max(abs(r), 0.0) + (self.u * abs(x) if abs(r) < 1e-3 else 0.0)
            if base == "sqrt":
                r = math.sqrt(x)
                return r, 0.5 * ex / max(r, 1e-300) + self.u * r
            if base in ("abs", "fabs"):
                return abs(x), ex
            if base == "tan":
                r = math.tan(x)
                return r, ex * (1 + r * r) + self.u * abs(r)
            if base == "atan2":
                (y, ey), (xx, exx) = args
                d2 = max(xx * xx + y * y, 1e-300)
                r = math.atan2(y, xx)
                return r, (abs(xx) * ey + abs(y) * exx) / d2 + self.u * abs(r)
            if base in ("acos", "asin"):
                r = math.acos(x) if base == "acos" else math.asin(x)
                return r, (ex + self.u * abs(x)) / max(1 - x * x, 1e-300) ** 0.5 + self.u * abs(r)
            raise jet.Unsupported("call %s" % e[1])
        raise jet.Unsupported("expression %s" % A.show(e)[:60])


def check_j5(rep, pid, s, fq, r, entries, tol, float_tol):
    """J5: conditioning of the closed-form branch towards the half turn: the same first-order rounding model as J3, evaluated numerically
    at theta = pi - 10^-k.  Inverses are only specified up to pi - 1e-3; log only to 1e-7 within 1e-5 of pi."""
    if r.get("num_bindings") is None or fq in ("SO3Impl::log",):
        return
    inv = "inv" in fq.lower()
    ks = (2, 3) if inv else ((2, 3, 4, 5) if pid == "C02" else (2, 3, 4, 5, 6))
    for scalar, u, tl in (("double", 2.0 ** -53, tol), ("float", 2.0 ** -24, float_tol)):
        if tl is None:
            continue
        if scalar == "float":
            ks_ = tuple(k for k in ks if k <= 3)
        else:
            ks_ = ks
        worst = None
        for k in ks_:
            th = math.pi - 10.0 ** (-k)
            try:
                ne = NumErrEnv(r["fn"], r["num_bindings"](th), u)
                br = A.strip(r["large_node"])
                alts = nested_alternatives(br)
                if alts:
                    expr = next(ret for c, ret in alts if c is None or NumEnv(r["fn"], r["num_bindings"](th)).ev(c))
                elif br.get("kind") == "CompoundStmt":
                    rets = [x for x in A.walk(br) if x.get("kind") == "ReturnStmt"]
                    if len(rets) != 1:
                        return
                    expr = A.kids(rets[0])[0]
                elif br.get("kind") == "ReturnStmt":
                    expr = A.kids(br)[0]
                else:
                    expr = br
                e = A.to_expr(expr)
                items = e[1] if e[0] == "init" else (e[2] if (e[0] == "ctor" and len(e[2]) > 1) else [e])
                errs = [ne.eve(x) for x in items]
            except (jet.Unsupported, StopIteration) as ex:
                _soft(rep, "J5: cannot evaluate the rounding model of %s at pi - 1e-%d: %s" % (fq, k, ex))
                return
            for i, w in entries:
                if i >= len(errs):
                    continue
                val, err = errs[i]
                eff = err * wfun(w)(th)
                if worst is None or eff > worst[0]:
                    worst = (eff, i, w, k, err)
        if worst is None:
            continue
        eff, i, w, k, err = worst
        inst = "coeff%d%s near pi:%s" % (i, ("@" + w["caller"]) if "caller" in w else "", scalar)
        ok = eff < 100 * tl
        rep.instance("J5", fq, inst, ok=ok, sample={"file": fe.rel(s.file), "line": s.line, "angle": "pi - 1e-%d" % k, "predicted_relative_effect": eff, "tolerance": tl})
        if not ok:
            rep.violation(Finding("J5", fq, "coeff%d near pi" % i,
                                  "closed-form branch `%s` is ill-conditioned towards the half turn: at theta = pi - 1e-%d (%s) rounding is amplified to an absolute "
                                  "error of about %.2g, predicted relative effect %.2g (weight %s*theta^%s) vs tolerance %g of %s"
                                  % (r["large_txt"][i] if i < len(r["large_txt"]) else "?", k, scalar, err, eff, w["c"], w.get("p", 0), tl, pid),
                                  s.file, s.line, scalar=scalar))

def branch_errors(env, br):
    br = A.strip(br)
    if br.get("kind") == "CompoundStmt":
        rets = [x for x in A.walk(br) if x.get("kind") == "ReturnStmt"]
        expr = A.kids(rets[0])[0]
        if len(rets) > 1:
            fr = feasible_return(br)
            if fr is None:
                raise jet.Unsupported("branch with %d return statements" % len(rets))
            expr = fr
    elif br.get("kind") == "ReturnStmt":
        expr = A.kids(br)[0]
    else:
        expr = br
    e = A.to_expr(expr)
    items = e[1] if e[0] == "init" else (e[2] if (e[0] == "ctor" and len(e[2]) > 1) else [e])
    return [env.eve(x) for x in items]


def has_transc(node):
    for x in A.walk(node):
        if x.get("kind") == "CallExpr":
            nm = (A.callee_name(A.kids(x)[0]) or "").split("::")[-1]
            if nm in ("sqrt", "sin", "cos", "tan", "atan2", "atan", "acos", "asin"):
                return True
    return False


def branch_value(env, br):
    """Series (or list of series) returned by a branch."""
    br = A.strip(br)
    if br.get("kind") == "CompoundStmt":
        rets = [x for x in A.walk(br) if x.get("kind") == "ReturnStmt"]
        if len(rets) != 1:
            fr = feasible_return(br)
            if fr is None:
                raise jet.Unsupported("branch with %d return statements" % len(rets))
            expr = fr
        else:
            expr = A.kids(rets[0])[0]
    elif br.get("kind") == "ReturnStmt":
        expr = A.kids(br)[0]
    else:
        expr = br
    e = A.to_expr(expr)
    if e[0] == "init":
        return [env.ev(x) for x in e[1]], [A.show(x) for x in e[1]]
    if e[0] == "ctor" and len(e[2]) > 1:
        return [env.ev(x) for x in e[2]], [A.show(x) for x in e[2]]
    return [env.ev(e)], [A.show(e)]



class WrongSwitchVariable(Exception):
    pass


def input_roots(e, env0, params, depth=0):
    """input accessors (printed) an expression depends on, expanding locals: e.g. {a_in.z()} or {a_in.squaredNorm()}"""
    out = set()
    if depth > 12 or not isinstance(e, tuple):
        return out
    t = e[0]
    if t == "ref":
        if e[1] in params:
            return {e[1]}
        vd = env0.vars.get(e[2]) if len(e) > 2 else None
        if vd is not None:
            return input_roots(A.to_expr(vd[1]), env0, params, depth + 1)
        return out
    if t == "mcall":
        base = e[1]
        while isinstance(base, tuple) and base[0] == "mcall":
            base = base[1]
        if isinstance(base, tuple) and base[0] == "ref" and base[1] in params:
            # |x|, |x|^2 and their variants vanish together: one root
            return {re.sub(r"\.(squaredNorm|stableNorm|norm|lpNorm<[^>]*>)\(\)$", ".norm()", A.show(e))}
        out |= input_roots(e[1], env0, params, depth + 1)
        for a in e[4] or []:
            out |= input_roots(a, env0, params, depth + 1)
        return out
    for x in e[1:]:
        if isinstance(x, tuple):
            out |= input_roots(x, env0, params, depth + 1)
        elif isinstance(x, list):
            for y in x:
                out |= input_roots(y, env0, params, depth + 1)
    return out


def angle_exprs(node):
    """sub-expressions of a branch that must not vanish / are fed to trigonometric functions: denominators and sin/cos/tan arguments"""
    out = []

    def rec(e):
        if not isinstance(e, tuple):
            return
        if e[0] == "op" and e[1] == "/":
            out.append(e[3])
        if e[0] == "call" and str(e[1]).split("::")[-1] in ("sin", "cos", "tan"):
            out.extend(list(e[2]))
        for x in e[1:]:
            if isinstance(x, tuple):
                rec(x)
            elif isinstance(x, list):
                for y in x:
                    rec(y)
    for x in A.walk(node):
        if x.get("kind") == "ReturnStmt" and A.kids(x):
            rec(A.to_expr(A.kids(x)[0]))
        elif x.get("kind") == "VarDecl" and A.kids(x):
            rec(A.to_expr(A.kids(x)[-1]))
    return out


def analyse_site(site, weights):
    """Returns dict with orientation, threshold, per-index series difference."""
    x = site.node
    ks = A.kids(x)
    cond = A.to_expr(ks[0])
    op, lhs, rhs = cond[1], cond[2], cond[3]
    if _mentions_eps2(lhs):
        lhs, rhs = rhs, lhs
        op = {"<": ">", ">": "<", "<=": ">=", ">=": "<="}[op]
    # rhs is the threshold expression: Scalar(eps2) possibly scaled
    thr_env = Env({"kind": "none"}, {nm: jet.Series.const(v) for nm, v in W_EPS2["all"].items()})
    thr = None
    try:
        thr_s = thr_env.ev(rhs)
        thr = float(thr_s.coeff(0))
    except jet.Unsupported:
        pass
    if lhs[0] != "ref":
        # is the switch at least decided on the quantity the closed form is singular in?
        fn0 = site.decl.node
        env00 = Env(fn0, {})
        params = {p_.get("name") for p_ in A.params(fn0)}
        then_small0 = op in ("<", "<=")
        large0 = (ks[2] if len(ks) > 2 else None) if then_small0 else ks[1]
        if large0 is not None:
            need = set()
            for ae in angle_exprs(large0):
                need |= input_roots(ae, env00, params)
            have = input_roots(lhs, env00, params)
            if need and have and need != have:
                raise WrongSwitchVariable("the switch is decided on `%s` (inputs %s) but the closed-form branch divides by / takes sin, cos of quantities that depend on %s: "
                                          "when the former is above the threshold and the latter vanish, the closed form is evaluated at its singularity"
                                          % (A.show(lhs), sorted(have), sorted(need)))
        raise jet.Unsupported("switch variable is not a plain name: %s" % A.show(lhs))
    vname, vid = lhs[1], lhs[2]
    then_small = op in ("<", "<=")
    b_then = ks[1]
    b_else = ks[2] if len(ks) > 2 else None
    if b_else is None:
        raise jet.Unsupported("switch without else branch")
    small, large = (b_then, b_else) if then_small else (b_else, b_then)

    # environment: V := x^2 ; if V is defined as E*E then E := x
    bindings = {}
    fn = site.decl.node
    env0 = Env(fn, {})
    vdef = env0.vars.get(vid)
    bound_how = None
    if vdef is not None:
        e = A.to_expr(vdef[1])
        if e[0] == "op" and e[1] == "*" and e[2] == e[3] and e[2][0] == "ref":
            bindings[e[2][1]] = jet.Series.var(1)
            bound_how = "%s := x (since %s = %s*%s)" % (e[2][1], vname, e[2][1], e[2][1])
        elif e[0] == "op" and e[1] == "*" and A.show(e[2]) == A.show(e[3]):
            bindings[A.show(e[2])] = jet.Series.var(1)
            bound_how = "%s := x" % A.show(e[2])
    if bound_how is None:
        bindings[vname] = jet.Series.var(2)
        bound_how = "%s := x^2" % vname
    fkey = site.decl.qname
    for k, v in weights.get("site_bindings", {}).get(fkey, {}).get("bind", {}).items():
        # e.g. unit-quaternion constraint: g_in[3] := sqrt(1 - x^2)
        if v == "sqrt(1-x^2)":
            bindings[k] = (jet.Series.const(1) - jet.Series.var(2)).sqrt()
        else:
            raise jet.Unsupported("unknown site binding %s" % v)
    # numeric bindings of the same variables at a given angle (for nested case splits inside a branch)
    num_keys = {k: (1 if v.c == {1: 1} else 2) for k, v in bindings.items() if v.c in ({1: 1}, {2: 1})}
    NESTED_AT.update({"theta": (thr ** 0.5 if thr else None) if len(num_keys) == len(bindings) else None, "fn": fn, "found": [],
                      "num_bindings": (lambda th, nk=num_keys: {k: th ** p_ for k, p_ in nk.items()})})
    env = Env(fn, bindings)
    small_vals, small_txt = branch_value(env, small)
    env2 = Env(fn, bindings)
    large_vals, large_txt = branch_value(env2, large)
    return {
        "bindings": bindings, "large_node": large, "fn": fn,
        "var": vname, "threshold": thr, "then_small": then_small, "bound": bound_how,
        "small_transc": has_transc(small), "large_transc": has_transc(large),
        "small": small_vals, "large": large_vals, "small_txt": small_txt, "large_txt": large_txt,
        "nested": list(NESTED_AT["found"]), "num_bindings": NESTED_AT["num_bindings"],
    }


W_EPS2 = {"value": None, "all": {}}


def find_eps2(idx):
    """Value of the namespace-scope constant `eps2` (read from its initialiser in the AST); every threshold constant whose name
    starts with eps2 is recorded in W_EPS2["all"]."""
    found = {}
    for d in idx:
        nm = d.qname.split("::")[-1]
        if d.kind == "VarDecl" and nm.startswith("eps2") and d.file and d.file.startswith(fe.INCLUDE):
            init = [k for k in A.kids(d.node) if not str(k.get("kind", "")).endswith("Comment")]
            if init:
                e = A.to_expr(init[-1])
                if e[0] == "num":
                    found[nm] = e[1]
    W_EPS2["all"] = found
    if "eps2" in found:
        return found["eps2"]
    raise fe.Broken("namespace-scope constant eps2 with a literal initialiser not found")


def wfun(w):
    """weight entry {"c":..,"p":..} -> callable theta -> weight"""
    return lambda th: float(w["c"]) * th ** int(w.get("p", 0))


def run(rep, pid, idx=None):
    try:
        return _run(rep, pid, idx)
    except Exception as ex:       # the J rules are supplementary (see _soft): an unrecognised source shape never breaks the check
        _soft(rep, "%s: %s" % (type(ex).__name__, str(ex)[:200]))
        return rep


def _run(rep, pid, idx=None):
    W = load_weights()
    if idx is None:
        dumps = fe.ast_dumps(FILTERS)
        objs = []
        for f in FILTERS:
            objs += dumps[f]
        idx = A.index(objs)
    rep.unit("umbrella TU (all %d public headers) filtered %s" % (len(fe.umbrella_headers()), FILTERS))
    rep.trusted.update(["clang++-16 front end (JSON AST)", "lib/jet.py series arithmetic (exact rationals)",
                        "tables/switch_weights.json use-weights (hand-derived, reasons inline)"])
    rep.explanations.append(
        "J0/J1/J2: both branches of every small-angle switch abstracted into truncated series in the rotation angle "
        "and compared; violation only if sup|closed-series|*use_weight over theta<=theta* exceeds the property tolerance.")
    tol = TOL[pid]
    W_EPS2["value"] = find_eps2(idx)
    sites = find_sites(idx)
    table = W["sites"]
    tails = W["tails"]
    rep.rule("J.sites", "small-angle switch sites enumerated and all present in the weight table", minimum=0)
    known_fns = set(table) | set(tails)
    site_by_fn = {}
    for s in sites:
        fq = s.decl.qname
        rep.instance("J.sites", fq, s.ordinal, ok=fq in known_fns, nontrivial=False)
        if fq not in known_fns:
            _soft(rep, "new small-angle switch in %s (%s:%s) has no entry in tables/switch_weights.json -- "
                      "derive its use-weights before trusting this check" % (fq, fe.rel(s.file), s.line))
        site_by_fn.setdefault(fq, []).append(s)
    for fq in known_fns:
        if fq not in site_by_fn:
            _soft(rep, "switch site %s listed in the weight table was not found in the source" % fq)

    # tail call sites must all be in the table
    calls = tail_calls(idx, set(tails))
    rep.rule("J.calls", "call sites of Taylor-tail functions, each with a weight entry", minimum=0)
    seen_pairs = set()
    for caller, tail, f, l in calls:
        ok = caller in tails[tail]["callers"]
        if (caller, tail) not in seen_pairs:
            rep.instance("J.calls", caller, tail, ok=ok, nontrivial=False)
            seen_pairs.add((caller, tail))
        if not ok:
            _soft(rep, "call of detail::%s from %s (%s:%s) has no use-weight entry" % (tail, caller, fe.rel(f), l))

    rep.rule("J0", "branch selected for small angles is the polynomial branch; other one is closed-form", minimum=0)
    rep.rule("J3", "closed-form branch just above the switch: first-order rounding model (reported only at >= 100x the tolerance)", minimum=0)
    rep.rule("J4", "a further case split inside a branch of a switch is continuous at the angle where its condition flips", minimum=0)
    rep.rule("J5", "closed-form branch towards the half turn: first-order rounding model at pi - 10^-k (reported only at >= 100x the tolerance)", minimum=0)
    FLOAT_TOL = {"C02": 1e-3, "C04": 1e-2}
    rep.rule("J1J2", "sup |closed - series| * weight <= tolerance for every coefficient in scope of %s" % pid, minimum=0)

    for fq, ss in sorted(site_by_fn.items()):
        for s in ss:
            # which (index -> weight list) entries concern this property?
            if fq in table:
                entries = [(i, w) for i, ws in enumerate(table[fq]["coeffs"]) for w in ws if w["prop"] == pid]
                n_expected = len(table[fq]["coeffs"])
            elif fq in tails:
                entries = [(0, dict(w, caller=c)) for c, ws in tails[fq]["callers"].items() for w in ws if w["prop"] == pid]
                n_expected = 1
            else:
                entries, n_expected = None, None
            if entries is not None and not entries:
                continue
            if entries is None:
                # a switch the weight table does not know (reported as analysis-broken above): it is still analysed with unit weights, in the
                # scope its function name suggests, so that a definite defect is reported and not hidden behind the missing entry
                low = fq.lower()
                scope = {"C05"} if ("d2r" in low or "q_dq" in low) else ({"C02"} if low.endswith(("::exp", "::log")) else
                                                                       ({"C04", "C02"} if ("calc_s" in low) else {"C04"}))
                if pid not in scope:
                    continue
                entries, n_expected = "default", None
            try:
                r = analyse_site(s, W)
            except WrongSwitchVariable as ex:
                rep.instance("J0", fq, s.ordinal, ok=False, sample={"file": fe.rel(s.file), "line": s.line})
                rep.violation(Finding("J0", fq, s.ordinal, str(ex), s.file, s.line))
                continue
            except jet.Unsupported as ex:
                _soft(rep, "cannot abstract switch in %s (%s:%s): %s" % (fq, fe.rel(s.file), s.line, ex))
                continue
            if r["threshold"] is None or not (0 < r["threshold"] <= 4):
                _soft(rep, "threshold of switch in %s not a constant in (0,4]" % fq)
                continue
            theta = math.sqrt(r["threshold"])
            # J0
            ok0 = (not r["small_transc"]) and r["large_transc"]
            rep.instance("J0", fq, s.ordinal, ok=ok0,
                         sample={"file": fe.rel(s.file), "line": s.line, "condition_var": r["var"],
                                 "small_branch_first": r["then_small"], "theta_star": theta})
            if not ok0:
                rep.violation(Finding("J0", fq, s.ordinal,
                                      "the branch taken for %s -> 0 is not the polynomial one (comparison flipped or "
                                      "branches swapped): small-branch has transcendental=%s, large-branch=%s"
                                      % (r["var"], r["small_transc"], r["large_transc"]), s.file, s.line))
                continue
            if entries == "default":
                entries = [(i, {"prop": pid, "c": 1, "p": 0, "reason": "unit weight: switch not in the weight table"}) for i in range(len(r["large"]))]
                n_expected = len(r["large"])
            if len(r["small"]) != len(r["large"]) or len(r["small"]) != n_expected:
                _soft(rep, "switch in %s returns %d/%d values, table expects %d" %
                          (fq, len(r["small"]), len(r["large"]), n_expected))
                continue
            # J3: conditioning of the closed form at theta* (double always; float where the property states a float tolerance)
            for scalar, u, tl in (("double", 2.0 ** -53, tol), ("float", 2.0 ** -24, FLOAT_TOL.get(pid))):
                if tl is None:
                    continue
                try:
                    eenv = ErrEnv(r["fn"], r["bindings"], theta, u)
                    errs = branch_errors(eenv, r["large_node"])
                except jet.Unsupported as ex:
                    _soft(rep, "J3: cannot evaluate the rounding model for %s: %s" % (fq, ex))
                    break
                for i, w in entries:
                    if i >= len(errs):
                        continue
                    val, err = errs[i]
                    eff = err * wfun(w)(theta)
                    inst = "coeff%d%s" % (i, ("@" + w["caller"]) if "caller" in w else "")
                    sample = {"file": fe.rel(s.file), "line": s.line, "closed_branch": r["large_txt"][i], "abs_error_bound": err,
                              "predicted_relative_effect": eff, "tolerance": tl, "scalar": scalar, "theta_star": theta}
                    if eff >= 100 * tl:
                        rep.instance("J3", fq, inst + ":" + scalar, ok=False, sample=sample)
                        rep.violation(Finding(
                            "J3", fq, inst,
                            "closed-form branch `%s` is ill-conditioned just above the switch (theta* = %.1e, %s): cancellation amplifies rounding to an "
                            "absolute error of about %.2g in the coefficient, predicted relative effect %.2g (weight %s*theta^%s) vs tolerance %g of %s -- "
                            "the switch threshold is too small for this expression"
                            % (r["large_txt"][i], theta, scalar, err, eff, w["c"], w.get("p", 0), tl, pid), s.file, s.line, scalar=scalar,
                            detail={"predicted": eff}))
                    elif eff > tl:
                        rep.instance("J3", fq, inst + ":" + scalar, ok=True, sample=sample)
                        rep.note("INCONCLUSIVE J3 %s %s (%s): rounding model predicts %.2g (tolerance %g); the model is 5-30x pessimistic, "
                                 "only >= 100x the tolerance is reported" % (fq, inst, scalar, eff, tl))
                    else:
                        rep.instance("J3", fq, inst + ":" + scalar, ok=True, sample=sample)
            for i, w in entries:
                S, C = r["small"][i], r["large"][i]
                D = C - S
                if D.c and D.val() < 0:
                    rep.violation(Finding("J1J2", fq, "coeff%d" % i,
                                          "closed form has a pole the series lacks: closed-series = %s" % D.short(), s.file, s.line))
                    continue
                degS = max(S.c) if S.c else 0
                if fq in W.get("site_bindings", {}):
                    degS = -1  # series branch is not a polynomial in x after the constraint substitution
                wt = wfun(w)(theta)
                eff = D.sup_abs(theta) * wt
                first = D.val() if D.c else None
                kind = "J1 stated coefficient" if (first is not None and first <= degS) else "J2 truncation"
                inst = "coeff%d%s" % (i, ("@" + w["caller"]) if "caller" in w else "")
                sample = {"file": fe.rel(s.file), "line": s.line, "series_branch": r["small_txt"][i],
                          "closed_branch": r["large_txt"][i], "series": S.short(), "closed_taylor": C.short(5),
                          "difference": D.short(2), "weight": w, "effect_at_theta_star": eff, "tolerance": tol}
                if eff > 2 * tol:
                    rep.instance("J1J2", fq, inst, ok=False, sample=sample)
                    rep.violation(Finding(
                        "J1J2", fq, inst,
                        "%s: series branch `%s` = %s but closed form `%s` expands to %s; difference %s; "
                        "worst-case relative effect %.3g (weight %s*theta^%s: %s) exceeds tolerance %g of %s"
                        % (kind, r["small_txt"][i], S.short(), r["large_txt"][i], C.short(4), D.short(2), eff,
                           w["c"], w.get("p", 0), w.get("reason", ""), tol, pid), s.file, s.line,
                        detail={"series": str(S), "closed": str(C), "effect": eff}))
                elif eff > tol / 2:
                    rep.instance("J1J2", fq, inst, ok=True, sample=sample)
                    rep.note("INCONCLUSIVE %s %s: effect %.3g within factor 2 of tolerance %g" % (fq, inst, eff, tol))
                else:
                    rep.instance("J1J2", fq, inst, ok=True, sample=sample)
                    if first is not None and first <= degS:
                        rep.note("%s %s: stated coefficient differs from the closed form's Taylor coefficient "
                                 "(%s vs %s) but worst-case effect %.3g is below tolerance %g -- not a finding"
                                 % (fq, inst, S.short(), C.short(3), eff, tol))
            check_j4(rep, pid, s, fq, r, entries, theta, tol)
            check_j5(rep, pid, s, fq, r, entries, tol, FLOAT_TOL.get(pid))
    return rep


def _soft(rep, msg):
    """The J rules read the source shape of the small-angle switches (condition on a squared angle, polynomial branch, closed-form branch, weight table).  Where a
    switch is spelled in a way they do not recognise, they say so and stand down: the same function is decided at API level, independently of its spelling, by
    rules T.<property> (series identity), RND (rounding bound) and RND.C (continuity at every case split) on the optimized IR, which carry the instance minima."""
    rep.note("J (source-level switch rules) not applied: %s -- covered by T / RND / RND.C on the optimized IR" % msg)


def check_j4(rep, pid, s, fq, r, entries, theta, tol):
    """J4: a further case split inside a branch of a switch (e.g. a guard near pi) must be continuous: at the angle where its
    condition flips, the alternative taken on either side must agree within the tolerance (same weights as J1J2).  The flip is
    located by scanning the condition over (theta*, pi + 1/2] and bisecting; the two return expressions are evaluated there."""
    for br, alts in r.get("nested", []):
        nb = r["num_bindings"]
        fn = r["fn"]

        def active(th):
            ne = NumEnv(fn, nb(th))
            for k, (c, ret) in enumerate(alts):
                if c is None or ne.ev(c):
                    return k
            return None

        def values(th, k):
            ne = NumEnv(fn, nb(th))
            e = A.to_expr(alts[k][1])
            items = e[1] if e[0] == "init" else (e[2] if (e[0] == "ctor" and len(e[2]) > 1) else [e])
            return [ne.ev(x) for x in items]
        lo, hi = theta * 1.001, math.pi + 0.5
        n = 4000
        grid = [lo + (hi - lo) * i / n for i in range(n + 1)] + [math.pi - 10.0 ** (-k_) for k_ in range(2, 9)] + [math.pi + 10.0 ** (-k_) for k_ in range(2, 9)]
        grid.sort()
        flips = []
        try:
            prev = active(grid[0])
            for a_, b_ in zip(grid, grid[1:]):
                cur = active(b_)
                if cur != prev:
                    x0, x1, k0 = a_, b_, prev
                    for _ in range(80):
                        mid = 0.5 * (x0 + x1)
                        if active(mid) == k0:
                            x0 = mid
                        else:
                            x1 = mid
                    flips.append((x0, x1, k0, cur))
                prev = cur
        except jet.Unsupported as ex:
            _soft(rep, "J4: cannot evaluate the nested case split in %s: %s" % (fq, ex))
            continue
        f_, l_ = A.loc(br)
        if not flips:
            rep.instance("J4", fq, "nested split never taken on (theta*, pi+1/2]", ok=True, sample={"file": fe.rel(f_), "line": l_})
            continue
        for x0, x1, k0, k1 in flips:
            if k0 is None or k1 is None:
                _soft(rep, "J4: %s has an angle range without a return value" % fq)
                continue
            try:
                v0, v1 = values(x0, k0), values(x1, k1)
            except jet.Unsupported as ex:
                _soft(rep, "J4: cannot evaluate the alternatives in %s: %s" % (fq, ex))
                continue
            # within 1e-5 of pi the log round trip is only required to 1e-7
            tl = max(tol, 1e-7) if (pid == "C02" and abs(x0 - math.pi) < 1e-5) else tol
            worst = None
            for i, w in entries:
                if i >= len(v0) or i >= len(v1):
                    continue
                d = abs(v0[i] - v1[i])
                eff = d * wfun(w)(x0) if d == d else float("inf")
                if worst is None or eff > worst[0]:
                    worst = (eff, i, w, v0[i], v1[i])
            ok = worst is None or worst[0] <= 2 * tl
            rep.instance("J4", fq, "split at %.6g" % x0, ok=ok, sample={"file": fe.rel(f_), "line": l_, "angle": x0, "jump_effect": worst[0] if worst else 0.0, "tolerance": tl})
            if not ok:
                eff, i, w, a0, a1 = worst
                rep.violation(Finding("J4", fq, "coeff%d nested split" % i,
                                      "the case split `%s` inside the closed-form branch is discontinuous: at angle %.9g (pi - %.3g) the value jumps from %.9g to %.9g; "
                                      "relative effect %.3g (weight %s*theta^%s) exceeds tolerance %g of %s"
                                      % (A.show(alts[min(k0, k1)][0])[:80] if alts[min(k0, k1)][0] else "else", x0, math.pi - x0, a0, a1, eff, w["c"], w.get("p", 0), tl, pid), f_, l_))
