"""J -- truncated Laurent/Taylor series abstract domain over exact rationals.

A value is  sum_{k>=v} c_k x^k  truncated at order N (terms x^k with k >= N are dropped / unknown).
Transfer functions for + - * /, sqrt, sin, cos, tan, atan2 and rational constants.  No program path is
executed: expressions taken from the AST are *abstracted* into this domain and compared.
"""
from fractions import Fraction
from math import factorial, isqrt

N_DEFAULT = 14


class Unsupported(Exception):
    pass


class Series:
    __slots__ = ("c", "N")

    def __init__(self, c=None, N=N_DEFAULT):
        self.c = {k: Fraction(v) for k, v in (c or {}).items() if v != 0 and k < N}
        self.N = N

    # construction -----------------------------------------------------------------------
    @staticmethod
    def const(v, N=N_DEFAULT):
        return Series({0: Fraction(v)}, N)

    @staticmethod
    def var(power=1, N=N_DEFAULT):
        return Series({power: 1}, N)

    # helpers ----------------------------------------------------------------------------
    def val(self):
        return min(self.c) if self.c else None

    def is_zero(self):
        return not self.c

    def coeff(self, k):
        return self.c.get(k, Fraction(0))

    def trunc(self, N):
        return Series({k: v for k, v in self.c.items() if k < N}, N)

    def shift(self, s):
        return Series({k + s: v for k, v in self.c.items()}, self.N + s)

    def __repr__(self):
        if not self.c:
            return "0 + O(x^%d)" % self.N
        ts = []
        for k in sorted(self.c):
            v = self.c[k]
            ts.append("%s" % v if k == 0 else ("%s*x" % v if k == 1 else "%s*x^%d" % (v, k)))
        return " + ".join(ts) + " + O(x^%d)" % self.N

    def short(self, n=4):
        ks = sorted(self.c)[:n]
        if not ks:
            return "0"
        return " + ".join(("%s" % self.c[k]) if k == 0 else "%s*x^%d" % (self.c[k], k) for k in ks) + " + ..."

    # arithmetic -------------------------------------------------------------------------
    def _lift(self, o):
        if isinstance(o, Series):
            return o
        return Series.const(o, self.N)

    def __add__(self, o):
        o = self._lift(o)
        N = min(self.N, o.N)
        c = dict(self.c)
        for k, v in o.c.items():
            c[k] = c.get(k, 0) + v
        return Series(c, N)

    __radd__ = __add__

    def __neg__(self):
        return Series({k: -v for k, v in self.c.items()}, self.N)

    def __sub__(self, o):
        return self + (-self._lift(o))

    def __rsub__(self, o):
        return self._lift(o) - self

    def __mul__(self, o):
        o = self._lift(o)
        if not self.c or not o.c:
            # 0 * anything: order known only up to the smaller bound
            return Series({}, min(self.N + (o.val() or 0), o.N + (self.val() or 0)))
        va, vb = self.val(), o.val()
        N = min(self.N + vb, o.N + va)
        c = {}
        for i, a in self.c.items():
            for j, b in o.c.items():
                if i + j < N:
                    c[i + j] = c.get(i + j, 0) + a * b
        return Series(c, N)

    __rmul__ = __mul__

    def inv(self):
        if not self.c:
            raise Unsupported("division by a series that is zero to the computed order")
        v = self.val()
        # self = x^v * u,  u(0) != 0, u known to order N - v
        n = self.N - v
        u = [self.coeff(v + i) for i in range(n)]
        w = [Fraction(0)] * n
        w[0] = 1 / u[0]
        for i in range(1, n):
            s = sum(u[j] * w[i - j] for j in range(1, i + 1))
            w[i] = -s / u[0]
        return Series({i - v: w[i] for i in range(n)}, n - v)

    def __truediv__(self, o):
        o = self._lift(o)
        return self * o.inv()

    def __rtruediv__(self, o):
        return self._lift(o) * self.inv()

    def __pow__(self, n):
        r = Series.const(1, self.N)
        for _ in range(n):
            r = r * self
        return r

    # analytic functions -----------------------------------------------------------------
    def compose_taylor(self, coeffs):
        """sum_k coeffs(k) * self^k  for self with zero constant term (valuation >= 1)."""
        if self.c and self.val() < 1:
            raise Unsupported("analytic function of a series with non-zero constant term / pole")
        r = Series({}, self.N)
        p = Series.const(1, self.N)
        k = 0
        while k <= self.N + 1:
            ck = coeffs(k)
            if ck != 0:
                r = r + (p * ck).trunc(self.N)
            p = (p * self).trunc(self.N)
            k += 1
            if not p.c:
                break
        r.N = self.N
        return r.trunc(self.N)

    def sin(self):
        return self.compose_taylor(lambda k: Fraction((-1) ** ((k - 1) // 2), factorial(k)) if k % 2 else 0)

    def cos(self):
        if self.c and self.val() == 0:
            raise Unsupported("cos of a series with constant term")
        return self.compose_taylor(lambda k: Fraction((-1) ** (k // 2), factorial(k)) if k % 2 == 0 else 0)

    def tan(self):
        return self.sin() / self.cos()

    def atan(self):
        return self.compose_taylor(lambda k: Fraction((-1) ** ((k - 1) // 2), k) if k % 2 else 0)

    def exp(self):
        return self.compose_taylor(lambda k: Fraction(1, factorial(k)))

    def log(self):
        """log of a series with constant term exactly 1"""
        if self.coeff(0) != 1 or (self.c and self.val() < 0):
            raise Unsupported("log of a series whose constant term is not 1")
        u = self - 1
        return u.compose_taylor(lambda k: Fraction((-1) ** (k + 1), k) if k else 0)

    def asin(self):
        def co(k):
            if k % 2 == 0:
                return 0
            m = (k - 1) // 2
            return Fraction(factorial(2 * m), (4 ** m) * factorial(m) ** 2 * (2 * m + 1))
        return self.compose_taylor(co)

    def acos(self):
        """acos of a series with constant term exactly 1 and otherwise non-positive leading deviation: acos(1 - u) = 2 asin(sqrt(u/2));
        acos of a vanishing series: pi/2 - asin (pi as a double-precision rational)"""
        if self.coeff(0) == 1 and (not self.c or self.val() == 0):
            u = Series.const(1, self.N) - self
            if not u.c:
                raise Unsupported("acos(1) to the computed order")
            return (u * Fraction(1, 2)).sqrt().asin() * 2
        if not self.c or self.val() >= 1:
            import math
            return Series.const(Fraction(math.pi / 2), self.N) - self.asin()
        raise Unsupported("acos of a series with constant term other than 0 or 1")

    def sqrt(self):
        if not self.c:
            # 0 + O(x^N): the square root vanishes to order N/2 (known to half the order)
            return Series({}, self.N // 2)
        v = self.val()
        if v % 2:
            raise Unsupported("sqrt of a series with odd valuation")
        lead = self.c[v]
        if lead <= 0:
            raise Unsupported("sqrt of a series with non-positive leading coefficient")
        rn, rd = isqrt(lead.numerator), isqrt(lead.denominator)
        if rn * rn != lead.numerator or rd * rd != lead.denominator:
            raise Unsupported("sqrt of a series whose leading coefficient is not a rational square")
        r0 = Fraction(rn, rd)
        n = self.N - v
        u = [self.coeff(v + i) / lead for i in range(n)]  # u[0] == 1
        w = [Fraction(0)] * n
        w[0] = Fraction(1)
        for i in range(1, n):
            s = sum(w[j] * w[i - j] for j in range(1, i))
            w[i] = (u[i] - s) / 2
        return Series({i + v // 2: r0 * w[i] for i in range(n)}, n + v // 2)

    @staticmethod
    def atan2(y, x):
        """atan2(y, x) near the expansion point: x -> positive constant: atan(y/x);
        x -> 0+ with y -> positive constant: pi/2 - atan(x/y) (pi as a 1e-16 rational approximation, enough to expose
        a constant/pole mismatch)."""
        if x.c and x.val() == 0 and x.c[0] > 0:
            return (y / x).atan()
        if y.c and y.val() == 0 and y.c[0] > 0 and (not x.c or x.val() >= 1):
            import math
            return Series.const(Fraction(math.pi / 2), min(x.N, y.N)) - (x / y).atan()
        raise Unsupported("atan2 with arguments outside the supported cases")

    # bounds -----------------------------------------------------------------------------
    def sup_abs(self, theta):
        """Upper estimate of sup_{0<=x<=theta} |self(x)| from the computed terms (monotone majorant),
        for series without negative powers."""
        if self.c and self.val() < 0:
            raise Unsupported("sup of a series with a pole")
        return sum(abs(float(v)) * theta ** k for k, v in self.c.items())
