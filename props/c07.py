"""C07 -- manifold axioms for every Manifold model (structural necessary conditions F1..F4)."""
import itertools
import re
from fractions import Fraction

import astlib as A
import fe
import pe
from report import Finding


def in_file(d, suffix):
    return d.file and d.file.startswith(fe.INCLUDE) and d.file.endswith(suffix)


def check_f1(rep, idx):
    rep.rule("F1", "SubManifold re-created from its own parts binds each part to the constructor parameter that initialises it", minimum=2)
    ctors = [d for d in idx if d.kind == "CXXConstructorDecl" and d.pattern and in_file(d, "submanifold.hpp")]
    main = None
    for d in ctors:
        pm = {}
        for c in A.kids(d.node):
            if c.get("kind") == "CXXCtorInitializer" and c.get("anyInit"):
                refs = A.refs(A.to_expr(A.kids(c)[0])) if A.kids(c) else set()
                for p in A.params(d.node):
                    if p.get("name") in refs:
                        pm[p.get("name")] = c["anyInit"]["name"]
        if len(pm) == 3:
            main = (d, [pm.get(p.get("name")) for p in A.params(d.node)])
    if main is None:
        rep.broke("F1: three-parameter SubManifold constructor with member initialisers not found")
        return
    order = main[1]          # field initialised by constructor parameter k
    acc = {}                 # accessor / field name -> field
    for d in idx:
        if d.kind == "CXXMethodDecl" and d.pattern and in_file(d, "submanifold.hpp") and d.qname.startswith("SubManifold::") and A.body(d.node) is not None:
            b = A.kids(A.body(d.node))
            if len(b) == 1 and b[0].get("kind") == "ReturnStmt":
                e = A.to_expr(A.kids(b[0])[0])
                if e[0] == "member" and e[1] == ("this",) and e[2] in order:
                    acc[d.qname.split("::")[-1]] = e[2]
    for f in order:
        acc[f] = f
    if len(set(acc.values())) < 3:
        rep.broke("F1: accessors of SubManifold not recognised (%s)" % acc)
        return

    def field_of(e):
        """the single field/accessor an argument expression is derived from"""
        hits = set()

        def rec(x):
            if isinstance(x, tuple):
                if x and x[0] == "member" and x[2] in acc and x[2] in order:
                    hits.add(acc[x[2]])
                if x and x[0] == "mcall" and x[2] in acc and not x[4]:
                    hits.add(acc[x[2]])
                    return
                if x and x[0] == "ref" and x[1] in order:
                    hits.add(x[1])
                for y in x[1:]:
                    rec(y)
            elif isinstance(x, list):
                for y in x:
                    rec(y)
        rec(e)
        return hits

    n = 0
    for d in idx:
        if d.kind not in A.FUNCS or not d.pattern or not in_file(d, "submanifold.hpp") or A.body(d.node) is None:
            continue
        for x in A.walk(A.body(d.node)):
            if x.get("kind") in ("CXXUnresolvedConstructExpr", "CXXTemporaryObjectExpr", "CXXConstructExpr", "CXXFunctionalCastExpr"):
                ty = (x.get("typeAsWritten", {}) or x.get("type", {})).get("qualType", "")
                if not re.search(r"SubManifold|CastT<NewScalar>|PlainObject", ty):
                    continue
                args = [A.to_expr(c) for c in A.kids(x)]
                if len(args) != 3:
                    continue
                fl, ln = A.loc(x)
                fields = [field_of(a) for a in args]
                ok = all(len(fs) == 1 and next(iter(fs)) == order[k] for k, fs in enumerate(fields))
                n += 1
                rep.instance("F1", d.qname, "construct@%s" % ty[:30], ok=ok,
                             sample={"file": fe.rel(fl), "line": ln, "arguments": [A.show(a)[:50] for a in args], "constructor_fields": order})
                if not ok:
                    bad = [(k, sorted(fs)) for k, fs in enumerate(fields) if not (len(fs) == 1 and next(iter(fs)) == order[k])]
                    rep.violation(Finding("F1", d.qname, "construct",
                                          "SubManifold is rebuilt with argument %d derived from %s, but constructor parameter %d initialises %s "
                                          "(parameter order is %s)" % (bad[0][0], bad[0][1], bad[0][0], order[bad[0][0]], order), fl, ln))
    if n < 2:
        rep.broke("F1: only %d re-construction site(s) of SubManifold found (cast and rplus confirmed by hand)" % n)


def check_f2(rep, idx):
    rep.rule("F2", "SubManifold scatter (rplus) / gather (rminus) loops implement the order-preserving bijection free dims <-> reduced indices", minimum=2)
    loops = {}
    for nm in ("rplus", "rminus"):
        ds = [d for d in idx if d.kind in A.FUNCS and d.pattern and d.qname == "SubManifold::" + nm and A.body(d.node) is not None]
        if len(ds) != 1:
            rep.broke("F2: SubManifold::%s not found" % nm)
            return
        fl = [x for x in A.walk(A.body(ds[0].node)) if x.get("kind") == "ForStmt"]
        if len(fl) != 1:
            rep.broke("F2: SubManifold::%s has %d loops (1 confirmed)" % (nm, len(fl)))
            return
        loops[nm] = (ds[0], fl[0])
    for nm, (d, loop) in loops.items():
        # identify the arrays touched in the loop: full-range vector (indexed by the bounded loop variable), reduced vector
        names = set()
        for x in A.walk(loop):
            if x.get("kind") == "CallExpr":
                cn = A.callee_name(A.kids(x)[0])
                if cn and len(A.kids(x)) == 2:
                    names.add(cn)
        names = sorted(names)
        bad = None
        cases = 0
        try:
            for n in range(0, 6):
                for r in range(0, n + 1):
                    for fixed in itertools.combinations(range(n), r):
                        free = [i for i in range(n) if i not in fixed]
                        arrays = {"this.m_fixed_dims": [Fraction(v) for v in fixed]}
                        full = [Fraction(100 + i) for i in range(n)]
                        red = [Fraction(200 + t) for t in range(len(free))]
                        # every element-accessed local is either the full-range or the reduced vector: try both roles by size
                        ex_arr = dict(arrays)
                        if nm == "rplus":
                            ex_arr["m_calc"] = [Fraction(0)] * n
                            ex_arr["a"] = list(red)
                            sizes = {"m_calc": n}
                        else:
                            ex_arr["m_calc"] = list(full)
                            ex_arr["ret"] = [Fraction(0)] * len(free)
                            sizes = {"m_calc": n}
                        missing = [x for x in names if x not in ex_arr]
                        if missing:
                            raise pe.PEError("unknown vector(s) %s in the loop of %s; re-confirm the rule" % (missing, nm))
                        m = pe.Exec({}, ex_arr, sizes={"m_calc": n, "this.m_fixed_dims": len(fixed)})
                        cases += 1
                        try:
                            m.run(loop)
                        except pe.PEIndexError as ie:
                            if bad is None:
                                bad = (n, fixed, ["<%s>" % ie], ["in-range accesses only"])
                            continue
                        if nm == "rplus":
                            want = [Fraction(0)] * n
                            for t, i in enumerate(free):
                                want[i] = red[t]
                            got = ex_arr["m_calc"]
                        else:
                            want = [full[i] for i in free]
                            got = ex_arr["ret"]
                        if got != want and bad is None:
                            bad = (n, fixed, [str(v) for v in got], [str(v) for v in want])
        except pe.PEError as ex:
            rep.broke("F2: cannot abstractly execute the %s loop: %s" % (nm, ex))
            continue
        fl, ln = A.loc(loop)
        rep.instance("F2", "SubManifold::" + nm, "loop", ok=bad is None, sample={"file": fe.rel(fl), "line": ln, "subsets_checked": cases})
        if bad:
            rep.violation(Finding("F2", "SubManifold::" + nm, "loop",
                                  "for a %d-dof manifold with fixed dimensions %s the %s loop produces %s, expected %s "
                                  "(free directions must map to consecutive reduced coordinates in order, fixed ones stay 0 / are skipped)"
                                  % (bad[0], list(bad[1]), "scatter" if nm == "rplus" else "gather", bad[2], bad[3]), fl, ln))
    # dof() = dof(m0) - #fixed
    ds = [d for d in idx if d.kind in A.FUNCS and d.pattern and d.qname == "SubManifold::dof" and A.body(d.node) is not None]
    if ds:
        t = A.ntext(A.body(ds[0].node))
        ok = re.search(r"return::smooth::dof\(m_m0\)-m_fixed_dims\.size\(\);", t) is not None or re.search(r"dof\(m_m\)-m_fixed_dims\.size\(\)", t) is not None
        rep.instance("F2", "SubManifold::dof", "count", ok=ok, sample={"body": t[:80]})
        if not ok:
            rep.violation(Finding("F2", "SubManifold::dof", "count", "dof() is not dof(embedded value) - number of fixed dimensions: %s" % t[:80], ds[0].file, ds[0].line))


def check_f3(rep, idx):
    rep.rule("F3", "std::vector<M> model: each element consumes/produces segment(cursor, dof_i) and the cursor advances by the same dof_i", minimum=2)
    for nm in ("rplus", "rminus"):
        ds = [d for d in idx if d.kind in A.FUNCS and d.pattern and in_file(d, "manifolds/vector.hpp") and d.qname.split("::")[-1] == nm and A.body(d.node) is not None]
        if len(ds) != 1:
            rep.broke("F3: man<std::vector<M>>::%s not found (%d)" % (nm, len(ds)))
            continue
        d = ds[0]
        loops = [x for x in A.walk(A.body(d.node)) if x.get("kind") == "CXXForRangeStmt"]
        if len(loops) != 1:
            rep.broke("F3: %s has %d range-for loops" % (nm, len(loops)))
            continue
        loop = loops[0]
        ks = A.kids(loop)
        # init-statement: cursor variable = 0
        cursor = None
        for c in ks:
            if c.get("kind") == "DeclStmt":
                for v in A.kids(c):
                    if v.get("kind") == "VarDecl" and not (v.get("name") or "").startswith("__") and A.kids(v) and A.to_expr(A.kids(v)[-1]) == ("num", 0):
                        cursor = v.get("name")
        body = ks[-1]
        segs = []
        adv = []
        locs = {}
        elem = None
        for c in ks:
            if c.get("kind") == "DeclStmt":
                for v in A.kids(c):
                    if v.get("kind") in ("VarDecl", "DecompositionDecl") and not (v.get("name") or "__").startswith("__") and v.get("name") != cursor:
                        elem = v.get("name")
        for x in A.walk(body):
            if x.get("kind") == "VarDecl" and A.kids(x):
                locs[x.get("name")] = A.to_expr(A.kids(x)[-1])
            if x.get("kind") in ("CallExpr", "CXXMemberCallExpr"):
                e = A.to_expr(x)
                if e[0] == "mcall" and e[2] == "segment":
                    segs.append((e, x))
            if x.get("kind") in ("CompoundAssignOperator", "CXXOperatorCallExpr", "BinaryOperator"):
                e = A.to_expr(x)
                if e[0] == "op" and e[1] == "+=" and e[2][0] == "ref" and e[2][1] == cursor:
                    adv.append((e, x))
        fl, ln = A.loc(loop)
        ok = cursor is not None and len(segs) == 1 and len(adv) == 1
        why = ""
        if ok:
            seg = segs[0][0]
            start, length = seg[4][0], seg[4][1]
            step = adv[0][0][3]
            ok = start[0] == "ref" and start[1] == cursor and A.show(length) == A.show(step)
            # the length is the dof of the current element
            ldef = locs.get(length[1]) if length[0] == "ref" else length
            okd = ldef is not None and ldef[0] in ("call", "mcall") and "dof" in str(ldef[1] if ldef[0] == "call" else ldef[2])
            # advance happens after the segment use (statement order)
            order_ok = A.loc(adv[0][1])[1] >= A.loc(segs[0][1])[1]
            if not ok:
                why = "segment(%s, %s) is followed by %s += %s" % (A.show(start), A.show(length), cursor, A.show(step))
            elif not okd:
                ok, why = False, "segment length `%s` is not the dof of the current element" % A.show(length)
            elif not order_ok:
                ok, why = False, "cursor advanced before the segment is used"
        else:
            why = "cursor=%s, %d segment accesses, %d cursor updates in the loop" % (cursor, len(segs), len(adv))
        rep.instance("F3", "man<std::vector<M>>::" + nm, "segments", ok=ok, sample={"file": fe.rel(fl), "line": ln, "cursor": cursor})
        if not ok:
            rep.violation(Finding("F3", "man<std::vector<M>>::" + nm, "segments",
                                  "container model does not act on consecutive tangent segments: " + why, fl, ln))


def check_f4(rep, idx):
    rep.rule("F4", "AnyManifold copies are deep (copy-ctor / copy-assignment go through clone(); clone copy-constructs a new wrapper)", minimum=3)
    anyd = [d for d in idx if d.pattern and in_file(d, "manifolds/any.hpp")]
    got = {"copy_ctor": None, "copy_assign": None, "clone": None}
    for d in anyd:
        if d.kind == "CXXConstructorDecl" and d.qname.startswith("AnyManifold"):
            ps = A.params(d.node)
            if len(ps) == 1 and re.sub(r"\s", "", ps[0].get("type", {}).get("qualType", "")) == "constAnyManifold&":
                inits = [c for c in A.kids(d.node) if c.get("kind") == "CXXCtorInitializer" and c.get("anyInit", {}).get("name") == "m_val"]
                it = "".join(A.ntext(k) for k in A.kids(inits[0])) if inits else ""
                ok = bool(inits) and it == "m.m_val->clone()"
                got["copy_ctor"] = (ok, d)
        if d.kind == "CXXMethodDecl" and d.qname == "AnyManifold::operator=" and A.body(d.node) is not None:
            ps = A.params(d.node)
            if len(ps) == 1 and re.sub(r"\s", "", ps[0].get("type", {}).get("qualType", "")) == "constAnyManifold&":
                t = A.ntext(A.body(d.node))
                got["copy_assign"] = ("m_val=m.m_val->clone();" in t, d)
        if d.kind == "CXXMethodDecl" and d.qname.endswith("wrapper::clone") and A.body(d.node) is not None:
            t = A.ntext(A.body(d.node))
            got["clone"] = (re.search(r"returnstd::make_unique<wrapper<M>>\(m_val\);", t) is not None, d)
    for k, v in got.items():
        if v is None:
            rep.broke("F4: %s of AnyManifold not found" % k)
            continue
        ok, d = v
        rep.instance("F4", "AnyManifold", k, ok=ok, sample={"file": fe.rel(d.file), "line": d.line})
        if not ok:
            rep.violation(Finding("F4", "AnyManifold", k, "%s does not produce an independent deep copy through clone()/copy-construction of the wrapped value" % k, d.file, d.line))


# ---- F5: rminus(rplus(m, a), m) = a by term rewriting -------------------------------------------------------------------------

class TErr(Exception):
    pass


def _fname(e):
    return str(e[1]).split("::")[-1].split("<")[0]


def check_f5(rep, idx_lie, idx_sub):
    """The defining axiom of a manifold model, decided symbolically.
    LieGroup model: rplus(g, a) = g * exp(a) and rminus(g1, g2) = log(g2^-1 * g1); substituting, rminus(rplus(g, a), g) must reduce to
    log(exp(a)) in the free group on every return path (a shortcut such as log(g1) - log(g2) is not an identity: it fails to wrap).
    SubManifold model over an abstract M with the axiom rminus_M(rplus_M(x, s), x) = s: (m (+) a) (-) m must be gather(scatter(a))."""
    import c14
    rep.rule("F5", "rminus(rplus(m, a), m) reduces to a: LieGroup model in the free group, SubManifold over an abstract manifold", minimum=2)
    # --- LieGroup model
    mans = [d for d in idx_lie if d.kind in A.FUNCS and d.pattern and d.file and d.file.endswith("concepts/lie_group.hpp") and A.body(d.node) is not None
            and d.qname.split("::")[-1] in ("rplus", "rminus")]
    byname = {}
    for d in mans:
        byname.setdefault(d.qname.split("::")[-1], []).append(d)
    if len(byname.get("rplus", [])) != 1 or len(byname.get("rminus", [])) != 1:
        rep.broke("F5: traits::man<LieGroup>::rplus / rminus not found (%s)" % {k: len(v) for k, v in byname.items()})
    else:
        rp, rm = byname["rplus"][0], byname["rminus"][0]
        pg, pa = [p.get("name") for p in A.params(rp.node)]

        def gw(e, env):
            if e[0] == "ref":
                if e[1] in env:
                    return list(env[e[1]])
                raise TErr("name %s" % e[1])
            if e[0] == "call":
                f = _fname(e)
                if f == "composition":
                    out = []
                    for a in e[2]:
                        out += gw(a, env)
                    return c14.fg_reduce(out)
                if f == "inverse" and len(e[2]) == 1:
                    return c14.fg_inv(gw(e[2][0], env))
                if f == "exp" and len(e[2]) == 1 and e[2][0][0] == "ref" and e[2][0][1] in env and env[e[2][0][1]] == "TANGENT":
                    return [("exp(a)", 1)]
            if e[0] == "op" and e[1] == "*":
                return c14.fg_reduce(gw(e[2], env) + gw(e[3], env))
            raise TErr("group expression %s" % A.show(e)[:50])
        try:
            rets = [A.to_expr(A.kids(x)[0]) for x in A.walk_nolambda(A.body(rp.node)) if x.get("kind") == "ReturnStmt"]
            if len(rets) != 1:
                raise TErr("rplus has %d returns" % len(rets))
            plus = gw(rets[0], {pg: [("g", 1)], pa: "TANGENT"})
            p1, p2 = [p.get("name") for p in A.params(rm.node)]
            bad = None
            nret = 0
            for x in A.walk_nolambda(A.body(rm.node)):
                if x.get("kind") != "ReturnStmt":
                    continue
                nret += 1
                e = A.to_expr(A.kids(x)[0])
                if e[0] == "call" and _fname(e) == "log" and len(e[2]) == 1:
                    w = gw(e[2][0], {p1: plus, p2: [("g", 1)]})
                    if w != [("exp(a)", 1)] and bad is None:
                        bad = (x, "log(%s)" % (" ".join("%s%s" % (s_, "" if k_ == 1 else "^-1") for s_, k_ in w) or "1"))
                else:
                    if bad is None:
                        bad = (x, A.show(e)[:80])
            if nret == 0:
                raise TErr("rminus has no return")
            rep.instance("F5", "traits::man<LieGroup>", "rminus(rplus(g, a), g)", ok=bad is None, sample={"file": fe.rel(rm.file), "line": rm.line, "rplus": "g exp(a)", "returns": nret})
            if bad:
                f, l = A.loc(bad[0])
                rep.violation(Finding("F5", "traits::man<LieGroup>::rminus", "axiom",
                                      "with rplus(g, a) = g * exp(a), one return path of rminus evaluates rminus(rplus(g, a), g) as %s, which does not reduce to log(exp(a)) = a "
                                      "in the free group (the difference of two logarithms is not the logarithm of the quotient: angles do not wrap)" % bad[1], f, l))
        except TErr as ex:
            rep.broke("F5: cannot interpret traits::man<LieGroup>::rplus / rminus: %s" % ex)
    # --- SubManifold
    sub = {}
    for d in idx_sub:
        if d.kind in A.FUNCS and d.pattern and d.file and d.file.endswith("submanifold.hpp") and A.body(d.node) is not None and d.qname in ("SubManifold::rplus", "SubManifold::rminus"):
            sub[d.qname.split("::")[-1]] = d
    if set(sub) != {"rplus", "rminus"}:
        rep.broke("F5: SubManifold::rplus / rminus not found")
        return
    try:
        # rplus: new value = man<M>::rplus(m_m, S) where S is the scattered tangent (a local filled from `a` by the F2 loop)
        rp = sub["rplus"]
        ret = [A.to_expr(A.kids(x)[0]) for x in A.walk_nolambda(A.body(rp.node)) if x.get("kind") == "ReturnStmt"]
        if len(ret) != 1:
            raise TErr("rplus has %d returns" % len(ret))
        args = ret[0][2] if ret[0][0] in ("ctor", "call") else (ret[0][1] if ret[0][0] == "init" else None)
        if not args or len(args) != 3:
            raise TErr("rplus does not return SubManifold(m0, value, fixed_dims): %s" % A.show(ret[0])[:60])
        val = args[1]
        vargs = val[2] if val[0] == "call" else (val[4] if val[0] == "mcall" else None)
        vname = _fname(val) if val[0] == "call" else (val[2] if val[0] == "mcall" else None)
        if not (vname == "rplus" and vargs and len(vargs) == 2 and A.show(vargs[0]).endswith("m_m") and vargs[1][0] == "ref"):
            raise TErr("new value is %s" % A.show(val)[:60])
        scat = vargs[1][1]
        origin_kept = A.show(args[0]).endswith("m_m0")
        # rminus: gather(T) with T a local initialised by an expression in man<M>::rminus
        rm = sub["rminus"]
        other = [p.get("name") for p in A.params(rm.node)][0]
        locs = {}
        for x in A.walk_nolambda(A.body(rm.node)):
            if x.get("kind") == "VarDecl" and A.kids(x):
                locs[x.get("name")] = A.to_expr(A.kids(x)[-1])
        gathered = None
        for x in A.walk_nolambda(A.body(rm.node)):
            if x.get("kind") in ("BinaryOperator", "CXXOperatorCallExpr"):
                e = A.to_expr(x)
                if e[0] == "op" and e[1] == "=" and e[3][0] in ("call", "sub") and isinstance(e[3][1], (str, tuple)):
                    src = e[3][1] if isinstance(e[3][1], str) else (e[3][1][1] if e[3][1][0] == "ref" else None)
                    if src in locs:
                        gathered = src
        if gathered is None:
            raise TErr("rminus does not gather from a local tangent")

        def term(e):
            """normal form over an abstract manifold: 'S' (the scattered tangent), or a structured term"""
            eargs = e[2] if e[0] == "call" else (e[4] if e[0] == "mcall" else None)
            ename = _fname(e) if e[0] == "call" else (e[2] if e[0] == "mcall" else None)
            if ename == "rminus" and eargs and len(eargs) == 2:
                x_, y_ = val_of(eargs[0]), val_of(eargs[1])
                if x_ == ("rplus", "m", "S") and y_ == "m":
                    return "S"
                return ("rminus", x_, y_)
            if e[0] == "op" and e[1] in ("+", "-"):
                return (e[1], term(e[2]), term(e[3]))
            if e[0] == "ref" and e[1] in locs:
                return term(locs[e[1]])
            raise TErr("tangent expression %s" % A.show(e)[:60])

        def val_of(e):
            t = A.show(e)
            if t.endswith("m_m0") or t.endswith("m0()"):
                return "m0"
            if t in ("this.m_m", "m_m") or t.endswith("this.m_m"):
                return ("rplus", "m", "S")      # this = m (+) a
            if t in ("%s.m()" % other, "%s.m_m" % other):
                return "m"                       # other = m
            raise TErr("value expression %s" % t[:40])
        nf = term(locs[gathered])
        ok = nf == "S" and origin_kept

        def show(t):
            if isinstance(t, tuple):
                if t[0] in ("+", "-"):
                    return "(%s %s %s)" % (show(t[1]), t[0], show(t[2]))
                return "%s(%s)" % (t[0], ", ".join(show(x) for x in t[1:]))
            return {"S": "scatter(a)", "m": "m", "m0": "m0"}.get(t, str(t))
        rep.instance("F5", "SubManifold", "rminus(rplus(m, a), m)", ok=ok, sample={"file": fe.rel(rm.file), "line": rm.line, "normal_form": "gather(%s)" % show(nf)})
        if not ok:
            rep.violation(Finding("F5", "SubManifold::rminus", "axiom",
                                  "over an abstract manifold M, (m (+) a) (-) m evaluates gather(%s)%s; only gather(scatter(a)) = a follows from M's own axiom "
                                  "rminus(rplus(x, s), x) = s (differences taken in the coordinates of another point are not additive on curved manifolds)"
                                  % (show(nf), "" if origin_kept else " and rplus does not keep the origin m0"), rm.file, rm.line))
    except TErr as ex:
        rep.broke("F5: cannot interpret SubManifold::rplus / rminus: %s" % ex)


def check_f6(rep, idx_vec):
    """F6: dof of the std::vector<M> model is the sum of the element dofs: for static Dof size * Dof, otherwise an accumulation of dof(item) over
    all items -- the tangent length F3's cursor arithmetic consumes and produces."""
    rep.rule("F6", "traits::man<std::vector<M>>::dof = sum of the element dofs", minimum=1)
    fns = [d for d in idx_vec if d.kind in A.FUNCS and d.pattern and d.file and d.file.endswith("manifolds/vector.hpp") and A.body(d.node) is not None
           and d.qname.split("::")[-1] == "dof"]
    if len(fns) != 1:
        rep.broke("F6: traits::man<std::vector<M>>::dof not found (%d)" % len(fns))
        return
    d = fns[0]
    ifs = [x for x in A.kids(A.body(d.node)) if x.get("kind") == "IfStmt"]
    if len(ifs) != 1 or len(A.kids(ifs[0])) != 3:
        rep.broke("F6: dof is no longer `if constexpr (Dof > 0) size*Dof else accumulate`")
        return
    ks = A.kids(ifs[0])
    ctext = A.ntext(ks[0])
    stat, dyn = (ks[1], ks[2]) if (">0" in ctext.replace(" ", "") or "!=-1" in ctext.replace(" ", "")) else (ks[2], ks[1])
    dt = A.ntext(dyn)
    sums_all = ("accumulate(" in dt and "dof(item)" in dt.replace(" ", "").replace("traits::man<M>::", "").replace("::smooth::", "").replace("dof<M>", "dof")) or \
               (("for(" in dt or "for (" in dt) and "+=" in dt and "dof" in dt)
    uses_front = "front()" in dt or "[0]" in dt or "begin()" in dt and "accumulate" not in dt
    f, l = A.loc(dyn)
    if sums_all and not uses_front:
        rep.instance("F6", "traits::man<std::vector<M>>::dof", "dynamic", ok=True, sample={"file": fe.rel(f), "line": l})
    elif uses_front and not sums_all:
        rep.instance("F6", "traits::man<std::vector<M>>::dof", "dynamic", ok=False, sample={"file": fe.rel(f), "line": l})
        rep.violation(Finding("F6", "traits::man<std::vector<M>>::dof", "dynamic",
                              "for elements of dynamic size the dof is computed from one element (`%s`) instead of summing dof(item) over all items: containers whose "
                              "elements have different run-time sizes get a dof that differs from the tangent length rplus consumes and rminus returns" % dt[:90], f, l))
    else:
        rep.broke("F6: dynamic-size branch `%s` not recognised" % dt[:80])


def check(rep, tier, replay=None):
    rep.explanations.append(
        "C07: structural necessary conditions of the manifold axioms for the container/adaptor models: constructor-field "
        "correspondence wherever SubManifold is rebuilt from its parts, the scatter/gather index loops decided by abstract execution "
        "over every fixed-dimension subset of manifolds with up to 5 dof, consecutive-segment bookkeeping of std::vector<M>, deep copy of AnyManifold.")
    rep.trusted.update(["clang++-16 front end", "lib/pe.py Exec (integer index machine)"])
    rep.assumptions.append("numerical axioms rminus(rplus(m,a),m)=a etc. rest on C02 and are not decided")
    d = fe.ast_dumps(["SubManifold", "AnyManifold", "traits::man<"])
    rep.unit("umbrella TU filtered SubManifold / AnyManifold / traits::man<")
    idx_s = A.index(d["SubManifold"])
    check_f1(rep, idx_s)
    check_f2(rep, idx_s)
    check_f3(rep, A.index(d["traits::man<"]))
    check_f4(rep, A.index(d["AnyManifold"]))
    idx_m = A.index(d["traits::man<"])
    check_f5(rep, idx_m, idx_s)
    check_f6(rep, idx_m)
