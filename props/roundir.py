"""RND -- first-order rounding-error abstract interpretation of the optimized IR (shared by C02, C04, C05, C15).

The IR of an API-level witness (the same witnesses as rule T) is interpreted in the domain (value, absolute error bound): every floating-point
operation and every libm call adds the unit roundoff u relative to its result and propagates the bounds of its operands by the first-order
formulas (|a| e_b + |b| e_a for a product, e / |f'| ... for the elementary functions); comparisons are decided on the values.  The inputs are exact.
The tangent runs along a ray a = theta * w (unit rotation axis w; translation-like coordinates fixed at a few hundred) over a grid of angles: log-spaced
from 1e-9 to 3, just above and just below every threshold constant the function compares against (the small-angle switches, read from the IR itself),
and pi - 10^-k towards the half turn.

For every output matrix the bound is taken relative to its largest entry and compared with the property's tolerance; because a first-order bound is
pessimistic (typically 5-30x) only >= 100x the tolerance is reported, a smaller excess is a note.  This is a statement about the *conditioning of the
formulas actually compiled*, independent of how the source spells them: a closed form that cancels catastrophically just above its switch, towards
the half turn, or anywhere on the grid is reported with the angle and the operation chain's predicted error; nothing is measured or executed."""
import math
import re

import fe
import groups
import ir
import poly
import raychk
from report import Finding


INF = float("inf")


class NE:
    """(value, absolute error bound) with unit roundoff U"""
    __slots__ = ("v", "e")
    U = 2.0 ** -53

    def __init__(self, v, e=0.0):
        self.v = float(v)
        e = float(e)
        self.e = INF if e != e else e

    def _r(self, r, e):
        e = e + NE.U * abs(r)
        return NE(r, INF if e != e else e)

    def __add__(self, o):
        return self._r(self.v + o.v, self.e + o.e)

    def __sub__(self, o):
        return self._r(self.v - o.v, self.e + o.e)

    def __neg__(self):
        return NE(-self.v, self.e)

    def __mul__(self, o):
        return self._r(self.v * o.v, abs(self.v) * o.e + abs(o.v) * self.e)

    def __truediv__(self, o):
        if o.v == 0:
            # the value track is the double evaluation at this very input: the compiled code divides by exactly zero here (inf / nan at run time).
            # (A denominator whose error interval merely contains zero keeps the finite first-order bound: numerator and denominator errors are
            # correlated in practice and the model would over-report -- confirmed against SE3f log towards the half turn.)
            return NE(0.0, INF)
        return self._r(self.v / o.v, self.e / abs(o.v) + abs(self.v) * o.e / (o.v * o.v))


def _fn(name, args):
    u = NE.U
    x = args[0]
    if name in ("sin", "cos"):
        r = math.sin(x.v) if name == "sin" else math.cos(x.v)
        d = abs(math.cos(x.v)) if name == "sin" else abs(math.sin(x.v))
        return NE(r, d * x.e + u * max(abs(r), u))
    if name == "tan":
        r = math.tan(x.v)
        return NE(r, (1 + r * r) * x.e + u * abs(r))
    if name == "sqrt":
        if x.v < 0:
            if x.v > -x.e - 1e-300:
                return NE(0.0, math.sqrt(x.e))
            raise poly.Unsupported("sqrt of a negative value")
        r = math.sqrt(x.v)
        return NE(r, (0.5 * x.e / r if r > 0 else math.sqrt(x.e)) + u * r)
    if name == "fabs":
        return NE(abs(x.v), x.e)
    if name == "atan2":
        y, xx = args[0], args[1]
        d2 = max(xx.v * xx.v + y.v * y.v, 1e-300)
        r = math.atan2(y.v, xx.v)
        return NE(r, (abs(xx.v) * y.e + abs(y.v) * xx.e) / d2 + u * abs(r))
    if name == "atan":
        r = math.atan(x.v)
        return NE(r, x.e / (1 + x.v * x.v) + u * abs(r))
    if name in ("acos", "asin"):
        if abs(x.v) > 1:
            if abs(x.v) <= 1 + x.e + 1e-15:
                x = NE(max(-1.0, min(1.0, x.v)), x.e)
            else:
                raise poly.Unsupported("%s outside [-1, 1]" % name)
        r = math.acos(x.v) if name == "acos" else math.asin(x.v)
        s = math.sqrt(max(1 - x.v * x.v, 0.0))
        # near |x| = 1 the derivative blows up: the first-order term is replaced by the exact worst case over the error interval
        if s < 1e-3:
            lo, hi = max(-1.0, x.v - x.e), min(1.0, x.v + x.e)
            f = math.acos if name == "acos" else math.asin
            spread = max(abs(f(lo) - r), abs(f(hi) - r))
            return NE(r, spread + u * abs(r))
        return NE(r, x.e / s + u * abs(r))
    if name == "exp":
        r = math.exp(x.v)
        return NE(r, r * x.e + u * r)
    if name == "log":
        r = math.log(x.v)
        return NE(r, x.e / abs(x.v) + u * abs(r))
    if name == "copysign":
        return NE(math.copysign(x.v, args[1].v), x.e)
    if name in ("fmin", "minnum"):
        return x if x.v <= args[1].v else args[1]
    if name in ("fmax", "maxnum"):
        return x if x.v >= args[1].v else args[1]
    raise poly.Unsupported("call of %s (outside the rounding domain)" % name)


class RndEval(poly.PathEval):
    PURE_CALLS = ("sin", "cos", "tan", "sqrt", "atan2", "atan", "acos", "asin", "exp", "log", "llvm.sqrt", "llvm.fabs", "llvm.copysign", "llvm.minnum", "llvm.maxnum",
                  "fmin", "fmax", "sinf", "cosf", "sqrtf", "llvm.sin", "llvm.cos")

    def __init__(self, ff, cell_var, inputs):
        super().__init__(ff, cell_var, None, 4)
        self.inputs = inputs
        self.sig = []

    def dom_const(self, c):
        return NE(float(c), 0.0)

    def dom_input(self, vn):
        if vn not in self.inputs:
            raise poly.Unsupported("input cell %s has no value" % vn)
        return NE(self.inputs[vn], 0.0)

    def dom_check(self, r):
        pass

    def dom_cmp(self, pred, a, b):
        r = self._cmp(pred, a, b)
        self.sig.append(r)
        return r

    @staticmethod
    def _cmp(pred, a, b):
        x, y = a.v, b.v
        if x != x or y != y:
            return pred in ("ne", "no")
        return {"eq": x == y, "ne": x != y, "lt": x < y, "le": x <= y, "gt": x > y, "ge": x >= y, "rd": True, "no": False}[pred]

    def dom_key(self, x, y):
        return None

    def dom_call(self, name, args):
        base = name.split(".f64")[0].split(".f32")[0]
        base = base[5:] if base.startswith("llvm.") else base
        base = base[:-1] if base in ("sinf", "cosf", "sqrtf") else base
        return _fn(base, args)

    def dom_indeterminate(self, why):
        raise poly.Unsupported("indeterminate value (%s)" % why)


def thresholds(ff):
    """constants the function compares against (small-angle switch thresholds), read from the fcmp instructions"""
    out = set()
    for blk in ff.f.blocks.values():
        for ins in blk:
            if ins.op == "fcmp":
                for tok in re.findall(r"(?:double|float) (\S+?), (\S+)$", ins.text.strip()):
                    for t in tok:
                        c = ir.parse_const(t)
                        if c is not None and 0 < abs(c) <= 4 and c == c:
                            out.add(abs(float(c)))
    return sorted(out)


def ray(g, theta, variant=0, _state=None):
    """tangent at rotation angle theta: unit rotation axes, translation-like coordinates a few hundred, the rest O(1)"""
    st = _state if _state is not None else {"rot": variant, "gen": variant}
    if g.members:
        out = []
        for m in g.members:
            out += ray(m, theta, variant, st)
        return out
    base = g.key[:-1]
    trans = [310.0, -220.0, 140.0, -90.0, 260.0, -170.0, 120.0, 75.0, -330.0]
    gen = [0.75, -0.4, 0.71, -0.33, 0.78, 0.67]
    out = []
    for i in range(g.dof):
        if i in raychk.TRANSLATION.get(base, ()) or base.startswith("V"):
            out.append(trans[st["gen"] % len(trans)])
        else:
            out.append(gen[st["gen"] % len(gen)] * theta)
        st["gen"] += 1
    if base in raychk.TAN_ROT3:
        w = raychk.ROT3[st["rot"] % len(raychk.ROT3)]
        st["rot"] += 1
        o = raychk.TAN_ROT3[base]
        out[o:o + 3] = [float(x) * theta for x in w]
    elif base == "SE2":
        out[2] = theta
    elif base == "SO2":
        out[0] = theta
    elif base == "C1":
        out[0] = theta
    return out


def grid(ths, max_angle=None):
    """max_angle: the property's domain ends there (e.g. pi - 1e-3 for the inverse Jacobians)"""
    pts = set()
    for k in range(-9, 1):
        for m in (1.0, 2.2, 4.6):
            pts.add(m * 10.0 ** k)
    for c in ths:
        for base in (c, math.sqrt(c)):
            for f in (1 - 1e-3, 1 + 1e-6, 1 + 1e-3, 1.5):
                pts.add(base * f)
    for k in range(1, 9):
        pts.add(math.pi - 10.0 ** -k)
    return sorted(p for p in pts if 0 < p < math.pi and (max_angle is None or p <= max_angle))


def evaluate(ff, g, theta, hess, shapes):
    """(comparison signature, output cells) of the witness at rotation angle theta"""
    a0 = ray(g, theta)
    inputs = {"a%d" % i: a0[i] for i in range(g.dof)}
    if hess:
        inputs.update({"b%d" % i: 0.0 for i in range(g.dof)})

    def cell_var(p, off, ty):
        if p == 0:
            return "a%d" % (off // 8)
        if p == 1 and hess:
            return "b%d" % (off // 8)
        return None
    ev = RndEval(ff, cell_var, inputs)
    orig = ev._run_path

    def run_path(dec):
        ev._dec_proxy = dec
        ev.sig = []
        return orig(dec)
    ev._run_path = run_path
    paths = ev.run()
    st = paths[0]["stores"]
    out_param = 2 if hess else 1
    r1, c1 = shapes[0]
    cells = [st.get((out_param, 8 * k)) for k in range(r1 * c1)]
    if any(c is None for c in cells):
        return tuple(ev.sig), None
    return tuple(ev.sig), cells


def continuity(rep, rule, fname, ff, g, nm, hess, shapes, ths, tol, max_angle, near_pi):
    """RND.C: wherever the sequence of comparison outcomes changes along the ray (a small-angle switch, a guard towards the half turn, any case split), the
    outputs on the two sides of the flip -- located by bisection to adjacent angles -- agree within 2x the tolerance plus the two rounding bounds"""
    NE.U = 2.0 ** -53
    pts = set(grid(ths, max_angle))
    top = max_angle or math.pi
    pts.update(top * (i + 0.5) / 48 for i in range(48))
    pts = sorted(pts)
    prev = None
    flips = []
    for th in pts:
        sig, cells = evaluate(ff, g, th, hess, shapes)
        if cells is None:
            raise poly.Unsupported("output cell not written")
        if prev is not None and prev[1] != sig:
            lo, hi, slo = prev[0], th, prev[1]
            clo, chi = prev[2], cells
            for _ in range(70):
                mid = 0.5 * (lo + hi)
                if mid <= lo or mid >= hi:
                    break
                sm, cm = evaluate(ff, g, mid, hess, shapes)
                if cm is None:
                    raise poly.Unsupported("output cell not written")
                if sm == slo:
                    lo, clo = mid, cm
                else:
                    hi, chi = mid, cm
            flips.append((lo, hi, clo, chi))
        prev = (th, sig, cells)
    out = []
    for lo, hi, clo, chi in flips:
        tl = tol
        if nm in near_pi and math.pi - lo < near_pi[nm][0]:
            tl = near_pi[nm][1]
        scale = max(max(abs(c.v) for c in clo), 1.0)
        worst = None
        for k, (a, b) in enumerate(zip(clo, chi)):
            if a.e == INF or b.e == INF:
                continue        # reported by the bound itself
            d = abs(a.v - b.v)
            d = INF if d != d else d
            excess = (d - a.e - b.e) / scale
            if worst is None or excess > worst[0]:
                worst = (excess, k, a.v, b.v)
        out.append((lo, hi, worst, tl))
    return out


def run(rep, tier, prop, names, tol, float_tol=None, rule="RND", max_angle=None, near_pi=None):
    """max_angle: {witness name: largest rotation angle of the property's domain}; near_pi: {witness name: (width_double, tol_double, width_float, tol_float)} --
    a relaxed tolerance within `width` of the half turn (C02's log round trip)"""
    max_angle = max_angle or {}
    near_pi = near_pi or {}
    gs = [g for g in groups.catalogue("quick")]
    rep.rule(rule, "first-order rounding bound of the compiled formulas along rays (grid of angles incl. both sides of every switch and pi - 10^-k) stays below 100x the "
             "tolerance %g%s relative to the largest entry of each output" % (tol, (" (float: %g)" % float_tol) if float_tol else ""), minimum=len(names) * 4)
    W = raychk.witnesses(gs, names)
    facts = W.build()
    rep.unit("%d ray witnesses (shared with rule T)" % len(W.wits))
    crule = rule + ".C"
    rep.rule(crule, "every change of the comparison outcomes along the ray (small-angle switch, guard towards the half turn, any case split) is continuous: the outputs at the two "
             "adjacent angles around the flip agree within 2x the tolerance plus their rounding bounds", minimum=len(names) * 2)
    for fname, (ff, meta, mod) in sorted(facts.items()):
        g, nm = meta["g"], meta["name"]
        hess = nm in ("d2rexp", "d2rinv")
        ths = thresholds(ff)
        shapes = meta["shape"]
        r1 = shapes[0][0]
        try:
            flips = continuity(rep, crule, fname, ff, g, nm, hess, shapes, ths, tol, max_angle.get(nm), near_pi)
        except (poly.Unsupported, ir.Unresolved) as ex:
            rep.broke("%s: %s: %s" % (crule, fname, ex))
            flips = []
        if not flips:
            rep.instance(crule, g.ctype, "%s: no case split along the ray" % nm, ok=True, nontrivial=False, sample={"witness": fname})
        for lo, hi, worst, tl_c in flips:
            inst = "%s flip at %.6g" % (nm, lo)
            ok = worst is None or worst[0] <= 2 * tl_c
            rep.instance(crule, g.ctype, inst, ok=ok, sample={"witness": fname, "angle_below": lo, "angle_above": hi, "jump_beyond_rounding_rel": worst[0] if worst else 0.0, "tolerance": tl_c})
            if not ok:
                ex_, k, va, vb = worst
                rep.violation(Finding(crule, g.ctype, inst,
                                      "%s (%s): the compiled code takes a different branch on the two sides of rotation angle %.12g (pi - %.3g), and entry (%d, %d) jumps from %.12g to %.12g "
                                      "there: %.3g relative to the largest entry beyond what rounding explains, against 2 x tolerance %g -- the two branches of that case split do not compute "
                                      "the same function at the point where they meet" % (raychk.IDENT[nm][1].split("==")[0].strip(), g.ctype, lo, math.pi - lo, k % r1, k // r1, va, vb, ex_, tl_c),
                                      None, None, detail={"witness": fname}))
        for scalar, u, tl in (("double", 2.0 ** -53, tol), ("float", 2.0 ** -24, float_tol)):
            if tl is None:
                continue
            NE.U = u
            worst = (0.0, None, None, tl)
            broke = None
            worst_ratio = 0.0
            for theta in grid(ths, max_angle.get(nm)):
                if scalar == "float" and math.pi - theta < 1e-6:
                    continue          # not representable distinct from pi in single precision
                tl_here = tl
                if nm in near_pi:
                    wd, td, wf, tf = near_pi[nm]
                    if scalar == "double" and math.pi - theta < wd:
                        tl_here = td
                    if scalar == "float" and math.pi - theta < wf:
                        tl_here = tf
                try:
                    sig, cells = evaluate(ff, g, theta, hess, shapes)
                except (poly.Unsupported, ir.Unresolved) as ex:
                    broke = "%s at theta = %.3g: %s" % (fname, theta, ex)
                    break
                if cells is None:
                    broke = "%s: output cell not written" % fname
                    break
                scale = max(max(abs(c.v) for c in cells), 1.0)       # relative to the largest entry, absolute below 1
                rel = max(c.e for c in cells) / scale
                if rel / tl_here > worst_ratio:
                    worst_ratio = rel / tl_here
                    k = max(range(len(cells)), key=lambda i: cells[i].e)
                    worst = (rel, theta, (k % r1, k // r1, cells[k].v, cells[k].e), tl_here)
            if broke:
                rep.broke("%s: %s" % (rule, broke))
                break
            inst = "%s %s" % (nm, scalar)
            tl = worst[3]
            sample = {"witness": fname, "worst_relative_bound": worst[0], "at_angle": worst[1], "tolerance": tl, "thresholds": ths[:6]}
            if worst[0] >= 100 * tl:
                rep.instance(rule, g.ctype, inst, ok=False, sample=sample)
                r_, c_, v_, e_ = worst[2]
                rep.violation(Finding(rule, g.ctype, inst,
                                      "%s (%s, %s): at rotation angle %.9g the compiled formula for entry (%d, %d) = %.3g has a first-order rounding bound of %.2g, i.e. %.2g relative to the "
                                      "largest entry, against the tolerance %g: the expression cancels catastrophically there (a switch threshold too small for its closed form, or a "
                                      "formula that is ill-conditioned towards the half turn; an infinite bound means a division by exactly zero at that input)" % (raychk.IDENT[nm][1].split("==")[0].strip(), g.ctype, scalar, worst[1], r_, c_, v_, e_, worst[0], tl),
                                      None, None, scalar=scalar, detail={"witness": fname}))
            else:
                rep.instance(rule, g.ctype, inst, ok=True, sample=sample)
                if worst[0] > tl:
                    rep.note("INCONCLUSIVE %s %s %s: rounding model predicts %.2g at angle %.6g (tolerance %g); the model is pessimistic, only >= 100x the tolerance is reported"
                             % (rule, g.ctype, inst, worst[0], worst[1], tl))
    NE.U = 2.0 ** -53


CONVERSIONS = [
    ("SO2::lift_so3", "smooth::SO2d g(p0[0]);\n  Eigen::Map<Eigen::Vector4d> m1(o1);\n  m1 = g.lift_so3().coeffs();", "principal"),
    ("SO3::rot_x", "Eigen::Map<Eigen::Vector4d> m1(o1);\n  m1 = smooth::SO3d::rot_x(p0[0]).coeffs();", "any"),
    ("SO3::rot_y", "Eigen::Map<Eigen::Vector4d> m1(o1);\n  m1 = smooth::SO3d::rot_y(p0[0]).coeffs();", "any"),
    ("SO3::rot_z", "Eigen::Map<Eigen::Vector4d> m1(o1);\n  m1 = smooth::SO3d::rot_z(p0[0]).coeffs();", "any"),
]


def run_conversions(rep, rule="R5", budget=1e-12):
    """angle -> quaternion conversions: the first-order rounding bound of every stored coefficient stays below `budget` (100x the 1e-14 single-operation budget; the model
    is pessimistic) over a grid of angles that includes both signs, pi -/+ 10^-k and, for the rot_* constructors, angles beyond a full turn"""
    import irw
    rep.rule(rule, "angle -> quaternion conversions: first-order rounding bound of every coefficient (optimized IR, rounding domain) stays below %g at every angle incl. pi - 10^-k" % budget,
             minimum=len(CONVERSIONS))
    W = irw.IRW("rnd_conv", groups.PRELUDE, chunk=4)
    for i, (what, body, dom) in enumerate(CONVERSIONS):
        W.add("conv_%d" % i, "const double* p0, double* o1", "  " + body, what=what, dom=dom)
    facts = W.build()
    rep.unit("%d conversion witnesses" % len(W.wits))
    NE.U = 2.0 ** -53
    base = grid([])
    for fname, (ff, meta, mod) in sorted(facts.items()):
        angles = set(base) | {-a for a in base}
        if meta["dom"] == "any":
            angles |= {math.pi + 10.0 ** -k for k in range(1, 9)} | {4.0, 6.0, 2 * math.pi - 1e-6, 2 * math.pi + 1e-6, -4.0, 9.5, 3 * math.pi - 1e-7}
        worst = (0.0, None, None)
        broke = None
        for th in sorted(angles):
            try:
                ev = RndEval(ff, lambda p, off, ty: "x" if p == 0 else None, {"x": th})
                orig = ev._run_path

                def run_path(dec, ev=ev, orig=orig):
                    ev._dec_proxy = dec
                    return orig(dec)
                ev._run_path = run_path
                st = ev.run()[0]["stores"]
            except (poly.Unsupported, ir.Unresolved) as ex:
                broke = "%s at angle %.6g: %s" % (meta["what"], th, ex)
                break
            cells = [st.get((1, 8 * k)) for k in range(4)]
            if any(c is None for c in cells):
                broke = "%s: coefficient not written" % meta["what"]
                break
            k = max(range(4), key=lambda i: cells[i].e)
            if cells[k].e > worst[0]:
                worst = (cells[k].e, th, k)
        if broke:
            rep.broke("%s: %s" % (rule, broke))
            continue
        ok = worst[0] < budget
        rep.instance(rule, meta["what"], "conditioning", ok=ok, sample={"witness": fname, "worst_coefficient_bound": worst[0], "at_angle": worst[1], "angles": len(angles)})
        if not ok:
            rep.violation(Finding(rule, meta["what"], "conditioning",
                                  "%s: at angle %.12g (pi - %.1e) the compiled expression for coefficient %d has a first-order rounding bound of %.2g (budget 1e-14 per operation, "
                                  "reported from %g): it is ill-conditioned there (e.g. a half-angle identity sqrt((1 +/- cos)/2) cancelling towards the half turn); an infinite bound "
                                  "is a division by exactly zero" % (meta["what"], worst[1], math.pi - abs(worst[1]), worst[2], worst[0], budget), None, None, detail={"witness": fname}))
